"""environment models for the parts of libstdc++ / libc that live in shared objects (not in the IR):
std::locale (classic only), iostream sinks, misc.  Every model is part of the trusted base and is
listed in the evidence as an assumption."""
import z3
from irsym import *
import struct
from irsym import _len, _cell_expr, MODULE_HOOKS


def _static_obj(eng, st, key, size=16):
    k = ('static', key)
    if k not in st.ext:
        st.ext[k] = st.alloc(size, 'global', key, fill=0).base
    return st.ext[k]


# ---- std::locale: only the classic "C" locale exists.  A locale object holds a pointer to one static _Impl (layout of libstdc++:
# refcount @0, facets @8, facets_size @16) whose facet table has the ctype<char> (index 0) and collate<char> (index 1) models, so
# that the inline std::use_facet / std::has_facet header code works on it.
def _locale_impl(eng):
    return eng.irm.gaddr['model_locale_impl']


@ext('_ZNSt6localeC1Ev', '_ZNSt6localeC2Ev', '_ZNSt6localeC1ERKS_', '_ZNSt6localeC2ERKS_')
def x_locale_ctor(eng, st, a):
    eng.mem_write(st, a[0], int_cells(_locale_impl(eng), 8))
    return 0


@ext('_ZNSt6localeD1Ev', '_ZNSt6localeD2Ev')
def x_locale_dtor(eng, st, a):
    return 0


@ext('_ZNSt6locale7classicEv')
def x_locale_classic(eng, st, a):
    p = _static_obj(eng, st, 'std::locale::classic')
    eng.mem_write(st, p, int_cells(_locale_impl(eng), 8))
    return p


@ext('_ZNKSt6locale2id5_M_idEv')
def x_locale_id(eng, st, a):
    g = eng.irm.gaddr
    if a[0] == g.get('_ZNSt5ctypeIcE2idE'):
        return 0
    if a[0] in (g.get('_ZNSt7collateIcE2idE', -1), g.get('_ZNSt7__cxx117collateIcE2idE', -1)):
        return 1
    raise EngineError('std::locale::id::_M_id() of a facet that is not modelled (only ctype<char> and collate<char> are)')


def _prepare_locale(irm):
    st = irm.base_state
    a = max(irm.addr_fn) + 16
    names = ['model_facet_dtor', 'model_facet_dtor', 'model_collate_compare', 'model_collate_transform', 'model_collate_hash']
    for n in names:
        if n not in irm.fn_addr:
            irm.fn_addr[n] = a; irm.addr_fn[a] = n; a += 16
    vt = st.alloc(16 + 8 * len(names), 'global', 'vtable (model) std::collate<char>', fill=0)
    vt.data[8:16] = int_cells(irm.gaddr.get('_ZTINSt7__cxx117collateIcEE', irm.gaddr.get('_ZTISt7collateIcE', 0)), 8)
    for i, n in enumerate(names):
        vt.data[16 + 8 * i:24 + 8 * i] = int_cells(irm.fn_addr[n], 8)
    col = st.alloc(32, 'global', 'std::collate<char> (model, classic locale)', fill=0)
    col.data[0:8] = int_cells(vt.base + 16, 8)
    facets = st.alloc(8 * 64, 'global', 'facet table of the classic locale (model)', fill=0)
    facets.data[0:8] = int_cells(irm.gaddr['model_ctype_object'], 8)
    facets.data[8:16] = int_cells(col.base, 8)
    irm.gaddr['model_collate_object'] = col.base
    impl = st.alloc(40, 'global', 'std::locale::_Impl (model, classic locale)', fill=0)
    impl.data[0:4] = int_cells(1, 4); impl.data[8:16] = int_cells(facets.base, 8); impl.data[16:24] = int_cells(64, 8)
    irm.gaddr['model_locale_impl'] = impl.base


def _write_std_string(eng, st, out, cells):
    """construct a std::string (libstdc++ SSO layout) holding cells at address out"""
    n = len(cells)
    if n < 16:
        eng.mem_write(st, out, int_cells(out + 16, 8) + int_cells(n, 8) + list(cells) + [0] * (16 - n))
    else:
        o = st.alloc(n + 1, 'heap:new', 'std::string buffer (model)', fill=0)
        o.data[:n] = list(cells)
        eng.mem_write(st, out, int_cells(o.base, 8) + int_cells(n, 8) + int_cells(n, 8))


@ext('model_collate_transform')
def x_collate_transform(eng, st, a):
    # std::string collate<char>::do_transform(const char* lo, const char* hi) const: identity in the "C" locale (strxfrm)
    out, lo, hi = a[0], a[2], a[3]
    _write_std_string(eng, st, out, eng.mem_read(st, lo, hi - lo) if hi > lo else [])
    return out


@ext('_ZSt9use_facetINSt7__cxx117collateIcEEERKT_RKSt6locale', '_ZSt9use_facetISt7collateIcEERKT_RKSt6locale')
def x_use_facet_collate(eng, st, a):
    return eng.irm.gaddr['model_collate_object']


@ext('model_facet_dtor')
def x_facet_dtor(eng, st, a):
    return 0


@ext('_ZNKSt6localeeqERKS_')
def x_locale_eq(eng, st, a):
    return 1


@ext('_ZNSt6localeaSERKS_')
def x_locale_assign(eng, st, a):
    return a[0]


# ---- iostreams: sink model -------------------------------------------------------------------
# An ostream object is real memory laid out like libstdc++'s (so that the *inline* header code the
# compiler put into the IR - width(), setf(), fill(), rdstate(), ostringstream::str() - works on it);
# the out-of-line members (in libstdc++.so) are modelled here: they append to a byte buffer and honour
# width / adjustfield / fill exactly as [ostream.formatted] describes.
IOS_WIDTH, IOS_FLAGS, IOS_STATE, IOS_FILL, IOS_FILLINIT = 16, 24, 32, 224, 225
OSS_SIZE, OSS_VBASE = 376, 112
F_LEFT, F_RIGHT, F_INTERNAL = 0x20, 0x80, 0x10


def _fake_vtable(eng, st, vbase_off):
    key = ('static', 'ostream-vtable-%d' % vbase_off)
    if key not in st.ext:
        o = st.alloc(64, 'global', 'ostream vtable (model)', fill=0)
        o.data[8:16] = int_cells(vbase_off, 8)
        st.ext[key] = o.base + 32
    return st.ext[key]


def _ios_of(eng, st, os_):
    vptr = cells_int(eng.mem_read(st, os_, 8))
    if type(vptr) is not int or vptr == 0:
        # an external stream object (std::cout, std::cerr, ...) seen for the first time: give it a layout
        o = st.find(os_)
        if o is None:
            raise EngineError('ostream operation on a non-object 0x%x' % os_)
        vptr = _fake_vtable(eng, st, 8)
        eng.mem_write(st, os_, int_cells(vptr, 8))
        _ios_init(eng, st, os_ + 8)
    off = cells_int(eng.mem_read(st, vptr - 24, 8))
    return os_ + sext_const(off, 64)


def _ios_init(eng, st, ios):
    eng.mem_write(st, ios, [0] * 264)
    eng.mem_write(st, ios + 8, int_cells(6, 8))
    eng.mem_write(st, ios + IOS_FLAGS, int_cells(0x1002, 4))
    eng.mem_write(st, ios + IOS_FILL, [32, 1])
    eng.mem_write(st, ios + 240, int_cells(eng.irm.gaddr['model_ctype_object'], 8))      # _M_ctype (widen() / fill())


def _buf(st, os_):
    return st.ext.setdefault(('os', os_), [])


def os_text(st, os_):
    """bytes written so far (symbolic cells as '?')"""
    return bytes(c if isinstance(c, int) else 63 for c in st.ext.get(('os', os_), []))


def _sync_oss(eng, st, os_):
    """mirror the buffer into the stringbuf put area so that the inline ostringstream::str() sees it"""
    if not st.ext.get(('oss', os_)):
        return
    cells = st.ext[('os', os_)]
    o = st.alloc(max(len(cells), 1), 'heap:malloc', 'ostringstream buffer (model)', fill=0)
    o.data[:len(cells)] = list(cells)
    sb = os_ + 8
    pos = st.ext.get(('ospos', os_))
    if pos is None:
        pos = len(cells)
    # get area end = high-water mark (what str() returns when the put pointer was moved back), put area: pbase, pptr, epptr
    eng.mem_write(st, sb + 8, int_cells(o.base, 8) + int_cells(o.base, 8) + int_cells(o.base + len(cells), 8))
    eng.mem_write(st, sb + 32, int_cells(o.base, 8) + int_cells(o.base + pos, 8) + int_cells(o.base + len(cells), 8))


def _append(eng, st, os_, cells, pad=True):
    ios = _ios_of(eng, st, os_)
    cells = list(cells)
    if pad:
        w = cells_int(eng.mem_read(st, ios + IOS_WIDTH, 8))
        if type(w) is not int:
            w = eng.concretize(st, w, 'stream width')
        w = sext_const(w, 64)
        if w > len(cells):
            fl = cells_int(eng.mem_read(st, ios + IOS_FLAGS, 4))
            if type(fl) is not int:
                fl = eng.concretize(st, fl, 'stream flags')
            fillc = eng.mem_read(st, ios + IOS_FILL, 1)[0]
            padc = [fillc] * (w - len(cells))
            cells = cells + padc if (fl & 0xb0) == F_LEFT else padc + cells
        eng.mem_write(st, ios + IOS_WIDTH, int_cells(0, 8))
    buf = st.ext.get(('os', os_), [])
    pos = st.ext.get(('ospos', os_))
    if pos is None or pos >= len(buf):
        st.ext[('os', os_)] = buf + cells
    else:                                     # the put position was moved back (seekp): overwrite, then extend
        st.ext[('os', os_)] = buf[:pos] + cells + buf[pos + len(cells):]
        st.ext[('ospos', os_)] = pos + len(cells) if pos + len(cells) < len(st.ext[('os', os_)]) else None
    _sync_oss(eng, st, os_)
    return os_


@ext('_ZNSo5seekpESt4fposI11__mbstate_tE')
def x_ostream_seekp(eng, st, a):
    """ostream::seekp(pos) on the sink model ([ostream.seeks]): valid positions are 0..size of the sequence"""
    os_ = a[0]
    ios = _ios_of(eng, st, os_)
    state = cells_int(eng.mem_read(st, ios + IOS_STATE, 4))
    if type(state) is int and state & 5:
        return os_
    pos = a[1] if type(a[1]) is int else eng.concretize(st, a[1], 'seekp position')
    pos = sext_const(pos, 64)
    buf = st.ext.get(('os', os_), [])
    if 0 <= pos <= len(buf):
        st.ext[('ospos', os_)] = pos if pos < len(buf) else None
        _sync_oss(eng, st, os_)
    else:
        eng.mem_write(st, ios + IOS_STATE, int_cells((state if type(state) is int else 0) | 4, 4))
    return os_


@ext('_ZNSt7__cxx1119basic_ostringstreamIcSt11char_traitsIcESaIcEEC1Ev', '_ZNSt7__cxx1119basic_ostringstreamIcSt11char_traitsIcESaIcEEC2Ev')
def x_oss_ctor(eng, st, a):
    p = a[0]
    eng.mem_write(st, p, [0] * OSS_SIZE)
    eng.mem_write(st, p, int_cells(eng.irm.gaddr['model_vtable_NSt7__cxx1119basic_ostringstreamIcSt11char_traitsIcESaIcEEE'], 8))
    _ios_init(eng, st, p + OSS_VBASE)
    # the embedded std::string of the stringbuf: empty SSO string
    eng.mem_write(st, p + 80, int_cells(p + 96, 8) + int_cells(0, 8))
    st.ext[('os', p)] = []
    st.ext[('oss', p)] = True


@ext('_ZNSt7__cxx1119basic_ostringstreamIcSt11char_traitsIcESaIcEED1Ev', '_ZNSt7__cxx1119basic_ostringstreamIcSt11char_traitsIcESaIcEED2Ev',
     '_ZNSt7__cxx1119basic_ostringstreamIcSt11char_traitsIcESaIcEED0Ev')
def x_oss_dtor(eng, st, a):
    st.ext.pop(('os', a[0]), None); st.ext.pop(('oss', a[0]), None)


@ext('_ZSt16__ostream_insertIcSt11char_traitsIcEERSt13basic_ostreamIT_T0_ES6_PKS3_l')
def x_ostream_insert(eng, st, a):
    n = _len(eng, st, a[2], 'inserted length')
    return _append(eng, st, a[0], eng.mem_read(st, a[1], n) if n else [])


@ext('_ZStlsISt11char_traitsIcEERSt13basic_ostreamIcT_ES5_PKc')
def x_ostream_cstr(eng, st, a):
    if a[1] == 0:
        ios = _ios_of(eng, st, a[0])
        eng.mem_write(st, ios + IOS_STATE, int_cells(1, 4))       # badbit, as libstdc++ does for a null pointer
        return a[0]
    return _append(eng, st, a[0], eng.read_cstr(st, a[1]))


@ext('_ZStlsISt11char_traitsIcEERSt13basic_ostreamIcT_ES5_c')
def x_ostream_char(eng, st, a):
    return _append(eng, st, a[0], int_cells(a[1], 1) if is_sym(a[1]) else [a[1] & 255])


@ext('_ZNSo3putEc')
def x_ostream_put(eng, st, a):
    return _append(eng, st, a[0], int_cells(a[1], 1) if is_sym(a[1]) else [a[1] & 255], pad=False)


@ext('_ZNSo5flushEv')
def x_ostream_flush(eng, st, a):
    return a[0]


@ext('_ZSt4endlIcSt11char_traitsIcEERSt13basic_ostreamIT_T0_ES6_')
def x_endl(eng, st, a):
    return _append(eng, st, a[0], [10], pad=False)


def _num_text(eng, st, v, signed_bits=None):
    if is_sym(v):
        st.ext['opaque_number_formatted'] = True
        return list(b'<?>')
    if signed_bits:
        v = sext_const(v, signed_bits)
    return list(str(v).encode())


@ext('_ZNSolsEi')
def x_ostream_int(eng, st, a):
    return _append(eng, st, a[0], _num_text(eng, st, a[1], 32))


@ext('_ZNSo9_M_insertIlEERSoT_', '_ZNSo9_M_insertIxEERSoT_')
def x_ostream_long(eng, st, a):
    return _append(eng, st, a[0], _num_text(eng, st, a[1], 64))


@ext('_ZNSo9_M_insertImEERSoT_', '_ZNSo9_M_insertIyEERSoT_')
def x_ostream_ulong(eng, st, a):
    return _append(eng, st, a[0], _num_text(eng, st, a[1]))


@ext('_ZNSo9_M_insertIbEERSoT_')
def x_ostream_bool(eng, st, a):
    ios = _ios_of(eng, st, a[0])
    fl = cells_int(eng.mem_read(st, ios + IOS_FLAGS, 4))
    v = a[1]
    if is_sym(v):
        v = 1 if eng.decide(st, to_bool(v)) else 0
    if type(fl) is int and fl & 1:      # boolalpha
        return _append(eng, st, a[0], list(b'true' if v else b'false'))
    return _append(eng, st, a[0], [49 if v else 48])


@ext('_ZNSo9_M_insertIdEERSoT_', '_ZNSo9_M_insertIeEERSoT_')
def x_ostream_double(eng, st, a):
    return _append(eng, st, a[0], list(('%g' % a[1]).encode()))


@ext('_ZNSo9_M_insertIPKvEERSoT_')
def x_ostream_ptr(eng, st, a):
    return _append(eng, st, a[0], list(b'0xPTR'))


@ext('_ZNSt9basic_iosIcSt11char_traitsIcEE5clearESt12_Ios_Iostate')
def x_ios_clear(eng, st, a):
    eng.mem_write(st, a[0] + IOS_STATE, int_cells(a[1], 4))


@ext('_ZNSt8ios_baseC2Ev', '_ZNSt8ios_baseD2Ev', '_ZNSt8ios_baseC1Ev', '_ZNSt8ios_baseD1Ev')
def x_iosbase(eng, st, a):
    return 0


@ext('_ZNSt9basic_iosIcSt11char_traitsIcEE4initEPSt15basic_streambufIcS1_E')
def x_ios_init(eng, st, a):
    _ios_init(eng, st, a[0])
    eng.mem_write(st, a[0] + 232, int_cells(a[1], 8))


# ---- std::ifstream over the model file table (vs_file).  Object layout as in libstdc++ (istream part at 0, filebuf at 16,
# __basic_file at 120, basic_ios virtual base at 256); getline() is C++ code in rt_support.cpp on top of vs_istream_getc().
IFS_VBASE, IFS_FILEBUF, IFS_FILE = 256, 16, 120


@ext('vs_file')
def x_vs_file(eng, st, a):
    path = eng.cstr_bytes(st, a[0]); n = _len(eng, st, a[2], 'file length')
    files = dict(st.ext.get('files') or {}); files[path] = list(eng.mem_read(st, a[1], n)) if n else []
    st.ext['files'] = files


@ext('_ZNSt14basic_ifstreamIcSt11char_traitsIcEEC1EPKcSt13_Ios_Openmode', '_ZNSt14basic_ifstreamIcSt11char_traitsIcEEC2EPKcSt13_Ios_Openmode')
def x_ifs_ctor(eng, st, a):
    p = a[0]
    eng.mem_write(st, p, [0] * (IFS_VBASE + 264))
    eng.mem_write(st, p, int_cells(eng.irm.gaddr['model_vtable_St14basic_ifstreamIcSt11char_traitsIcEE'], 8))
    _ios_init(eng, st, p + IFS_VBASE)
    path = eng.cstr_bytes(st, a[1])
    data = (st.ext.get('files') or {}).get(path)
    st.ext[('ifs', p)] = dict(data=data or [], pos=0, open=data is not None)
    if data is None:
        eng.mem_write(st, p + IFS_VBASE + IOS_STATE, int_cells(4, 4))          # failbit


@ext('_ZNKSt12__basic_fileIcE7is_openEv')
def x_basic_file_is_open(eng, st, a):
    f = st.ext.get(('ifs', a[0] - IFS_FILE))
    return 1 if f and f['open'] else 0


@ext('_ZNSt13basic_filebufIcSt11char_traitsIcEE5closeEv')
def x_filebuf_close(eng, st, a):
    f = st.ext.get(('ifs', a[0] - IFS_FILEBUF))
    if not f or not f['open']:
        return 0
    st.ext[('ifs', a[0] - IFS_FILEBUF)] = dict(f, open=False)
    return a[0]


@ext('_ZNSt14basic_ifstreamIcSt11char_traitsIcEED1Ev', '_ZNSt14basic_ifstreamIcSt11char_traitsIcEED2Ev', '_ZNSt13basic_filebufIcSt11char_traitsIcEED2Ev', '_ZNSt13basic_filebufIcSt11char_traitsIcEED1Ev')
def x_ifs_dtor(eng, st, a):
    return 0


@ext('vs_istream_getc')
def x_istream_getc(eng, st, a):
    f = st.ext.get(('ifs', a[0]))
    if f is None:
        raise EngineError('input from a stream that is not a modelled std::ifstream')
    if not f['open'] or f['pos'] >= len(f['data']):
        return 0xffffffff
    c = f['data'][f['pos']]
    st.ext[('ifs', a[0])] = dict(f, pos=f['pos'] + 1)
    e = _cell_expr(c)
    return e if isinstance(e, int) else simp(z3.ZeroExt(24, e))


# ---- formatted floating point input from a streambuf get area (boost::lexical_cast<double/float> builds a std::istream over
# the bytes of the value): [facet.num.get.virtuals] stage 2 accumulation as libstdc++ does it, stage 3 = the host strtod (Python
# float()).  Symbolic bytes are enumerated by forking (concretize), so every value is concrete on its path.
def _istream_area(eng, st, is_):
    vptr = cells_int(eng.mem_read(st, is_, 8))
    ios = is_ + sext_const(cells_int(eng.mem_read(st, vptr - 24, 8)), 64)
    sb = cells_int(eng.mem_read(st, ios + 232, 8))
    gptr = cells_int(eng.mem_read(st, sb + 16, 8)); egptr = cells_int(eng.mem_read(st, sb + 24, 8))
    if not all(type(x) is int for x in (ios, sb, gptr, egptr)) or sb == 0:
        raise EngineError('formatted input from a stream without a concrete get area')
    return ios, sb, gptr, egptr


def _extract_fp(eng, st, a, fmt):
    ios, sb, gptr, egptr = _istream_area(eng, st, a[0])
    state = cells_int(eng.mem_read(st, ios + IOS_STATE, 4))
    if state != 0:                                        # sentry fails
        eng.mem_write(st, ios + IOS_STATE, int_cells(state | 4, 4)); return a[0]
    flags = cells_int(eng.mem_read(st, ios + IOS_FLAGS, 4))
    pos = gptr; acc = ''; sign_ok = True; mant = dec = sci = False

    def peek(p):
        c = _cell_expr(eng.mem_read(st, p, 1)[0])
        return c if isinstance(c, int) else eng.concretize(st, c, 'byte of a floating point text', cap=600)
    if flags & 0x1000:                                    # skipws
        while pos < egptr and peek(pos) in b' \t\n\v\f\r':
            pos += 1
    while pos < egptr:
        c = chr(peek(pos))
        if c in '+-' and sign_ok:
            acc += c
        elif c.isdigit() and c.isascii():
            acc += c; mant = True
        elif c == '.' and not dec and not sci:
            acc += c; dec = True
        elif c in 'eE' and not sci and mant:
            acc += c; sci = True; sign_ok = True; pos += 1; continue
        else:
            break
        sign_ok = False; pos += 1
    import re as _re
    ok = _re.match(r'^[+-]?(\d+\.?\d*|\.\d+)([eE][+-]?\d+)?$', acc) is not None
    v = float(acc) if ok else 0.0
    if fmt == '<f':
        try:
            struct.pack('<f', v)
        except OverflowError:
            v = float('inf') if v > 0 else float('-inf'); ok = False
    elif v in (float('inf'), float('-inf')):
        ok = False                                        # ERANGE: failbit, value = +-max; boost only looks at the fail bit
    state = (0 if ok else 4) | (2 if pos >= egptr else 0)
    eng.mem_write(st, a[1], list(struct.pack(fmt, v)))
    eng.mem_write(st, sb + 16, int_cells(pos, 8))
    eng.mem_write(st, ios + IOS_STATE, int_cells(state, 4))
    return a[0]


@ext('_ZNSi10_M_extractIdEERSiRT_')
def x_istream_double(eng, st, a):
    return _extract_fp(eng, st, a, '<d')


@ext('_ZNSi10_M_extractIfEERSiRT_')
def x_istream_float(eng, st, a):
    return _extract_fp(eng, st, a, '<f')


# ---- std::istringstream over a copy of the string (object layout of libstdc++: istream part, stringbuf at 16, basic_ios at 120)
ISS_VBASE, ISS_BUF = 120, 16


@ext('_ZNSt7__cxx1119basic_istringstreamIcSt11char_traitsIcESaIcEEC1ERKNS_12basic_stringIcS2_S3_EESt13_Ios_Openmode',
     '_ZNSt7__cxx1119basic_istringstreamIcSt11char_traitsIcESaIcEEC2ERKNS_12basic_stringIcS2_S3_EESt13_Ios_Openmode')
def x_iss_ctor(eng, st, a):
    p = a[0]
    eng.mem_write(st, p, [0] * (ISS_VBASE + 264))
    eng.mem_write(st, p, int_cells(eng.irm.gaddr['model_vtable_NSt7__cxx1119basic_istringstreamIcSt11char_traitsIcESaIcEEE'], 8))
    _ios_init(eng, st, p + ISS_VBASE)
    sb = p + ISS_BUF
    eng.mem_write(st, p + ISS_VBASE + 232, int_cells(sb, 8))
    data = cells_int(eng.mem_read(st, a[1], 8)); n = _len(eng, st, cells_int(eng.mem_read(st, a[1] + 8, 8)), 'string length')
    o = st.alloc(n + 1, 'heap:malloc', 'istringstream buffer (model)', fill=0)
    if n:
        o.data[:n] = list(eng.mem_read(st, data, n))
    eng.mem_write(st, sb + 8, int_cells(o.base, 8) + int_cells(o.base, 8) + int_cells(o.base + n, 8))
    return 0


@ext('_ZNSt7__cxx1119basic_istringstreamIcSt11char_traitsIcESaIcEED1Ev', '_ZNSt7__cxx1119basic_istringstreamIcSt11char_traitsIcESaIcEED2Ev')
def x_iss_dtor(eng, st, a):
    return 0


def _extract_int(bits, signed):
    """formatted integer input ([facet.num.get.virtuals], base 10): optional sign, digits; failbit if there is no digit or the
    value does not fit (the value is then the nearest limit, C++11)"""
    def f(eng, st, a):
        ios, sb, gptr, egptr = _istream_area(eng, st, a[0])
        state = cells_int(eng.mem_read(st, ios + IOS_STATE, 4))
        if state != 0:
            eng.mem_write(st, ios + IOS_STATE, int_cells(state | 4, 4)); return a[0]
        flags = cells_int(eng.mem_read(st, ios + IOS_FLAGS, 4))
        pos = gptr

        def peek(p):
            c = _cell_expr(eng.mem_read(st, p, 1)[0])
            return c if isinstance(c, int) else eng.concretize(st, c, 'byte of an integer text', cap=600)
        if flags & 0x1000:
            while pos < egptr and peek(pos) in b' \t\n\v\f\r':
                pos += 1
        acc = ''
        if pos < egptr and chr(peek(pos)) in '+-':
            acc += chr(peek(pos)); pos += 1
        nd = 0
        while pos < egptr and chr(peek(pos)).isdigit() and chr(peek(pos)).isascii():
            acc += chr(peek(pos)); pos += 1; nd += 1
        ok = nd > 0
        v = int(acc) if ok else 0
        lo, hi = (-(1 << (bits - 1)), (1 << (bits - 1)) - 1) if signed else (0, (1 << bits) - 1)
        if ok and not signed and acc.startswith('-'):
            v = (1 << bits) + v if -v <= hi else hi; ok = ok and -int(acc[1:]) >= -hi
        if v < lo:
            v, ok = lo, False
        if v > hi:
            v, ok = hi, False
        eng.mem_write(st, a[1], int_cells(v & ((1 << bits) - 1), bits // 8))
        eng.mem_write(st, sb + 16, int_cells(pos, 8))
        eng.mem_write(st, ios + IOS_STATE, int_cells((0 if ok else 4) | (2 if pos >= egptr else 0), 4))
        return a[0]
    return f


EXTERNALS['_ZNSirsERi'] = _extract_int(32, True)
EXTERNALS['_ZNSirsERs'] = _extract_int(16, True)
EXTERNALS['_ZNSi10_M_extractIlEERSiRT_'] = _extract_int(64, True)
EXTERNALS['_ZNSi10_M_extractIxEERSiRT_'] = _extract_int(64, True)
EXTERNALS['_ZNSi10_M_extractImEERSiRT_'] = _extract_int(64, False)
EXTERNALS['_ZNSi10_M_extractIyEERSiRT_'] = _extract_int(64, False)
EXTERNALS['_ZNSi10_M_extractIjEERSiRT_'] = _extract_int(32, False)
EXTERNALS['_ZNSi10_M_extractItEERSiRT_'] = _extract_int(16, False)


@ext('_ZNSi3getEv')
def x_istream_get(eng, st, a):
    ios, sb, gptr, egptr = _istream_area(eng, st, a[0])
    state = cells_int(eng.mem_read(st, ios + IOS_STATE, 4))
    if state == 0 and gptr < egptr:
        c = _cell_expr(eng.mem_read(st, gptr, 1)[0])
        eng.mem_write(st, sb + 16, int_cells(gptr + 1, 8))
        return c if isinstance(c, int) else simp(z3.ZeroExt(24, c))
    eng.mem_write(st, ios + IOS_STATE, int_cells(state | 6, 4))       # eofbit | failbit
    return 0xffffffff


# ---- threads (single-threaded exploration: locks always succeed)
@ext('pthread_mutex_lock', 'pthread_mutex_unlock', 'pthread_mutex_init', 'pthread_mutex_destroy')
def x_mutex(eng, st, a):
    return 0


# ---- environment
@ext('getenv')
def x_getenv(eng, st, a):
    name = eng.cstr_bytes(st, a[0])
    env = st.ext.get('env') or {}
    return env.get(name, 0)


@ext('__xpg_basename', 'basename')
def x_basename(eng, st, a):
    cells = eng.read_cstr(st, a[0])
    last = -1
    for i, c in enumerate(cells):
        e = _cell_expr(c)
        if isinstance(e, int):
            if e == 47:
                last = i
        elif eng.decide(st, e == 47):
            last = i
    return a[0] + last + 1


@ext('strstr')
def x_strstr(eng, st, a):
    h = eng.read_cstr(st, a[0]); n = eng.read_cstr(st, a[1])
    if any(not isinstance(c, int) for c in h + n):
        raise EngineError('strstr on symbolic bytes')
    i = bytes(h).find(bytes(n))
    return 0 if i < 0 else a[0] + i


# ---- __dynamic_cast over the typeinfo objects of the module
def _ti_bases(eng, st, ti):
    """[(base typeinfo, offset)] read from the type_info object in memory"""
    irm = eng.irm
    vp = cells_int(eng.mem_read(st, ti, 8))
    si = irm.gaddr.get('_ZTVN10__cxxabiv120__si_class_type_infoE'); vmi = irm.gaddr.get('_ZTVN10__cxxabiv121__vmi_class_type_infoE')
    if si is not None and vp == si + 16:
        return [(cells_int(eng.mem_read(st, ti + 16, 8)), 0)]
    if vmi is not None and vp == vmi + 16:
        n = cells_int(eng.mem_read(st, ti + 20, 4)); out = []
        for i in range(n):
            b = cells_int(eng.mem_read(st, ti + 24 + 16 * i, 8)); fl = cells_int(eng.mem_read(st, ti + 32 + 16 * i, 8))
            if fl & 1:
                raise EngineError('dynamic_cast through a virtual base')
            out.append((b, sext_const(fl, 64) >> 8))
        return out
    return []


@ext('__dynamic_cast')
def x_dynamic_cast(eng, st, a):
    src, dst_ti = a[0], a[2]
    if src == 0:
        return 0
    vptr = cells_int(eng.mem_read(st, src, 8))
    top = sext_const(cells_int(eng.mem_read(st, vptr - 16, 8)), 64)
    whole = src + top
    dyn_ti = cells_int(eng.mem_read(st, vptr - 8, 8))

    def search(ti, off):
        if ti == dst_ti:
            return [off]
        res = []
        for (b, o) in _ti_bases(eng, st, ti):
            res += search(b, off + o)
        return res
    hits = search(dyn_ti, 0)
    return whole + hits[0] if len(hits) >= 1 else 0


# ---- VTTs / vtables of the stream classes (external constants): only the virtual-base offset slot matters
STREAM_VBASE = {'NSt7__cxx1119basic_ostringstreamIcSt11char_traitsIcESaIcEEE': 112, 'NSt7__cxx1119basic_istringstreamIcSt11char_traitsIcESaIcEEE': 120,
                'NSt7__cxx1118basic_stringstreamIcSt11char_traitsIcESaIcEEE': 128, 'St14basic_ofstreamIcSt11char_traitsIcEE': 248,
                'St14basic_ifstreamIcSt11char_traitsIcEE': 256, 'Si': 16}


def _prepare_streams(irm):
    st = irm.base_state
    for cls, off in STREAM_VBASE.items():
        vt = st.alloc(96, 'global', 'vtable (model) ' + cls, fill=0)
        vt.data[8:16] = int_cells(off, 8)            # vptr = vt+32: vptr[-3] = vbase offset
        irm.gaddr['model_vtable_' + cls] = vt.base + 32
        vtt = irm.gobj.get('_ZTT' + cls)
        if vtt is not None:
            for i in range(min(8, vtt.size // 8)):
                vtt.data[8 * i:8 * i + 8] = int_cells(vt.base + 32, 8)
        real = irm.gobj.get('_ZTV' + cls)
        if real is not None and real.size >= 32:
            real.data[0:8] = int_cells(off, 8)       # vptr = real+24


MODULE_HOOKS.append(_prepare_streams)


@ext('vs_setenv')
def x_vs_setenv(eng, st, a):
    name = eng.cstr_bytes(st, a[0])
    cells = eng.read_cstr(st, a[1]) + [0]
    o = st.alloc(len(cells), 'global', 'environment ' + name.decode('latin1'), fill=0)
    o.data[:] = cells
    env = dict(st.ext.get('env') or {}); env[name] = o.base
    st.ext['env'] = env


# ---- std::ctype<char> facet of the classic locale
def _prepare_ctype(irm):
    st = irm.base_state
    names = ['model_ctype_dtor', 'model_ctype_dtor', 'model_ctype_toupper_c', 'model_ctype_toupper_r', 'model_ctype_tolower_c', 'model_ctype_tolower_r',
             'model_ctype_widen_c', 'model_ctype_widen_r', 'model_ctype_narrow_c', 'model_ctype_narrow_r']
    a = max(irm.addr_fn) + 16
    for n in names:
        if n not in irm.fn_addr:
            irm.fn_addr[n] = a; irm.addr_fn[a] = n; a += 16
    vt = st.alloc(16 + 8 * len(names), 'global', 'vtable (model) std::ctype<char>', fill=0)
    for i, n in enumerate(names):
        vt.data[16 + 8 * i:24 + 8 * i] = int_cells(irm.fn_addr[n], 8)
    obj = st.alloc(576, 'global', 'std::ctype<char> (model, classic locale)', fill=0)
    obj.data[0:8] = int_cells(vt.base + 16, 8)
    obj.data[56] = 1
    for c in range(256):
        obj.data[57 + c] = c; obj.data[313 + c] = c
    obj.data[569] = 1
    vt.data[8:16] = int_cells(irm.gaddr.get('_ZTISt5ctypeIcE', 0), 8)
    # classification table of the "C" locale (glibc bit values as used by libstdc++'s ctype_base on linux)
    tab = st.alloc(512, 'global', 'std::ctype<char>::classic_table() (model)', fill=0)
    for c in range(128):
        ch = chr(c); m = 0
        if ch.isupper(): m |= 0x100
        if ch.islower(): m |= 0x200
        if ch.isalpha(): m |= 0x400
        if ch.isdigit(): m |= 0x800
        if ch in '0123456789abcdefABCDEF': m |= 0x1000
        if ch in ' \t\n\v\f\r': m |= 0x2000
        if 32 <= c < 127: m |= 0x4000
        if 32 < c < 127: m |= 0x8000
        if ch in ' \t': m |= 0x1
        if c < 32 or c == 127: m |= 0x2
        if 32 < c < 127 and not ch.isalnum(): m |= 0x4
        if ch.isalnum(): m |= 0x8
        tab.data[2 * c:2 * c + 2] = int_cells(m, 2)
    tab.ro = True
    obj.data[48:56] = int_cells(tab.base, 8)
    irm.gaddr['model_ctype_object'] = obj.base


MODULE_HOOKS.append(_prepare_ctype)
MODULE_HOOKS.append(_prepare_locale)


@ext('_ZSt9use_facetISt5ctypeIcEERKT_RKSt6locale')
def x_use_facet_ctype(eng, st, a):
    return eng.irm.gaddr['model_ctype_object']


def _case_char(eng, st, c, upper):
    if type(c) is int:
        c &= 255
        return (c - 32 if 97 <= c <= 122 else c) if upper else (c + 32 if 65 <= c <= 90 else c)
    e = simp(z3.Extract(7, 0, c)) if c.size() > 8 else c
    if upper:
        return simp(z3.If(z3.And(z3.UGE(e, 97), z3.ULE(e, 122)), e - 32, e))
    return simp(z3.If(z3.And(z3.UGE(e, 65), z3.ULE(e, 90)), e + 32, e))


@ext('model_ctype_toupper_c')
def x_ct_toupper(eng, st, a):
    return _case_char(eng, st, a[1], True)


@ext('model_ctype_tolower_c')
def x_ct_tolower(eng, st, a):
    return _case_char(eng, st, a[1], False)


def _case_range(upper):
    def f(eng, st, a):
        lo, hi = a[1], a[2]
        for p in range(lo, hi):
            c = eng.mem_read(st, p, 1)[0]
            v = _case_char(eng, st, c if isinstance(c, int) else _cell_expr(c), upper)
            eng.mem_write(st, p, [v] if type(v) is int else [(v, 0)])
        return hi
    return f


EXTERNALS['model_ctype_toupper_r'] = _case_range(True)
EXTERNALS['model_ctype_tolower_r'] = _case_range(False)


@ext('model_ctype_widen_c', 'model_ctype_narrow_c')
def x_ct_widen(eng, st, a):
    return a[1]


@ext('model_ctype_dtor', '_ZNKSt5ctypeIcE13_M_widen_initEv')
def x_ct_noop(eng, st, a):
    return 0


# ---- misc libc / clock
def _lower(eng, st, c):
    e = _cell_expr(c)
    if isinstance(e, int):
        return e + 32 if 65 <= e <= 90 else e
    return simp(z3.If(z3.And(z3.UGE(e, 65), z3.ULE(e, 90)), e + 32, e))


@ext('strcasecmp')
def x_strcasecmp(eng, st, a):
    from irsym import _cmp_cells
    xs = [_lower(eng, st, c) for c in eng.read_cstr(st, a[0]) + [0]]
    ys = [_lower(eng, st, c) for c in eng.read_cstr(st, a[1]) + [0]]
    xs = [c if isinstance(c, int) else (c, 0) for c in xs]; ys = [c if isinstance(c, int) else (c, 0) for c in ys]
    return _cmp_cells(eng, st, xs, ys) & 0xffffffff


@ext('strncasecmp')
def x_strncasecmp(eng, st, a):
    from irsym import _cmp_cells
    n = _len(eng, st, a[2], 'strncasecmp length')
    xs = [_lower(eng, st, c) for c in (eng.read_cstr(st, a[0]) + [0])[:n]]
    ys = [_lower(eng, st, c) for c in (eng.read_cstr(st, a[1]) + [0])[:n]]
    xs = [c if isinstance(c, int) else (c, 0) for c in xs]; ys = [c if isinstance(c, int) else (c, 0) for c in ys]
    if not xs and not ys:
        return 0
    return _cmp_cells(eng, st, xs, ys) & 0xffffffff


@ext('_ZNSt6chrono3_V212system_clock3nowEv')
def x_clock_now(eng, st, a):
    t = st.ext.get('clock', 1700000000 * 10**9)
    st.ext['clock'] = t + 1000
    return t


@ext('vs_setclock')
def x_vs_setclock(eng, st, a):
    if type(a[0]) is not int:
        raise EngineError('vs_setclock: symbolic instant')
    st.ext['clock'] = a[0]


@ext('time')
def x_time(eng, st, a):
    t = st.ext.get('clock', 1700000000 * 10**9) // 10**9
    if a and a[0]:
        eng.mem_write(st, a[0], int_cells(t, 8))
    return t


# ---- calendar: localtime()/strftime() by their libc contract, time zone UTC (harnesses set TZ=UTC0 for the native replay).
# The broken-down time and the text are computed by the C library of the host for the concrete time stamp
# (python's time.gmtime/time.strftime call gmtime_r/strftime); symbolic time stamps are outside the model.
@ext('localtime', 'gmtime')
def x_localtime(eng, st, a):
    import time as _t
    t = cells_int(eng.mem_read(st, a[0], 8))
    if not isinstance(t, int):
        raise EngineError('localtime(): symbolic time stamp')
    t = sext_const(t, 64)
    g = _t.gmtime(t)
    o = st.ext.get('tm_obj')
    if o is None:
        o = st.alloc(56, 'global', 'localtime::tm', fill=0).base; st.ext['tm_obj'] = o
    fields = [g.tm_sec, g.tm_min, g.tm_hour, g.tm_mday, g.tm_mon - 1, g.tm_year - 1900, (g.tm_wday + 1) % 7, g.tm_yday - 1, 0]
    for i, v in enumerate(fields):
        eng.mem_write(st, o + 4 * i, int_cells(v & 0xffffffff, 4))
    eng.mem_write(st, o + 40, int_cells(0, 8)); eng.mem_write(st, o + 48, int_cells(0, 8))
    return o


@ext('strftime')
def x_strftime(eng, st, a):
    import time as _t
    maxsize = _len(eng, st, a[1], 'strftime max')
    fmt = eng.cstr_bytes(st, a[2]).decode('latin-1')
    f = []
    for i in range(9):
        v = cells_int(eng.mem_read(st, a[3] + 4 * i, 4))
        if not isinstance(v, int):
            raise EngineError('strftime(): symbolic broken-down time')
        f.append(sext_const(v, 32))
    tup = (f[5] + 1900, f[4] + 1, f[3], f[2], f[1], f[0], (f[6] + 6) % 7, f[7] + 1, f[8])
    out = _t.strftime(fmt, tup).encode('latin-1') if fmt else b''
    if len(out) + 1 > maxsize:
        return 0
    eng.mem_write(st, a[0], list(out) + [0])
    return len(out)


@ext('setenv', 'tzset')
def x_setenv(eng, st, a):
    return 0


@ext('getpid')
def x_getpid(eng, st, a):
    return st.ext.get('pid', 4242)


@ext('vs_setpid')
def x_vs_setpid(eng, st, a):
    st.ext['pid'] = a[0] & 0xffffffff


@ext('pthread_self')
def x_pthread_self(eng, st, a):
    return st.ext.get('tid', 0x7f0000001000)


# ---- varargs (x86-64 SysV va_list, everything passed in the overflow area) and printf family
@ext_prefix('llvm.va_start')
def x_va_start(eng, st, a, name):
    fr = st.frames[-1]
    args = fr.va or []
    o = st.alloc(8 * max(len(args), 1), 'stack', 'varargs of ' + fr.fn.name, fill=0)
    fr.allocas.append(o.base)
    for i, v in enumerate(args):
        if isinstance(v, float):
            cells = list(struct.pack('<d', v))
        else:
            cells = int_cells(v, 8)
        o.data[8 * i:8 * i + 8] = cells
    eng.mem_write(st, a[0], int_cells(48, 4) + int_cells(304, 4) + int_cells(o.base, 8) + int_cells(0, 8))


@ext_prefix('llvm.va_end')
def x_va_end(eng, st, a, name):
    return 0


@ext_prefix('llvm.va_copy')
def x_va_copy(eng, st, a, name):
    eng.mem_write(st, a[0], eng.mem_read(st, a[1], 24))


class _PrintfFail(Exception):
    """the conversion fails at run time (EILSEQ): the printf function returns a negative value"""


def _format(eng, st, fmt_addr, nextarg):
    """printf-style formatting; nextarg() -> next 8-byte argument value.  Returns list of cells"""
    fmt = eng.read_cstr(st, fmt_addr)
    if any(not isinstance(c, int) for c in fmt):
        raise EngineError('symbolic printf format string')
    fmt = bytes(fmt); out = []; i = 0
    while i < len(fmt):
        c = fmt[i]
        if c != 37:
            out.append(c); i += 1; continue
        i += 1
        flags = b''
        while i < len(fmt) and fmt[i:i + 1] in b'-+ #0':
            flags += fmt[i:i + 1]; i += 1
        width = b''
        while i < len(fmt) and fmt[i:i + 1].isdigit():
            width += fmt[i:i + 1]; i += 1
        if fmt[i:i + 1] == b'*':
            width = str(sext_const(nextarg() & 0xffffffff, 32)).encode(); i += 1
        prec = None
        if fmt[i:i + 1] == b'.':
            i += 1; prec = b''
            while i < len(fmt) and fmt[i:i + 1].isdigit():
                prec += fmt[i:i + 1]; i += 1
            if prec == b'' and fmt[i:i + 1] == b'*':
                pv = sext_const(nextarg() & 0xffffffff, 32); prec = str(pv).encode() if pv >= 0 else None; i += 1
        lng = 0
        while i < len(fmt) and fmt[i:i + 1] in b'lhzjt':
            lng += fmt[i:i + 1] in b'lzjt'; i += 1
        conv = fmt[i:i + 1]; i += 1
        if conv == b'%':
            piece = [37]
        elif conv in b'diuxXo':
            v = nextarg()
            if is_sym(v):
                st.ext['opaque_number_formatted'] = True; piece = list(b'<?>')
            else:
                bits = 64 if lng else 32
                v &= (1 << bits) - 1
                if conv in b'di':
                    v = sext_const(v, bits)
                piece = list((('%' + flags.decode() + (('.' + prec.decode()) if prec else '') + {'i': 'd', 'u': 'd'}.get(conv.decode(), conv.decode())) % v).encode())
        elif conv in b'cs' and lng:
            # wide character conversion: in the "C" locale a non-ASCII wide character cannot be converted, the call fails
            # (contract: negative return value, buffer content unspecified); ASCII-only wide strings are not modelled
            raise _PrintfFail()
        elif conv == b'c':
            v = nextarg(); piece = [v & 255] if type(v) is int else [(simp(z3.Extract(7, 0, v)), 0)]
        elif conv == b's':
            p = nextarg(); piece = list(b'(null)') if p == 0 else eng.read_cstr(st, p)
            if prec is not None and prec != b'':
                piece = piece[:int(prec)]
        elif conv == b'p':
            nextarg(); piece = list(b'0xPTR')
        elif conv in b'fgeGEF':
            v = nextarg()
            if isinstance(v, float) or type(v) is int:
                fv = v if isinstance(v, float) else struct.unpack('<d', struct.pack('<Q', v & 0xffffffffffffffff))[0]
                piece = list((('%' + flags.decode() + (('.' + prec.decode()) if prec is not None else '') + conv.decode()) % fv).encode())
            else:
                piece = list(b'<float>')
        else:
            raise EngineError('printf conversion %r' % conv)
        if width and len(piece) < int(width):
            pad = [48 if (b'0' in flags and conv in b'diuxXo' and b'-' not in flags) else 32] * (int(width) - len(piece))
            piece = piece + pad if b'-' in flags else pad + piece
        out += piece
    return out


def _va_reader(eng, st, ap):
    def nxt():
        area = cells_int(eng.mem_read(st, ap + 8, 8))
        v = cells_int(eng.mem_read(st, area, 8))
        eng.mem_write(st, ap + 8, int_cells(area + 8, 8))
        return v
    return nxt


def _list_reader(vals):
    it = iter(vals)

    def nxt():
        v = next(it, 0)
        if isinstance(v, float):
            return struct.unpack('<Q', struct.pack('<d', v))[0]
        return v
    return nxt


def _emit(eng, st, buf, size, cells):
    if size:
        n = min(len(cells), size - 1)
        eng.mem_write(st, buf, cells[:n] + [0])
    return len(cells)


@ext('vsnprintf')
def x_vsnprintf(eng, st, a):
    size = _len(eng, st, a[1], 'vsnprintf size')
    try:
        return _emit(eng, st, a[0], size, _format(eng, st, a[2], _va_reader(eng, st, a[3])))
    except _PrintfFail:
        junk = []
        for i in range(min(size, 64)):
            e = eng.fresh(st, '__unspecified', 8); junk.append(e if type(e) is int else (e, 0))
        eng.mem_write(st, a[0], junk)
        return 0xffffffff


@ext('snprintf')
def x_snprintf(eng, st, a):
    size = _len(eng, st, a[1], 'snprintf size')
    return _emit(eng, st, a[0], size, _format(eng, st, a[2], _list_reader(a[3:])))


@ext('sprintf')
def x_sprintf(eng, st, a):
    return _emit(eng, st, a[0], 1 << 30, _format(eng, st, a[1], _list_reader(a[2:])))


@ext('vasprintf')
def x_vasprintf(eng, st, a):
    cells = _format(eng, st, a[1], _va_reader(eng, st, a[2]))
    o = st.alloc(len(cells) + 1, 'heap:malloc', 'vasprintf', fill=0)
    o.data[:len(cells)] = cells
    eng.mem_write(st, a[0], int_cells(o.base, 8))
    return len(cells)
