"""irsym: path-wise symbolic executor for LLVM-14 textual IR (typed pointers), z3 back end.

Values: python int (concrete integers and pointers), float, z3 BitVecRef (symbolic iN, N>1),
z3 BoolRef (symbolic i1), tuple (first-class aggregates).
Memory: objects with concrete base addresses and byte cells (int | (expr, byteindex)).
Control: every branch on a symbolic condition is decided by the solver; both feasible sides are
explored (DFS).  Every memory access is checked against its object (bounds, lifetime, allocator kind).
"""
import sys, os, re, struct, time, bisect, collections
import z3
sys.path.insert(0, os.path.dirname(os.path.abspath(__file__)))
import ll2c
from ll2c import TInt, TFP, TVoid, TPtr, TArr, TStruct, TFunc, TOther, Parser

M64 = (1 << 64) - 1


class PathEnd(Exception):
    def __init__(self, kind, info=None):
        self.kind = kind; self.info = info


class EngineError(Exception):
    """the executor cannot continue (unsupported construct, unknown external): the run is inconclusive"""


def is_sym(v):
    return isinstance(v, z3.ExprRef)


def bvv(v, w):
    return v if is_sym(v) else z3.BitVecVal(v, w)


def simp(e):
    """simplify; concrete results become python ints / bools"""
    e = z3.simplify(e)
    if z3.is_bv_value(e):
        return e.as_long()
    if z3.is_true(e):
        return 1
    if z3.is_false(e):
        return 0
    return e


def to_bool(v):
    """i1 value -> z3 Bool or python int"""
    if isinstance(v, int):
        return v & 1
    if z3.is_bool(v):
        return v
    return simp(z3.Extract(0, 0, v) == 1)


def bool_to_bv(v, w):
    if isinstance(v, int):
        return v & 1
    if z3.is_bool(v):
        return z3.If(v, z3.BitVecVal(1, w), z3.BitVecVal(0, w))
    return v


def sext_const(v, w):
    return v - (1 << w) if v >> (w - 1) else v


# --------------------------------------------------------------------------------------------
# memory
# --------------------------------------------------------------------------------------------
class Obj:
    __slots__ = ('base', 'size', 'data', 'kind', 'alive', 'name', 'ro')

    def __init__(self, base, size, kind, name='', fill=0):
        self.base = base; self.size = size; self.kind = kind; self.alive = True; self.name = name; self.ro = False
        self.data = [fill] * size

    def clone(self):
        o = Obj.__new__(Obj)
        o.base = self.base; o.size = self.size; o.kind = self.kind; o.alive = self.alive; o.name = self.name; o.ro = self.ro
        o.data = list(self.data)
        return o


class Frame:
    __slots__ = ('fn', 'loc', 'block', 'prev', 'ip', 'code', 'allocas', 'dest', 'invoke', 'va')

    def __init__(self, fn):
        self.fn = fn; self.loc = {}; self.block = None; self.prev = None; self.ip = 0; self.code = None
        self.allocas = []; self.dest = None; self.invoke = None; self.va = None

    def clone(self):
        f = Frame.__new__(Frame)
        f.fn = self.fn; f.loc = dict(self.loc); f.block = self.block; f.prev = self.prev; f.ip = self.ip; f.code = self.code
        f.allocas = list(self.allocas); f.dest = self.dest; f.invoke = self.invoke; f.va = self.va
        return f


class State:
    def __init__(self):
        self.frames = []
        self.mem = {}            # base -> Obj
        self.bases = []          # sorted bases
        self.owned = set()
        self.next_addr = 0x10000000
        self.pc = []             # path condition (z3 Bool list)
        self.exc = None          # (obj, typeinfo) being thrown
        self.caught = []         # stack of caught exceptions
        self.steps = 0
        self.trace = []          # harness notes
        self.syms = []           # (name, expr) symbolic inputs created on this path
        self.ext = {}            # per-path state of environment models (copied on fork)
        self.choices = []

    def fork(self):
        s = State.__new__(State)
        s.frames = [f.clone() for f in self.frames]
        s.mem = dict(self.mem); s.bases = list(self.bases); s.owned = set(); self.owned = set()
        s.next_addr = self.next_addr; s.pc = list(self.pc); s.exc = self.exc; s.caught = list(self.caught)
        s.steps = self.steps; s.trace = list(self.trace); s.syms = list(self.syms)
        s.ext = {k: (v.copy() if hasattr(v, 'copy') else v) for k, v in self.ext.items()}
        s.choices = list(self.choices)
        return s

    # ---- objects
    def alloc(self, size, kind, name='', fill=0, align=16):
        a = (self.next_addr + align - 1) // align * align
        self.next_addr = a + max(size, 1) + 32      # red zone between objects
        o = Obj(a, size, kind, name, fill)
        self.mem[a] = o; self.bases.append(a); self.owned.add(a)
        return o

    def find(self, addr):
        i = bisect.bisect_right(self.bases, addr) - 1
        if i < 0:
            return None
        o = self.mem[self.bases[i]]
        if addr <= o.base + o.size:     # one-past-the-end belongs to the object (for pointer arithmetic)
            return o
        return None

    def wobj(self, o):
        if o.base not in self.owned:
            o = o.clone(); self.mem[o.base] = o; self.owned.add(o.base)
        return o


class Violation:
    def __init__(self, kind, msg, model, where, trace, choices):
        self.kind = kind; self.msg = msg; self.model = model; self.where = where; self.trace = trace; self.choices = choices

    def __repr__(self):
        return 'Violation(%s: %s @%s model=%s)' % (self.kind, self.msg, self.where, self.model)


# --------------------------------------------------------------------------------------------
# module loading: layout, constants
# --------------------------------------------------------------------------------------------
class IRModule:
    def __init__(self, text):
        self.m = ll2c.parse_module(text)
        m = self.m
        self.sizeof = m.sizeof
        self.fn_addr = {}; self.addr_fn = {}
        a = 0x1000
        for n in list(m.funcs) + [d for d in m.decls if d not in m.funcs]:
            self.fn_addr[n] = a; self.addr_fn[a] = n; a += 16
        self.gaddr = {}
        self.base_state = State()
        st = self.base_state
        self.gobj = {}
        for n, g in m.globals.items():
            if n in ('llvm.global_ctors', 'llvm.used', 'llvm.compiler.used', 'llvm.global_dtors'):
                continue
            try:
                size = m.sizeof(g['ty'])
            except NotImplementedError:
                size = 64
            if g['ext']:
                size = max(size, 64)
            o = st.alloc(size, 'tls' if g.get('tls') else 'global', n)
            self.gaddr[n] = o.base; self.gobj[n] = o
        for n, g in m.globals.items():
            if n not in self.gobj or g['ext'] or not g['init_text']:
                continue
            p = Parser(g['init_text'], m)
            v = self.const(p, g['ty'])
            cells = self.encode(v, g['ty'])
            o = self.gobj[n]
            o.data[:len(cells)] = cells
            o.ro = g['const']
        self.ctors = []
        if 'llvm.global_ctors' in m.globals:
            self.ctors = [c.strip('"') for c in re.findall(r'void \(\)\* @("[^"]+"|[-A-Za-z$._0-9]+)', m.globals['llvm.global_ctors']['init_text'] or '')]
        self.decoded = {}
        # typeinfo inheritance (from the initialisers of _ZTI objects)
        self.ti_bases = {}
        for n, g in m.globals.items():
            if n.startswith('_ZTI') and g['init_text']:
                bs = [b for b in re.findall(r'@(_ZTI[A-Za-z0-9_]+)', g['init_text']) if b != n]
                self.ti_bases[n] = bs
        self.sizeof = m.sizeof
        self._tid = {}
        for n in list(STD_EXC_BASE) + ['_ZTISt9exception']:
            for nm in (n, '_ZTV' + n[4:]):
                if nm not in self.gaddr:
                    o = st.alloc(64, 'global', nm); self.gaddr[nm] = o.base; self.gobj[nm] = o
            # vtable of the library class: {offset-to-top, typeinfo, D1, D0, what}
            cls = n[4:]
            vt = self.gobj['_ZTV' + cls]
            if not any(vt.data[:40]):
                slots = [0, self.gaddr[n]]
                for fnm in ('_ZN%sD1Ev' % cls, '_ZN%sD0Ev' % cls, '_ZNK%s4whatEv' % cls):
                    if fnm not in self.fn_addr:
                        self.fn_addr[fnm] = a; self.addr_fn[a] = fnm; a += 16
                    slots.append(self.fn_addr[fnm])
                for i, v in enumerate(slots):
                    vt.data[8 * i:8 * i + 8] = int_cells(v, 8)

    def sym_addr(self, nm):
        m = self.m
        nm = m.aliases.get(nm, nm)
        if nm in self.gaddr:
            return self.gaddr[nm]
        if nm in self.fn_addr:
            return self.fn_addr[nm]
        raise EngineError('unknown symbol @' + nm)

    # ---- offsets
    def field_off(self, st, k):
        m = self.m
        off = 0
        for i, e in enumerate(st.els):
            al = 1 if st.packed else m.alignof(e)
            off = (off + al - 1) // al * al
            if i == k:
                return off
            off += m.sizeof(e)
        raise EngineError('field index')

    # ---- constants -> python values
    def const(self, p, t):
        m = self.m
        p.ws()
        if p.peek('@'):
            return self.sym_addr(p.name('@'))
        if isinstance(t, TInt):
            mm = p.rx(r'-?\d+\b')
            if mm:
                return int(mm.group(0)) & ((1 << t.n) - 1)
            if p.rx(r'true\b'):
                return 1
            if p.rx(r'false\b'):
                return 0
        if isinstance(t, TFP):
            mm = p.rx(r'0x[KLMHR]?[0-9A-Fa-f]+')
            if mm:
                h = mm.group(0)
                if h[2] in 'KLMHR':
                    raise EngineError('fp80 constant')
                return struct.unpack('<d', struct.pack('<Q', int(h, 16)))[0]
            mm = p.rx(r'-?\d+\.\d+(e[-+]?\d+)?')
            if mm:
                return float(mm.group(0))
        if p.rx(r'null\b'):
            return 0
        if p.rx(r'(undef|poison)\b') or p.rx(r'zeroinitializer\b'):
            return self.zero(t)
        if p.peek('c"'):
            p.i += 2; j = p.t.index('"', p.i); raw = p.t[p.i:j]; p.i = j + 1
            bs = []; k = 0
            while k < len(raw):
                if raw[k] == '\\':
                    if raw[k + 1] == '\\':
                        bs.append(92); k += 2; continue
                    bs.append(int(raw[k + 1:k + 3], 16)); k += 3
                else:
                    bs.append(ord(raw[k])); k += 1
            return tuple(bs)
        if p.peek('{') or p.peek('<{'):
            packed = p.eat('<{') or not p.eat('{')
            close = '}>' if packed else '}'
            els = []
            while not p.eat(close):
                et = p.type(); p.attrs(); els.append(self.const(p, et)); p.eat(',')
            return tuple(els)
        if p.peek('['):
            p.expect('[')
            els = []
            while not p.eat(']'):
                et = p.type(); p.attrs(); els.append(self.const(p, et)); p.eat(',')
            return tuple(els)
        w = p.peekword()
        if w:
            return self.constexpr(p, t)
        raise EngineError('constant? %r' % p.t[p.i:p.i + 60])

    def zero(self, t):
        if isinstance(t, (TInt, TPtr)):
            return 0
        if isinstance(t, TFP):
            return 0.0
        if isinstance(t, TArr):
            z = self.zero(t.el)
            return tuple(z for _ in range(t.n))
        if isinstance(t, TStruct):
            return tuple(self.zero(e) for e in t.els)
        raise EngineError('zero of ' + t.key())

    def typed_const(self, p):
        t = p.type(); p.attrs()
        return t, self.const(p, t)

    def constexpr(self, p, t):
        op = p.word()
        if op == 'getelementptr':
            p.eat('inbounds'); p.expect('(')
            bt = p.type(); p.expect(',')
            _, base = self.typed_const(p)
            idx = []
            while p.eat(','):
                p.eat('inrange'); idx.append(self.typed_const(p))
            p.expect(')')
            return (base + self.gep_const(bt, idx)) & M64
        if op in ('bitcast', 'inttoptr', 'ptrtoint', 'addrspacecast'):
            p.expect('('); _, v = self.typed_const(p); p.expect('to'); to = p.type(); p.expect(')')
            if isinstance(to, TInt):
                v &= (1 << to.n) - 1
            return v
        if op in ('trunc', 'zext', 'sext'):
            p.expect('('); ft, v = self.typed_const(p); p.expect('to'); to = p.type(); p.expect(')')
            if op == 'sext':
                v = sext_const(v, ft.n)
            return v & ((1 << to.n) - 1)
        if op in ('add', 'sub', 'mul', 'and', 'or', 'xor', 'shl', 'lshr'):
            while p.peekword() in ('nsw', 'nuw', 'exact'):
                p.word()
            p.expect('('); ta, a = self.typed_const(p); p.expect(','); _, b = self.typed_const(p); p.expect(')')
            n = ta.n if isinstance(ta, TInt) else 64
            r = {'add': a + b, 'sub': a - b, 'mul': a * b, 'and': a & b, 'or': a | b, 'xor': a ^ b, 'shl': a << (b % n), 'lshr': a >> (b % n)}[op]
            return r & ((1 << n) - 1)
        if op == 'icmp':
            pred = p.word(); p.expect('('); ta, a = self.typed_const(p); p.expect(','); _, b = self.typed_const(p); p.expect(')')
            return int({'eq': a == b, 'ne': a != b, 'ult': a < b, 'ule': a <= b, 'ugt': a > b, 'uge': a >= b}[pred])
        if op == 'select':
            p.expect('('); _, c = self.typed_const(p); p.expect(','); _, a = self.typed_const(p); p.expect(','); _, b = self.typed_const(p); p.expect(')')
            return a if c else b
        raise EngineError('constexpr ' + op)

    def gep_const(self, bt, idx):
        off = sext_const(idx[0][1], idx[0][0].n) * self.sizeof(bt)
        cur = bt
        for (it, iv) in idx[1:]:
            if isinstance(cur, TStruct):
                off += self.field_off(cur, iv); cur = cur.els[iv]
            elif isinstance(cur, TArr):
                off += sext_const(iv, it.n) * self.sizeof(cur.el); cur = cur.el
            else:
                raise EngineError('gep into ' + cur.key())
        return off

    # ---- value -> byte cells
    def encode(self, v, t):
        m = self.m
        if isinstance(t, TInt):
            n = max(1, (t.n + 7) // 8)
            if t.n > 64 and t.n != 128:
                n = m.sizeof(t)
            return int_cells(v, n)
        if isinstance(t, TPtr):
            return int_cells(v, 8)
        if isinstance(t, TFP):
            if is_sym(v):
                raise EngineError('symbolic floating point value')
            if t.k == 'double':
                return list(struct.pack('<d', v))
            if t.k == 'float':
                return list(struct.pack('<f', v))
            raise EngineError('fp type ' + t.k)
        if isinstance(t, TArr):
            out = []
            for i in range(t.n):
                out += self.encode(v[i], t.el)
            return out
        if isinstance(t, TStruct):
            out = []
            for i, e in enumerate(t.els):
                off = self.field_off(t, i)
                out += [0] * (off - len(out))
                out += self.encode(v[i], e)
            out += [0] * (m.sizeof(t) - len(out))
            return out
        raise EngineError('encode ' + t.key())

    def decode(self, cells, t):
        m = self.m
        if isinstance(t, TInt):
            v = cells_int(cells)
            if t.n % 8:
                if is_sym(v):
                    v = simp(z3.Extract(t.n - 1, 0, v)) if t.n > 1 else to_bool(v)
                else:
                    v &= (1 << t.n) - 1
            return v
        if isinstance(t, TPtr):
            return cells_int(cells)
        if isinstance(t, TFP):
            v = cells_int(cells)
            if is_sym(v):
                raise EngineError('symbolic floating point load')
            if t.k == 'double':
                return struct.unpack('<d', struct.pack('<Q', v))[0]
            if t.k == 'float':
                return struct.unpack('<f', struct.pack('<I', v))[0]
            raise EngineError('fp type ' + t.k)
        if isinstance(t, TArr):
            s = m.sizeof(t.el)
            return tuple(self.decode(cells[i * s:(i + 1) * s], t.el) for i in range(t.n))
        if isinstance(t, TStruct):
            out = []
            for i, e in enumerate(t.els):
                off = self.field_off(t, i)
                out.append(self.decode(cells[off:off + m.sizeof(e)], e))
            return tuple(out)
        raise EngineError('decode ' + t.key())

    def type_id(self, ti_addr):
        if ti_addr not in self._tid:
            self._tid[ti_addr] = len(self._tid) + 1
        return self._tid[ti_addr]


def int_cells(v, n):
    if isinstance(v, int):
        return [(v >> (8 * i)) & 255 for i in range(n)]
    if z3.is_bool(v):
        v = z3.If(v, z3.BitVecVal(1, 8 * n), z3.BitVecVal(0, 8 * n))
    if v.size() < 8 * n:
        v = z3.ZeroExt(8 * n - v.size(), v)
    if n == 1:
        return [(v, 0)]
    return [(v, i) for i in range(n)]


def cells_int(cells):
    """little-endian byte cells -> int or z3 expr"""
    v = 0; sym = False
    for i, c in enumerate(cells):
        if isinstance(c, int):
            v |= c << (8 * i)
        else:
            sym = True; break
    if not sym:
        return v
    n = len(cells)
    c0 = cells[0]
    if not isinstance(c0, int) and c0[1] == 0 and c0[0].size() == 8 * n:
        e = c0[0]; ok = True
        for i in range(1, n):
            c = cells[i]
            if isinstance(c, int) or c[0] is not e or c[1] != i:
                ok = False; break
        if ok:
            return e
    parts = []
    for c in reversed(cells):
        if isinstance(c, int):
            parts.append(z3.BitVecVal(c, 8))
        else:
            e, i = c
            parts.append(e if e.size() == 8 else z3.Extract(8 * i + 7, 8 * i, e))
    return simp(z3.Concat(*parts)) if len(parts) > 1 else simp(parts[0])


# --------------------------------------------------------------------------------------------
# instruction semantics helpers
# --------------------------------------------------------------------------------------------
def _sdiv(a, b, w):
    sa, sb = sext_const(a, w), sext_const(b, w)
    q = abs(sa) // abs(sb)
    return -q if (sa < 0) != (sb < 0) else q


def _srem(a, b, w):
    sa, sb = sext_const(a, w), sext_const(b, w)
    r = abs(sa) % abs(sb)
    return -r if sa < 0 else r


CONC_BIN = {
    'add': lambda a, b, w: a + b, 'sub': lambda a, b, w: a - b, 'mul': lambda a, b, w: a * b,
    'and': lambda a, b, w: a & b, 'or': lambda a, b, w: a | b, 'xor': lambda a, b, w: a ^ b,
    'shl': lambda a, b, w: a << b if b < w else 0, 'lshr': lambda a, b, w: a >> b if b < w else 0,
    'ashr': lambda a, b, w: sext_const(a, w) >> min(b, w - 1),
    'udiv': lambda a, b, w: a // b, 'urem': lambda a, b, w: a % b, 'sdiv': _sdiv, 'srem': _srem,
}
SYM_BIN = {
    'add': lambda a, b: a + b, 'sub': lambda a, b: a - b, 'mul': lambda a, b: a * b,
    'and': lambda a, b: a & b, 'or': lambda a, b: a | b, 'xor': lambda a, b: a ^ b,
    'shl': lambda a, b: a << b, 'lshr': lambda a, b: z3.LShR(a, b), 'ashr': lambda a, b: a >> b,
    'udiv': lambda a, b: z3.UDiv(a, b), 'urem': lambda a, b: z3.URem(a, b), 'sdiv': lambda a, b: a / b, 'srem': lambda a, b: z3.SRem(a, b),
}


def sym_binop(op, a, b, w):
    if w == 1:
        a = to_bool(a); b = to_bool(b)
        ba = z3.BoolVal(bool(a)) if isinstance(a, int) else a
        bb = z3.BoolVal(bool(b)) if isinstance(b, int) else b
        if op in ('and', 'mul'):
            return simp(z3.And(ba, bb))
        if op == 'or':
            return simp(z3.Or(ba, bb))
        if op in ('xor', 'add', 'sub'):
            return simp(z3.Xor(ba, bb))
        raise EngineError('i1 ' + op)
    return simp(SYM_BIN[op](bvv(a, w), bvv(b, w)))


CONC_ICMP = {
    'eq': lambda a, b, w: a == b, 'ne': lambda a, b, w: a != b,
    'ult': lambda a, b, w: a < b, 'ule': lambda a, b, w: a <= b, 'ugt': lambda a, b, w: a > b, 'uge': lambda a, b, w: a >= b,
    'slt': lambda a, b, w: sext_const(a, w) < sext_const(b, w), 'sle': lambda a, b, w: sext_const(a, w) <= sext_const(b, w),
    'sgt': lambda a, b, w: sext_const(a, w) > sext_const(b, w), 'sge': lambda a, b, w: sext_const(a, w) >= sext_const(b, w),
}
SYM_ICMP = {
    'eq': lambda a, b: a == b, 'ne': lambda a, b: a != b,
    'ult': z3.ULT, 'ule': z3.ULE, 'ugt': z3.UGT, 'uge': z3.UGE,
    'slt': lambda a, b: a < b, 'sle': lambda a, b: a <= b, 'sgt': lambda a, b: a > b, 'sge': lambda a, b: a >= b,
}


def sym_icmp(pred, a, b, w):
    if w == 1:
        a = bool_to_bv(to_bool(a), 1); b = bool_to_bv(to_bool(b), 1)
    return simp(SYM_ICMP[pred](bvv(a, w), bvv(b, w)))


STD_EXC_BASE = {
    '_ZTISt11logic_error': '_ZTISt9exception', '_ZTISt13runtime_error': '_ZTISt9exception', '_ZTISt9bad_alloc': '_ZTISt9exception',
    '_ZTISt8bad_cast': '_ZTISt9exception', '_ZTISt17bad_function_call': '_ZTISt9exception', '_ZTISt10bad_typeid': '_ZTISt9exception',
    '_ZTISt13bad_exception': '_ZTISt9exception', '_ZTISt16invalid_argument': '_ZTISt11logic_error', '_ZTISt12domain_error': '_ZTISt11logic_error',
    '_ZTISt12length_error': '_ZTISt11logic_error', '_ZTISt12out_of_range': '_ZTISt11logic_error', '_ZTISt11range_error': '_ZTISt13runtime_error',
    '_ZTISt14overflow_error': '_ZTISt13runtime_error', '_ZTISt15underflow_error': '_ZTISt13runtime_error',
    '_ZTISt20bad_array_new_length': '_ZTISt9bad_alloc', '_ZTISt12system_error': '_ZTISt13runtime_error',
    '_ZTINSt8ios_base7failureB5cxx11E': '_ZTISt12system_error', '_ZTISt20bad_optional_access': '_ZTISt9exception',
    '_ZTISt18bad_variant_access': '_ZTISt9exception', '_ZTISt11regex_error': '_ZTISt13runtime_error',
    '_ZTISt12bad_any_cast': '_ZTISt8bad_cast', '_ZTIN5boost16bad_lexical_castE': '_ZTISt8bad_cast',
}


class Throw(Exception):
    pass


class Block:
    __slots__ = ('name', 'phis', 'code', 'lpad')

    def __init__(self, name):
        self.name = name; self.phis = []; self.code = []; self.lpad = None


class Fn:
    def __init__(self, name):
        self.name = name; self.blocks = {}; self.entry = None; self.params = []; self.vararg = False; self.ret = None


# --------------------------------------------------------------------------------------------
# decoder: IR text -> closures
# --------------------------------------------------------------------------------------------
FMF = ('fast', 'nnan', 'ninf', 'nsz', 'arcp', 'contract', 'afn', 'reassoc')


class Decoder:
    def __init__(self, irm):
        self.irm = irm; self.m = irm.m

    def operand(self, p, t):
        """-> (0, const) | (1, localname)"""
        p.ws()
        if p.peek('%'):
            return (1, p.name('%'))
        return (0, self.irm.const(p, t))

    def typed(self, p):
        t = p.type(); p.attrs()
        return t, self.operand(p, t)

    def decode(self, name):
        m = self.m
        f = m.funcs[name]
        fn = Fn(name); fn.params = [nm for (t, nm, a) in f.params]; fn.ptypes = [t for (t, nm, a) in f.params]
        fn.pattrs = [a for (t, nm, a) in f.params]
        fn.vararg = f.vararg; fn.ret = f.ret
        blocks = collections.OrderedDict(); cur = None
        for ln in f.body:
            if not ln.strip():
                continue
            mm = re.match(r'^([-A-Za-z$._0-9]+|"[^"]+"):', ln)
            if mm:
                cur = mm.group(1).strip('"'); blocks[cur] = []; continue
            if cur is None:
                cur = str(len(f.params)); blocks[cur] = []
            blocks[cur].append(ln.strip())
        for b, ins in blocks.items():
            joined = []
            for ln in ins:
                if joined and (ln.startswith('to label') or ln.startswith('catch ') or ln.startswith('cleanup') or ln.startswith('filter ')
                               or re.match(r'^(i\d+ -?\d+, label|\])', ln)):
                    joined[-1] += ' ' + ln
                else:
                    joined.append(ln)
            blocks[b] = [ll2c.strip_meta(x) for x in joined]
        fn.entry = next(iter(blocks))
        for b, ins in blocks.items():
            blk = Block(b); fn.blocks[b] = blk
            for ln in ins:
                mm = re.match(r'^(%(?:"[^"]+"|[-A-Za-z$._0-9]+)) = (.*)$', ln)
                dest = None; body = ln
                if mm:
                    dest = Parser(mm.group(1), m).name('%'); body = mm.group(2)
                try:
                    if body.startswith('phi '):
                        p = Parser(body[4:], m); t = p.type(); inc = {}
                        while True:
                            p.expect('['); v = self.operand(p, t); p.expect(','); pl = p.name('%'); p.expect(']')
                            inc[pl] = v
                            if not p.eat(','):
                                break
                        blk.phis.append((dest, inc))
                    else:
                        c = self.instr(fn, blk, dest, body)
                        if c is not None:
                            c.src = ln
                            blk.code.append(c)
                except EngineError as e:
                    raise EngineError('%s in %s/%s: %s' % (e, name, b, ln))
                except (SyntaxError, NotImplementedError, KeyError, AttributeError, IndexError, TypeError) as e:
                    raise EngineError('decode %s/%s: %r: %s' % (name, b, e, ln))
        return fn

    # ---- one instruction
    def instr(self, fn, blk, d, ln):
        m = self.m; irm = self.irm
        p = Parser(ln, m)
        while p.peekword() in ('tail', 'musttail', 'notail'):
            p.word()
        op = p.word()
        if op in CONC_BIN:
            while p.peekword() in ('nsw', 'nuw', 'exact'):
                p.word()
            t = p.type(); oa = self.operand(p, t); p.expect(','); ob = self.operand(p, t)
            w = t.n; mask = (1 << w) - 1; cf = CONC_BIN[op]
            ka, va = oa; kb, vb = ob
            isdiv = op in ('udiv', 'urem', 'sdiv', 'srem')

            def f(eng, st, fr):
                loc = fr.loc
                a = loc[va] if ka else va
                b = loc[vb] if kb else vb
                if type(a) is int and type(b) is int:
                    if isdiv and b == 0:
                        eng.violation(st, 'div-by-zero', 'division by zero'); raise PathEnd('violation')
                    loc[d] = cf(a, b, w) & mask
                else:
                    if isdiv:
                        eng.check_nonzero(st, b, w)
                    loc[d] = sym_binop(op, a, b, w)
            return f
        if op == 'icmp':
            pred = p.word(); t = p.type(); oa = self.operand(p, t); p.expect(','); ob = self.operand(p, t)
            w = t.n if isinstance(t, TInt) else 64; cf = CONC_ICMP[pred]
            ka, va = oa; kb, vb = ob

            def f(eng, st, fr):
                loc = fr.loc
                a = loc[va] if ka else va
                b = loc[vb] if kb else vb
                if type(a) is int and type(b) is int:
                    loc[d] = 1 if cf(a, b, w) else 0
                else:
                    loc[d] = sym_icmp(pred, a, b, w)
            return f
        if op == 'br':
            if p.eat('label'):
                tgt = p.name('%')

                def f(eng, st, fr):
                    eng.goto(st, fr, tgt)
                return f
            t, oc = self.typed(p); p.expect(','); p.expect('label'); ta = p.name('%'); p.expect(','); p.expect('label'); tb = p.name('%')
            kc, vc = oc

            def f(eng, st, fr):
                c = fr.loc[vc] if kc else vc
                if type(c) is not int:
                    c = eng.decide(st, to_bool(c))
                eng.goto(st, fr, ta if c else tb)
            return f
        if op == 'load':
            at = p.eat('atomic'); p.eat('volatile')
            t = p.type(); p.expect(','); pt, op_ = self.typed(p)
            order = (re.search(r'\b(unordered|monotonic|acquire|release|acq_rel|seq_cst)\b', p.rest()) or [None])[0] if at else None
            n = m.sizeof(t); kp, vp = op_; dec = irm.decode
            simple = isinstance(t, (TInt, TPtr)) and (isinstance(t, TPtr) or t.n % 8 == 0)

            def f(eng, st, fr):
                a = fr.loc[vp] if kp else vp
                cells = eng.mem_read(st, a, n, order)
                fr.loc[d] = cells_int(cells) if simple else dec(cells, t)
            return f
        if op == 'store':
            at = p.eat('atomic'); p.eat('volatile')
            t, ov = self.typed(p); p.expect(','); pt, op_ = self.typed(p)
            order = (re.search(r'\b(unordered|monotonic|acquire|release|acq_rel|seq_cst)\b', p.rest()) or [None])[0] if at else None
            kv, vv = ov; kp, vp = op_; enc = irm.encode

            def f(eng, st, fr):
                loc = fr.loc
                v = loc[vv] if kv else vv
                a = loc[vp] if kp else vp
                eng.mem_write(st, a, enc(v, t), order)
            return f
        if op == 'getelementptr':
            p.eat('inbounds'); bt = p.type(); p.expect(','); _, ob = self.typed(p)
            idx = []
            while p.eat(','):
                idx.append(self.typed(p))
            # precompute: constant offset + list of (operand, width, scale)
            coff = 0; dyn = []
            cur = bt; first = True
            for (it, io) in idx:
                if first:
                    scale = m.sizeof(bt); first = False
                    if io[0] == 0:
                        coff += sext_const(io[1], it.n) * scale
                    else:
                        dyn.append((io[1], it.n, scale))
                    continue
                if isinstance(cur, TStruct):
                    if io[0] != 0:
                        raise EngineError('non-constant struct index')
                    coff += irm.field_off(cur, io[1]); cur = cur.els[io[1]]
                elif isinstance(cur, TArr):
                    scale = m.sizeof(cur.el)
                    if io[0] == 0:
                        coff += sext_const(io[1], it.n) * scale
                    else:
                        dyn.append((io[1], it.n, scale))
                    cur = cur.el
                else:
                    raise EngineError('gep into ' + cur.key())
            kb, vb = ob

            def f(eng, st, fr):
                loc = fr.loc
                a = loc[vb] if kb else vb
                if type(a) is int:
                    a += coff
                    for (nm, w, sc) in dyn:
                        i = loc[nm]
                        if type(i) is int:
                            a += sext_const(i, w) * sc
                        else:
                            a = eng.sym_gep(a, i, w, sc)
                    loc[d] = a & M64 if type(a) is int else a
                else:
                    a = a + z3.BitVecVal(coff & M64, 64)
                    for (nm, w, sc) in dyn:
                        a = eng.sym_gep(a, loc[nm], w, sc)
                    loc[d] = simp(a)
            return f
        if op in ('bitcast', 'addrspacecast', 'inttoptr', 'ptrtoint', 'trunc', 'zext', 'sext', 'fptoui', 'fptosi', 'uitofp', 'sitofp', 'fpext', 'fptrunc'):
            ft, ov = self.typed(p); p.expect('to'); to = p.type()
            kv, vv = ov
            fw = ft.n if isinstance(ft, TInt) else 64
            tw = to.n if isinstance(to, TInt) else 64
            tmask = (1 << tw) - 1

            def f(eng, st, fr):
                v = fr.loc[vv] if kv else vv
                fr.loc[d] = eng.cast(op, v, ft, to, fw, tw, tmask)
            return f
        if op == 'select':
            tc, oc = self.typed(p); p.expect(','); ta, oa = self.typed(p); p.expect(','); tb, ob = self.typed(p)
            kc, vc = oc; ka, va = oa; kb, vb = ob
            forkit = not isinstance(ta, TInt)
            w = ta.n if isinstance(ta, TInt) else 64

            def f(eng, st, fr):
                loc = fr.loc
                c = loc[vc] if kc else vc
                if type(c) is int:
                    loc[d] = (loc[va] if ka else va) if c else (loc[vb] if kb else vb)
                    return
                a = loc[va] if ka else va
                b = loc[vb] if kb else vb
                c = to_bool(c)
                if type(c) is int:
                    loc[d] = a if c else b
                elif forkit and not (is_sym(a) or is_sym(b)) and a != b or isinstance(a, (tuple, float)):
                    loc[d] = a if eng.decide(st, c) else b
                elif w == 1:
                    a = to_bool(a); b = to_bool(b)
                    loc[d] = simp(z3.If(c, z3.BoolVal(bool(a)) if isinstance(a, int) else a, z3.BoolVal(bool(b)) if isinstance(b, int) else b))
                else:
                    loc[d] = simp(z3.If(c, bvv(a, w), bvv(b, w)))
            return f
        if op in ('call', 'invoke'):
            return self.call(fn, p, d, op)
        if op == 'ret':
            t = p.type()
            if isinstance(t, TVoid):
                def f(eng, st, fr):
                    eng.do_ret(st, fr, None)
                return f
            kv, vv = self.operand(p, t)

            def f(eng, st, fr):
                eng.do_ret(st, fr, fr.loc[vv] if kv else vv)
            return f
        if op == 'alloca':
            p.eat('inalloca'); t = p.type(); cnt = None
            if p.eat(','):
                if not p.peek('align') and not p.peek('addrspace'):
                    cnt = self.typed(p)[1]
            size = m.sizeof(t)

            def f(eng, st, fr):
                n = size
                if cnt is not None:
                    c = fr.loc[cnt[1]] if cnt[0] else cnt[1]
                    if type(c) is not int:
                        c = eng.concretize(st, c, 'alloca count')
                    n = size * c
                o = st.alloc(n, 'stack', fr.fn.name + ':' + str(d), fill=0xCD)
                fr.allocas.append(o.base)
                fr.loc[d] = o.base
            return f
        if op == 'switch':
            t, ov = self.typed(p); p.expect(','); p.expect('label'); dflt = p.name('%'); p.expect('[')
            cases = []
            while not p.eat(']'):
                ct, cv = self.typed(p); p.expect(','); p.expect('label'); cases.append((cv[1], p.name('%')))
            kv, vv = ov; w = t.n
            table = dict(cases)

            def f(eng, st, fr):
                v = fr.loc[vv] if kv else vv
                if type(v) is int:
                    eng.goto(st, fr, table.get(v, dflt)); return
                for cval, lab in cases:
                    if eng.decide(st, simp(bvv(v, w) == cval) if w > 1 else (to_bool(v) if cval else z3.Not(to_bool(v)))):
                        eng.goto(st, fr, lab); return
                eng.goto(st, fr, dflt)
            return f
        if op == 'unreachable':
            def f(eng, st, fr):
                eng.violation(st, 'unreachable', 'IR unreachable executed in ' + fr.fn.name); raise PathEnd('violation')
            return f
        if op == 'extractvalue':
            t, ov = self.typed(p); path = []
            while p.eat(','):
                path.append(int(p.rx(r'\d+').group(0)))
            kv, vv = ov

            def f(eng, st, fr):
                v = fr.loc[vv] if kv else vv
                for k in path:
                    v = v[k]
                fr.loc[d] = v
            return f
        if op == 'insertvalue':
            t, oa = self.typed(p); p.expect(','); tv, ov = self.typed(p); path = []
            while p.eat(','):
                path.append(int(p.rx(r'\d+').group(0)))
            ka, va = oa; kv, vv = ov

            def ins(agg, path, v):
                if not path:
                    return v
                l = list(agg); l[path[0]] = ins(agg[path[0]], path[1:], v); return tuple(l)

            def f(eng, st, fr):
                a = fr.loc[va] if ka else va
                v = fr.loc[vv] if kv else vv
                fr.loc[d] = ins(a, path, v)
            return f
        if op == 'landingpad':
            t = p.type(); cleanup = False; clauses = []
            while not p.eof():
                if p.eat('cleanup'):
                    cleanup = True
                elif p.eat('catch'):
                    clauses.append(self.typed(p)[1][1])
                elif p.eat('filter'):
                    ft = p.type(); p.ws()
                    if p.rx(r'zeroinitializer\b') or p.rx(r'\[\s*\]'):
                        clauses.append(('filter', ()))
                    else:
                        raise EngineError('non-empty filter clause')
                else:
                    raise EngineError('landingpad: ' + p.rest())
            blk.lpad = (cleanup, clauses)

            def f(eng, st, fr):
                fr.loc[d] = st.lp
            return f
        if op == 'resume':
            t, ov = self.typed(p); kv, vv = ov

            def f(eng, st, fr):
                eng.do_resume(st, fr)
            return f
        if op == 'freeze':
            t, ov = self.typed(p); kv, vv = ov

            def f(eng, st, fr):
                fr.loc[d] = fr.loc[vv] if kv else vv
            return f
        if op == 'fence':
            return None
        if op in ('fadd', 'fsub', 'fmul', 'fdiv', 'frem'):
            while p.peekword() in FMF:
                p.word()
            t = p.type(); oa = self.operand(p, t); p.expect(','); ob = self.operand(p, t)
            ka, va = oa; kb, vb = ob
            isf32 = t.k == 'float'

            def f(eng, st, fr):
                a = fr.loc[va] if ka else va
                b = fr.loc[vb] if kb else vb
                try:
                    r = a + b if op == 'fadd' else a - b if op == 'fsub' else a * b if op == 'fmul' else a / b if op == 'fdiv' else __import__('math').fmod(a, b)
                except ZeroDivisionError:
                    r = float('inf') if a > 0 else float('-inf') if a < 0 else float('nan')
                if isf32:
                    r = struct.unpack('<f', struct.pack('<f', r))[0]
                fr.loc[d] = r
            return f
        if op == 'fneg':
            while p.peekword() in FMF:
                p.word()
            t = p.type(); ka, va = self.operand(p, t)

            def f(eng, st, fr):
                fr.loc[d] = -(fr.loc[va] if ka else va)
            return f
        if op == 'fcmp':
            while p.peekword() in FMF:
                p.word()
            pred = p.word(); t = p.type(); oa = self.operand(p, t); p.expect(','); ob = self.operand(p, t)
            ka, va = oa; kb, vb = ob

            def f(eng, st, fr):
                a = fr.loc[va] if ka else va
                b = fr.loc[vb] if kb else vb
                un = a != a or b != b
                base = pred[1:] if pred not in ('ord', 'uno', 'true', 'false') else pred
                r = {'eq': a == b, 'gt': a > b, 'ge': a >= b, 'lt': a < b, 'le': a <= b, 'ne': a != b, 'ord': not un, 'uno': un, 'true': True, 'false': False}[base]
                if pred[0] == 'u' and pred != 'uno':
                    r = r or un
                elif pred[0] == 'o' and pred != 'ord':
                    r = r and not un
                fr.loc[d] = int(bool(r))
            return f
        if op in ('cmpxchg', 'atomicrmw'):
            return self.atomic(p, d, op)
        if op == 'va_arg':
            raise EngineError('va_arg')
        raise EngineError('opcode ' + op)

    def atomic(self, p, d, op):
        m = self.m; irm = self.irm
        if op == 'cmpxchg':
            p.eat('weak'); p.eat('volatile')
            pt, op_ = self.typed(p); p.expect(','); tc, oc = self.typed(p); p.expect(','); tn, on = self.typed(p)
            n = m.sizeof(tc); w = tc.n if isinstance(tc, TInt) else 64

            def f(eng, st, fr):
                loc = fr.loc
                a = loc[op_[1]] if op_[0] else op_[1]
                c = loc[oc[1]] if oc[0] else oc[1]
                nv = loc[on[1]] if on[0] else on[1]
                old = cells_int(eng.mem_read(st, a, n, atomic='rmw'))
                if type(old) is int and type(c) is int:
                    eq = old == c
                else:
                    eq = eng.decide(st, simp(bvv(old, w) == bvv(c, w)))
                if eq:
                    eng.mem_write(st, a, int_cells(nv, n), atomic='rmw')
                else:
                    eng.mt_rmw_failed(st)
                loc[d] = (old, 1 if eq else 0)
            return f
        p.eat('volatile'); rop = p.word(); pt, op_ = self.typed(p); p.expect(','); tv, ov = self.typed(p)
        n = m.sizeof(tv); w = tv.n; mask = (1 << w) - 1
        bop = {'add': 'add', 'sub': 'sub', 'and': 'and', 'or': 'or', 'xor': 'xor'}.get(rop)

        def f(eng, st, fr):
            loc = fr.loc
            a = loc[op_[1]] if op_[0] else op_[1]
            v = loc[ov[1]] if ov[0] else ov[1]
            old = cells_int(eng.mem_read(st, a, n, atomic='rmw'))
            if rop == 'xchg':
                nv = v
            elif bop is None:
                raise EngineError('atomicrmw ' + rop)
            elif type(old) is int and type(v) is int:
                nv = CONC_BIN[bop](old, v, w) & mask
            else:
                nv = sym_binop(bop, old, v, w)
            eng.mem_write(st, a, int_cells(nv, n), atomic='rmw')
            loc[d] = old
        return f

    def call(self, fn, p, d, op):
        m = self.m
        while p.peekword() in ll2c.LINKAGE + FMF:
            p.word()
        p.attrs()
        rt = p.type()
        if isinstance(rt, TPtr) and isinstance(rt.to, TFunc):
            rt = rt.to.ret
        if isinstance(rt, TFunc):
            rt = rt.ret
        p.ws()
        cname = None; cval = None
        if p.peek('@'):
            cname = p.name('@'); cname = m.aliases.get(cname, cname)
        elif p.peek('%'):
            cval = (1, p.name('%'))
        elif p.peekword() == 'bitcast':
            cval = (0, self.irm.constexpr(p, TPtr(TInt(8))))
        else:
            raise EngineError('callee? ' + p.rest())
        p.expect('(')
        args = []
        while not p.eat(')'):
            t = p.type(); a = p.attrs()
            if isinstance(t, TOther) and t.k == 'metadata':
                p.rx(r'[^,)]*'); p.eat(','); args.append(None); continue
            v = self.operand(p, t); args.append((v, t, a)); p.eat(',')
        inv = None
        if op == 'invoke':
            mm = re.search(r'to label %(\S+) unwind label %(\S+)', p.rest())
            inv = (mm.group(1).strip('"'), mm.group(2).strip('"'))
        if cname is not None and cname.startswith('llvm.'):
            for pre in ll2c.INTRINSIC_IGNORE:
                if cname.startswith(pre):
                    if inv:
                        def f(eng, st, fr):
                            eng.goto(st, fr, inv[0])
                        return f
                    return None
        argops = [(a[0], a[1], a[2]) for a in args if a is not None]
        isvoid = isinstance(rt, TVoid)
        byval = [(i, m.sizeof(a[2]['byval'])) for i, a in enumerate(argops) if 'byval' in a[2]]

        def f(eng, st, fr):
            loc = fr.loc
            vals = [(loc[o[1]] if o[0] else o[1]) for (o, t, a) in argops]
            if cname is not None:
                callee = cname
            else:
                cv = loc[cval[1]] if cval[0] else cval[1]
                if type(cv) is not int:
                    cv = eng.concretize(st, cv, 'indirect call target')
                callee = eng.irm.addr_fn.get(cv)
                if callee is None:
                    eng.violation(st, 'bad-call', 'indirect call through invalid function pointer 0x%x' % cv); raise PathEnd('violation')
            for (i, sz) in byval:
                o = st.alloc(sz, 'stack', 'byval', fill=0xCD)
                fr.allocas.append(o.base)
                eng.mem_write(st, o.base, eng.mem_read(st, vals[i], sz))
                vals[i] = o.base
            eng.do_call(st, fr, callee, vals, None if isvoid else d, inv, argops)
        return f


# --------------------------------------------------------------------------------------------
# engine
# --------------------------------------------------------------------------------------------
class Engine:
    def __init__(self, irm, max_steps=2000000, max_paths=100000, timeout=None, query_timeout_ms=60000, conc_cap=64, stubs=None, int_mode=False):
        self.irm = irm; self.dec = Decoder(irm)
        self.fns = irm.decoded
        if not getattr(irm, '_prepared', False):
            irm._prepared = True
            for h in MODULE_HOOKS:
                h(irm)
        self.trace_throw = bool(os.environ.get('IRSYM_TRACE_THROW'))
        self.mt = None              # multi-thread event mode (irsym_mt)
        self.inputs = None          # concrete replay: name -> list of values (vs_* return them instead of fresh symbols)
        self.inpos = {}
        query_timeout_ms = int(os.environ.get('VERIF_QUERY_TIMEOUT_MS', query_timeout_ms))
        if int_mode:
            import irsym_int
            self.solver = irsym_int.IntSolver(query_timeout_ms)
        else:
            self.solver = z3.Solver()
            self.solver.set('timeout', query_timeout_ms)
        self.spc = []
        self.work = []
        self.violations = []
        self.paths = collections.Counter()
        self.queries = 0; self.solver_time = 0.0
        self.max_steps = max_steps; self.max_paths = max_paths
        self.deadline = time.time() + timeout if timeout else None
        self.conc_cap = conc_cap
        self.ext = dict(EXTERNALS)
        self.stubs = set(stubs or ())      # defined functions to be treated as external (must have a model)
        self.nsym = 0
        self.called = set()
        self.ended = []       # (kind, info, trace) per finished path (capped)
        self.on_end = None
        self.instrs = 0

    # ---- functions
    def fn(self, name):
        f = self.fns.get(name)
        if f is None:
            f = self.dec.decode(name); self.fns[name] = f
        return f

    # ---- solver
    def sync(self, st):
        pc = st.pc; spc = self.spc
        k = 0; n = min(len(pc), len(spc))
        while k < n and pc[k] is spc[k]:
            k += 1
        for _ in range(len(spc) - k):
            self.solver.pop()
        del spc[k:]
        for c in pc[k:]:
            self.solver.push(); self.solver.add(c); spc.append(c)

    def check(self, st, extra=None):
        self.sync(st)
        t0 = time.time()
        if extra is not None:
            self.solver.push(); self.solver.add(extra)
        r = self.solver.check()
        model = self.solver.model() if r == z3.sat else None
        if extra is not None:
            self.solver.pop()
        self.queries += 1; self.solver_time += time.time() - t0
        if r == z3.unknown:
            raise EngineError('solver returned unknown: ' + self.solver.reason_unknown())
        return r == z3.sat, model

    def feasible(self, st, cond):
        return self.check(st, cond)[0]

    def decide(self, st, cond):
        """cond: z3 Bool (or int).  Returns the truth value followed on this path; forks the other side."""
        if isinstance(cond, int):
            return bool(cond)
        if z3.is_true(cond):
            return True
        if z3.is_false(cond):
            return False
        if not self.feasible(st, cond):
            return False
        nc = z3.Not(cond)
        if not self.feasible(st, nc):
            return True
        st2 = st.fork()
        st2.pc.append(nc)
        st2.frames[-1].ip -= 1          # the other side re-executes the deciding instruction
        self.work.append(st2)
        st.pc.append(cond)
        return True

    def assume(self, st, cond):
        if isinstance(cond, int):
            if not cond:
                raise PathEnd('assume-false')
            return
        if not self.feasible(st, cond):
            raise PathEnd('assume-false')
        st.pc.append(cond)

    def concretize(self, st, e, what, cap=None):
        if not is_sym(e):
            return e
        if z3.is_bool(e):
            return 1 if self.decide(st, e) else 0
        ok, model = self.check(st)
        v = model.eval(e, model_completion=True).as_long()
        key = ('conc', len(st.frames), st.frames[-1].fn.name, st.frames[-1].ip)
        ne = e != v
        if self.feasible(st, ne):
            cnt = st.ext.get(key, 0) + 1
            if cnt > (cap or self.conc_cap):
                raise EngineError('more than %d values for %s in %s' % (cap or self.conc_cap, what, st.frames[-1].fn.name))
            st2 = st.fork(); st2.pc.append(ne); st2.ext[key] = cnt
            st2.frames[-1].ip -= 1
            self.work.append(st2)
            st.pc.append(e == v)
        return v

    def check_nonzero(self, st, b, w):
        if is_sym(b):
            ok, model = self.check(st, bvv(b, w) == 0)
            if ok:
                self.violation(st, 'div-by-zero', 'division by zero', model)
                st.pc.append(bvv(b, w) != 0)

    def fresh(self, st, name, bits):
        if self.inputs is not None:
            k = self.inpos.get(name, 0); self.inpos[name] = k + 1
            v = self.inputs.get(name, [])
            return (v[k] if k < len(v) else 0) & ((1 << bits) - 1)
        self.nsym += 1
        e = z3.BitVec('%s!%d' % (name, len(st.syms)), bits)
        st.syms.append((name, e))
        return e

    # ---- violations
    def model_values(self, st, model):
        out = {}
        if model is None:
            ok, model = self.check(st)
            if not ok:
                return out
        for name, e in st.syms:
            v = model.eval(e, model_completion=True)
            out.setdefault(name, []).append(v.as_long())
        return out

    def where(self, st):
        return ' <- '.join('%s' % f.fn.name for f in reversed(st.frames[-6:]))

    def violation(self, st, kind, msg, model=None):
        v = Violation(kind, msg, self.model_values(st, model), self.where(st), list(st.trace), list(st.choices))
        self.violations.append(v)

    # ---- control
    def goto(self, st, fr, target):
        blk = fr.fn.blocks[target]
        if blk.phis:
            loc = fr.loc; cur = fr.block
            vals = []
            for (dst, inc) in blk.phis:
                k, v = inc[cur]
                vals.append(loc[v] if k else v)
            for (dst, inc), v in zip(blk.phis, vals):
                loc[dst] = v
        fr.prev = fr.block; fr.block = target; fr.code = blk.code; fr.ip = 0

    def push_frame(self, st, name, args, dest, inv, va=None):
        f = self.fn(name)
        fr = Frame(f)
        for nm, v in zip(f.params, args):
            fr.loc[nm] = v
        if f.vararg:
            fr.va = list(args[len(f.params):])
        fr.dest = dest; fr.invoke = inv
        fr.block = f.entry; fr.code = f.blocks[f.entry].code; fr.ip = 0
        st.frames.append(fr)
        if len(st.frames) > 400:
            # unbounded recursion is reported as a (termination) violation candidate; it only counts if the native replay
            # confirms it (stack overflow), otherwise the obligation is inconclusive
            names = [fx.fn.name for fx in st.frames[-60:]]
            cyc = max(set(names), key=names.count)
            self.violation(st, 'recursion', 'call depth exceeds 400 frames: unbounded recursion through %s' % cyc)
            raise PathEnd('violation')
        return fr

    def pop_frame(self, st):
        fr = st.frames.pop()
        for a in fr.allocas:
            o = st.mem.get(a)
            if o is not None:
                o = st.wobj(o); o.alive = False
        return fr

    def do_call(self, st, fr, callee, vals, dest, inv, argops=None):
        m = self.irm.m
        if callee in m.funcs and callee not in self.stubs:
            self.called.add(callee)
            self.push_frame(st, callee, vals, dest, inv)
            return
        h = self.ext.get(callee)
        if h is None:
            for pre, hh in EXT_PREFIX:
                if callee.startswith(pre):
                    h = hh; break
        if h is None:
            raise EngineError('no model for external function %s (called from %s)' % (callee, fr.fn.name))
        try:
            r = h(self, st, vals) if not getattr(h, 'wants_name', False) else h(self, st, vals, callee)
        except Throw:
            self.unwind_from(st, inv)
            return
        if dest is not None:
            fr.loc[dest] = r if r is not None else 0
        if inv:
            self.goto(st, fr, inv[0])

    def do_ret(self, st, fr, val):
        self.pop_frame(st)
        if not st.frames:
            raise PathEnd('return', val)
        caller = st.frames[-1]
        if fr.dest is not None:
            caller.loc[fr.dest] = val
        if fr.invoke:
            self.goto(st, caller, fr.invoke[0])

    # ---- exceptions
    def ti_name(self, addr):
        o = self.irm.base_state.mem.get(addr)
        return o.name if o is not None else None

    def subtype(self, thrown, clause):
        """both typeinfo addresses"""
        if clause == 0 or thrown == clause:
            return True
        seen = set(); work = [self.ti_name(thrown)]
        cn = self.ti_name(clause)
        while work:
            n = work.pop()
            if n is None or n in seen:
                continue
            seen.add(n)
            if n == cn:
                return True
            work.extend(self.irm.ti_bases.get(n, []))
            if n in STD_EXC_BASE:
                work.append(STD_EXC_BASE[n])
        return False

    def unwind_from(self, st, inv):
        """an exception (st.exc) propagates out of a call made in the top frame with invoke info inv"""
        while True:
            fr = st.frames[-1]
            if inv:
                blk = fr.fn.blocks[inv[1]]
                cleanup, clauses = blk.lpad
                sel = None
                for c in clauses:
                    if isinstance(c, tuple):      # empty filter: nothing may pass
                        sel = -1; break
                    if self.subtype(st.exc[1], c):
                        sel = self.irm.type_id(c) if c else self.irm.type_id(0); break
                if sel is not None or cleanup:
                    st.lp = (st.exc[0], (sel or 0) & 0xffffffff)
                    self.goto(st, fr, inv[1])
                    return
            # not handled here: leave this frame
            gone = self.pop_frame(st)
            if not st.frames:
                raise PathEnd('uncaught', self.ti_name(st.exc[1]))
            inv = gone.invoke

    def do_resume(self, st, fr):
        gone = self.pop_frame(st)
        if not st.frames:
            raise PathEnd('uncaught', self.ti_name(st.exc[1]))
        self.unwind_from(st, gone.invoke)

    def throw(self, st, obj, ti):
        st.exc = (obj, ti)
        raise Throw()

    def throw_std(self, st, tiname, msg=''):
        """library-internal throw of a std exception (e.g. std::__throw_length_error)"""
        o = st.alloc(64, 'exc', 'exception ' + tiname)
        mo = st.alloc(len(msg) + 1, 'heap:malloc', 'what')
        mo.data[:len(msg)] = list(msg.encode()); mo.data[len(msg)] = 0
        self.mem_write(st, o.base + 8, int_cells(mo.base, 8))
        vt = self.irm.gaddr.get('_ZTV' + tiname[4:])
        if vt is not None:
            self.mem_write(st, o.base, int_cells(vt + 16, 8))
        ti = self.irm.gaddr.get(tiname)
        if ti is None:
            ti = self.extra_global(tiname)
        self.throw(st, o.base, ti)

    def extra_global(self, name):
        """typeinfo objects of std exceptions not referenced by the module"""
        if name not in self.irm.gaddr:
            raise EngineError('typeinfo %s not available' % name)
        return self.irm.gaddr[name]

    # ---- casts
    def cast(self, op, v, ft, to, fw, tw, tmask):
        if op in ('bitcast', 'addrspacecast'):
            if isinstance(ft, TFP) and isinstance(to, TInt):
                return cells_int(self.irm.encode(v, ft))
            if isinstance(to, TFP) and isinstance(ft, TInt):
                return self.irm.decode(int_cells(v, fw // 8), to)
            return v
        if op in ('inttoptr', 'ptrtoint'):
            if type(v) is int:
                return v & tmask
            if fw == tw:
                return v
            return simp(z3.Extract(tw - 1, 0, v)) if tw < fw else simp(z3.ZeroExt(tw - fw, v))
        if op == 'trunc':
            if type(v) is int:
                return v & tmask
            if tw == 1:
                return to_bool(v)
            return simp(z3.Extract(tw - 1, 0, v))
        if op == 'zext':
            if type(v) is int:
                return v
            if fw == 1:
                return simp(bool_to_bv(to_bool(v), tw))
            return simp(z3.ZeroExt(tw - fw, v))
        if op == 'sext':
            if type(v) is int:
                return sext_const(v, fw) & tmask
            if fw == 1:
                b = to_bool(v)
                return simp(z3.If(b, z3.BitVecVal(tmask, tw), z3.BitVecVal(0, tw)))
            return simp(z3.SignExt(tw - fw, v))
        if is_sym(v):
            v = self.concretize(self.cur, v, 'integer converted to floating point', cap=256)
        if op == 'fptoui' or op == 'fptosi':
            if v != v or abs(v) > 1e30:
                return 0
            return int(v) & tmask
        if op == 'uitofp':
            r = float(v)
        elif op == 'sitofp':
            r = float(sext_const(v, fw))
        elif op == 'fpext':
            r = v
        elif op == 'fptrunc':
            r = struct.unpack('<f', struct.pack('<f', v))[0] if abs(v) < 3.4e38 or v != v else (float('inf') if v > 0 else float('-inf'))
        else:
            raise EngineError('cast ' + op)
        if isinstance(to, TFP) and to.k == 'float' and op != 'fptrunc':
            r = struct.unpack('<f', struct.pack('<f', r))[0]
        return r

    def sym_gep(self, a, i, w, sc):
        if type(i) is int:
            d = (sext_const(i, w) * sc) & M64
            return (a + d) & M64 if type(a) is int else a + z3.BitVecVal(d, 64)
        if z3.is_bool(i):
            i = bool_to_bv(i, 1); w = 1
        ie = z3.SignExt(64 - w, i) if w < 64 else i
        return simp(bvv(a, 64) + ie * z3.BitVecVal(sc, 64))

    # ---- memory
    def resolve(self, st, a, n, write, what='access'):
        """address (int or expr) -> (object, offset); reports and ends the path on a violation"""
        if type(a) is not int:
            ok, model = self.check(st)
            v = model.eval(a, model_completion=True).as_long()
            o = st.find(v)
            if o is None or not o.alive or v + n > o.base + o.size:
                a = v     # this value is already a violation: fall through to the concrete diagnosis
            else:
                lo = z3.BitVecVal(o.base, 64)
                inb = z3.And(z3.UGE(a, lo), z3.ULE(a, z3.BitVecVal(o.base + o.size - n, 64)))
                ok2, model2 = self.check(st, z3.Not(inb))
                if ok2:
                    bad = model2.eval(a, model_completion=True).as_long()
                    self.violation(st, 'memory', '%s of %d byte(s) at offset %d of %s (%d bytes): symbolic address can leave the object' %
                                   ('write' if write else 'read', n, bad - o.base if bad >= o.base else bad - o.base, self.oname(o), o.size), model2)
                    st.pc.append(inb)
                a = self.concretize(st, a, 'address', cap=max(self.conc_cap, o.size + 1))
        o = st.find(a)
        if o is None and self.mt is not None and a >= 4096:
            o = self.mt.foreign(st, a)        # heap object of another thread (E2-mt): read as its owner left it
        if o is None:
            self.violation(st, 'memory', '%s of %d byte(s) at 0x%x: %s' % ('write' if write else 'read', n, a, 'null pointer dereference' if a < 4096 else 'address outside every object'))
            raise PathEnd('violation')
        off = a - o.base
        if not o.alive:
            self.violation(st, 'memory', '%s of %s after its lifetime ended (use after free / return)' % ('write' if write else 'read', self.oname(o)))
            raise PathEnd('violation')
        if off + n > o.size:
            self.violation(st, 'memory', '%s of %d byte(s) at offset %d of %s (%d bytes): out of bounds' % ('write' if write else 'read', n, off, self.oname(o), o.size))
            raise PathEnd('violation')
        return o, off

    def oname(self, o):
        return '%s object %s' % (o.kind, o.name or hex(o.base))

    def mt_rmw_failed(self, st):
        if self.mt is not None:
            self.mt.rmw_failed(self, st)

    def mem_read(self, st, a, n, atomic=None):
        if n == 0:
            return []
        o, off = self.resolve(st, a, n, False)
        if self.mt is not None:
            r = self.mt.on_read(self, st, o, off, n, atomic)
            if r is not None:
                return r
        return o.data[off:off + n]

    def mem_write(self, st, a, cells, atomic=None):
        n = len(cells)
        if n == 0:
            return
        o, off = self.resolve(st, a, n, True)
        if self.mt is not None and self.mt.on_write(self, st, o, off, cells, atomic):
            return
        if o.ro:
            self.violation(st, 'memory', 'write to read-only %s' % self.oname(o)); raise PathEnd('violation')
        if o.base not in st.mem:
            return                      # object owned by another thread (E2-mt): the write is not tracked
        o = st.wobj(o)
        o.data[off:off + n] = cells

    def read_cstr(self, st, a, maxlen=1 << 17):
        """concrete C string at a (forks on symbolic bytes being NUL).  Returns list of cells without the NUL"""
        out = []
        for i in range(maxlen):
            c = self.mem_read(st, a + i, 1)[0]
            if isinstance(c, int):
                if c == 0:
                    return out
            else:
                e = c[0] if c[0].size() == 8 else z3.Extract(8 * c[1] + 7, 8 * c[1], c[0])
                if self.decide(st, e == 0):
                    return out
            out.append(c)
        raise EngineError('unterminated string')

    def cstr_bytes(self, st, a):
        cells = self.read_cstr(st, a)
        return bytes(c if isinstance(c, int) else 63 for c in cells)

    # ---- running
    def new_state(self):
        st = self.irm.base_state.fork()
        return st

    def run_ctors(self, st):
        for c in self.irm.ctors:
            if c in self.irm.m.funcs:
                self.push_frame(st, c, [], None, None)
                self.run_path(st, until_depth=0)

    def run_path(self, st, until_depth=None):
        """execute st until its path ends (raises PathEnd) or the stack returns to until_depth"""
        frames = st.frames
        steps = st.steps
        limit = self.max_steps
        self.cur = st
        try:
            while True:
                fr = frames[-1]
                ins = fr.code[fr.ip]; fr.ip += 1
                steps += 1
                if steps > limit:
                    st.steps = steps
                    raise PathEnd('budget')
                try:
                    ins(self, st, fr)
                except PathEnd as e:
                    if until_depth is not None and e.kind == 'return' and not frames:
                        st.steps = steps
                        return e.info
                    raise
        finally:
            self.instrs += steps - st.steps
            st.steps = steps

    def explore(self, entry, args_fn=None, setup=None):
        """explore all paths of function `entry` from a fresh state.  args_fn(eng, st) -> list of arguments"""
        st = self.new_state()
        self.run_ctors(st)
        if setup:
            setup(self, st)
        args = args_fn(self, st) if args_fn else []
        self.push_frame(st, entry, args, None, None)
        self.work.append(st)
        while self.work:
            if self.deadline and time.time() > self.deadline:
                raise EngineError('time budget exhausted with %d states pending' % len(self.work))
            if sum(self.paths.values()) > self.max_paths:
                raise EngineError('path budget exhausted (%d paths)' % self.max_paths)
            st = self.work.pop()
            try:
                self.run_path(st)
            except PathEnd as e:
                self.paths[e.kind] += 1
                if e.kind == 'budget':
                    self.violation(st, 'termination', 'path exceeded %d instructions (possible non-termination)' % self.max_steps)
                elif e.kind == 'uncaught':
                    self.violation(st, 'uncaught', 'exception of type %s escapes the entry point' % e.info)
                if self.on_end:
                    self.on_end(self, st, e)
                if len(self.ended) < 50:
                    self.ended.append((e.kind, e.info, list(st.trace)))
        return self

    def stats(self):
        return dict(paths=dict(self.paths), queries=self.queries, solver_s=round(self.solver_time, 3), instructions=self.instrs,
                    functions=len(self.called))


EXTERNALS = {}
EXT_PREFIX = []
MODULE_HOOKS = []


def ext(*names):
    def deco(f):
        for n in names:
            EXTERNALS[n] = f
        return f
    return deco


def ext_prefix(*pres):
    def deco(f):
        f.wants_name = True
        for p in pres:
            EXT_PREFIX.append((p, f))
        return f
    return deco


# --------------------------------------------------------------------------------------------
# external models: intrinsics, allocation, C++ runtime, libc, harness API
# --------------------------------------------------------------------------------------------
def _len(eng, st, n, what):
    return n if type(n) is int else eng.concretize(st, n, what)


@ext_prefix('llvm.memcpy.', 'llvm.memmove.')
def x_memcpy(eng, st, a, name):
    n = _len(eng, st, a[2], 'memcpy length')
    if n:
        cells = eng.mem_read(st, a[1], n)
        eng.mem_write(st, a[0], cells)


@ext('memcpy', 'memmove')
def x_memcpy_libc(eng, st, a):
    x_memcpy(eng, st, a, '')
    return a[0]


@ext_prefix('llvm.memset.')
def x_memset(eng, st, a, name):
    n = _len(eng, st, a[2], 'memset length')
    if n:
        v = a[1]
        c = v if type(v) is int else (v, 0)
        eng.mem_write(st, a[0], [c] * n)


@ext('memset')
def x_memset_libc(eng, st, a):
    x_memset(eng, st, [a[0], a[1] & 255 if type(a[1]) is int else simp(z3.Extract(7, 0, a[1])), a[2]], '')
    return a[0]


@ext_prefix('llvm.expect.', 'llvm.launder.invariant.group', 'llvm.strip.invariant.group', 'llvm.ptr.annotation')
def x_ident(eng, st, a, name):
    return a[0]


@ext_prefix('llvm.eh.typeid.for')
def x_typeid(eng, st, a, name):
    return eng.irm.type_id(a[0])


@ext('llvm.trap')
def x_trap(eng, st, a):
    eng.violation(st, 'trap', 'llvm.trap executed'); raise PathEnd('violation')


@ext_prefix('llvm.objectsize.')
def x_objsize(eng, st, a, name):
    return 0 if a[1] else M64


@ext_prefix('llvm.is.constant.')
def x_isconst(eng, st, a, name):
    return 0


def _w(name):
    return int(re.search(r'\.i(\d+)$', name).group(1))


@ext_prefix('llvm.umax.', 'llvm.umin.', 'llvm.smax.', 'llvm.smin.')
def x_minmax(eng, st, a, name):
    w = _w(name); kind = name.split('.')[1]
    x, y = a[0], a[1]
    if type(x) is int and type(y) is int:
        if kind[0] == 's':
            sx, sy = sext_const(x, w), sext_const(y, w)
            return x if (sx > sy) == (kind == 'smax') or sx == sy else y
        return max(x, y) if kind == 'umax' else min(x, y)
    bx, by = bvv(x, w), bvv(y, w)
    c = {'umax': z3.UGT(bx, by), 'umin': z3.ULT(bx, by), 'smax': bx > by, 'smin': bx < by}[kind]
    return simp(z3.If(c, bx, by))


@ext_prefix('llvm.abs.')
def x_abs(eng, st, a, name):
    w = _w(name); x = a[0]
    if type(x) is int:
        return abs(sext_const(x, w)) & ((1 << w) - 1)
    return simp(z3.If(x < 0, -x, x))


@ext_prefix('llvm.ctpop.')
def x_ctpop(eng, st, a, name):
    x = _len(eng, st, a[0], 'ctpop operand')
    return bin(x).count('1')


@ext_prefix('llvm.cttz.')
def x_cttz(eng, st, a, name):
    w = _w(name); x = _len(eng, st, a[0], 'cttz operand')
    return w if x == 0 else (x & -x).bit_length() - 1


@ext_prefix('llvm.ctlz.')
def x_ctlz(eng, st, a, name):
    w = _w(name); x = _len(eng, st, a[0], 'ctlz operand')
    return w - x.bit_length()


@ext_prefix('llvm.bswap.')
def x_bswap(eng, st, a, name):
    w = _w(name); x = _len(eng, st, a[0], 'bswap operand')
    return int.from_bytes(x.to_bytes(w // 8, 'little'), 'big')


@ext_prefix('llvm.fshl.', 'llvm.fshr.')
def x_fsh(eng, st, a, name):
    w = _w(name); x, y, s = [_len(eng, st, v, 'fsh operand') for v in a[:3]]
    s %= w; cat = (x << w) | y
    if 'fshl' in name:
        return (cat >> (w - s)) & ((1 << w) - 1) if s else x
    return (cat >> s) & ((1 << w) - 1)


@ext_prefix('llvm.uadd.with.overflow.', 'llvm.usub.with.overflow.', 'llvm.umul.with.overflow.',
            'llvm.sadd.with.overflow.', 'llvm.ssub.with.overflow.', 'llvm.smul.with.overflow.')
def x_ovf(eng, st, a, name):
    w = _w(name); mask = (1 << w) - 1
    sg = name[5]; opn = name[6:9]
    x, y = a[0], a[1]
    if type(x) is int and type(y) is int:
        if sg == 's':
            x, y = sext_const(x, w), sext_const(y, w)
        r = x + y if opn == 'add' else x - y if opn == 'sub' else x * y
        lo, hi = (-(1 << (w - 1)), (1 << (w - 1)) - 1) if sg == 's' else (0, mask)
        return (r & mask, 0 if lo <= r <= hi else 1)
    bx, by = bvv(x, w), bvv(y, w)
    if sg == 'u':
        ex, ey = z3.ZeroExt(w, bx), z3.ZeroExt(w, by)
    else:
        ex, ey = z3.SignExt(w, bx), z3.SignExt(w, by)
    r = ex + ey if opn == 'add' else ex - ey if opn == 'sub' else ex * ey
    lowr = z3.Extract(w - 1, 0, r)
    back = z3.ZeroExt(w, lowr) if sg == 'u' else z3.SignExt(w, lowr)
    return (simp(lowr), simp(back != r))


@ext_prefix('llvm.fabs.')
def x_fabs(eng, st, a, name):
    return abs(a[0])


@ext_prefix('llvm.stacksave')
def x_stacksave(eng, st, a, name):
    return 0


# ---- allocation
def _alloc(eng, st, n, kind):
    n = _len(eng, st, n, 'allocation size')
    if n > (1 << 24):
        # allocation failure is outside every claim: sizes beyond 16 MB end the path
        raise PathEnd('alloc-too-big')
    return st.alloc(n, kind, fill=0xCD).base


@ext('_Znwm')
def x_new(eng, st, a):
    return _alloc(eng, st, a[0], 'heap:new')


@ext('_Znam')
def x_newa(eng, st, a):
    return _alloc(eng, st, a[0], 'heap:new[]')


@ext('malloc')
def x_malloc(eng, st, a):
    return _alloc(eng, st, a[0], 'heap:malloc')


@ext('calloc')
def x_calloc(eng, st, a):
    n = _len(eng, st, a[0], 'calloc') * _len(eng, st, a[1], 'calloc')
    return st.alloc(n, 'heap:malloc', fill=0).base


def _free(eng, st, p, kind, fname):
    if p == 0:
        return
    if type(p) is not int:
        p = eng.concretize(st, p, 'freed pointer')
    o = st.mem.get(p)
    if o is None and eng.mt is not None and eng.mt.foreign(st, p) is not None:
        return                          # block allocated by another thread (E2-mt): released there, not tracked here
    if o is None:
        eng.violation(st, 'memory', '%s of 0x%x which is not the start of a heap block' % (fname, p)); raise PathEnd('violation')
    if not o.alive:
        eng.violation(st, 'memory', 'double free (%s) of %s' % (fname, eng.oname(o))); raise PathEnd('violation')
    if o.kind != kind:
        eng.violation(st, 'memory', 'mismatched deallocation: %s released with %s' % (eng.oname(o), fname)); raise PathEnd('violation')
    o = st.wobj(o); o.alive = False


@ext('_ZdlPv', '_ZdlPvm')
def x_delete(eng, st, a):
    _free(eng, st, a[0], 'heap:new', 'operator delete')


@ext('_ZdaPv', '_ZdaPvm')
def x_deletea(eng, st, a):
    _free(eng, st, a[0], 'heap:new[]', 'operator delete[]')


@ext('free')
def x_free(eng, st, a):
    _free(eng, st, a[0], 'heap:malloc', 'free')


# ---- C++ runtime
@ext('__cxa_allocate_exception')
def x_alloc_exc(eng, st, a):
    return st.alloc(max(_len(eng, st, a[0], 'exception size'), 16), 'exc', 'exception object', fill=0).base


@ext('__cxa_free_exception')
def x_free_exc(eng, st, a):
    o = st.mem.get(a[0])
    if o is not None:
        o = st.wobj(o); o.alive = False


@ext('__cxa_throw')
def x_throw(eng, st, a):
    if eng.trace_throw:
        msg = ''
        try:
            p = cells_int(eng.mem_read(st, a[0] + 8, 8))
            if type(p) is int and st.find(p) is not None:
                msg = bytes(c if isinstance(c, int) else 63 for c in eng.read_cstr(st, p)).decode('latin1')
        except Exception:
            pass
        st.trace.append(('throw ' + str(eng.ti_name(a[1])) + ' "' + msg + '" @ ' + eng.where(st)[:200], 0))
    eng.throw(st, a[0], a[1])


@ext('__cxa_begin_catch')
def x_begin_catch(eng, st, a):
    st.caught.append(st.exc)
    return a[0]


@ext('__cxa_end_catch')
def x_end_catch(eng, st, a):
    if st.caught:
        st.caught.pop()


@ext('__cxa_rethrow')
def x_rethrow(eng, st, a):
    if not st.caught:
        eng.violation(st, 'terminate', '__cxa_rethrow without a caught exception'); raise PathEnd('violation')
    st.exc = st.caught[-1]
    raise Throw()


@ext('_ZSt9terminatev')
def x_terminate(eng, st, a):
    eng.violation(st, 'terminate', 'std::terminate called (%s)' % ('exception %s left a noexcept function / destructor' % eng.ti_name(st.exc[1]) if st.exc else 'no active exception'))
    raise PathEnd('violation')


@ext('__cxa_pure_virtual')
def x_purevirt(eng, st, a):
    eng.violation(st, 'terminate', 'pure virtual function called'); raise PathEnd('violation')


@ext('_ZSt21__glibcxx_assert_failPKciS0_S0_')
def x_glibcxx_assert(eng, st, a):
    fn = eng.cstr_bytes(st, a[2]).decode('latin1') if a[2] else ''
    cond = eng.cstr_bytes(st, a[3]).decode('latin1') if a[3] else ''
    eng.violation(st, 'libstdc++-precondition', 'libstdc++ precondition violated: %s in %s' % (cond, fn[:120])); raise PathEnd('violation')


@ext('__assert_fail')
def x_assert_fail(eng, st, a):
    eng.violation(st, 'assert', 'assert(%s) failed' % eng.cstr_bytes(st, a[0]).decode('latin1')); raise PathEnd('violation')


@ext('abort')
def x_abort(eng, st, a):
    eng.violation(st, 'terminate', 'abort() called'); raise PathEnd('violation')


@ext('exit', '_exit')
def x_exit(eng, st, a):
    raise PathEnd('exit', a[0])


@ext('__cxa_guard_acquire')
def x_guard_acq(eng, st, a):
    c = eng.mem_read(st, a[0], 1)[0]
    return 1 if c == 0 else 0


@ext('__cxa_guard_release')
def x_guard_rel(eng, st, a):
    eng.mem_write(st, a[0], [1])


@ext('__cxa_guard_abort', '__cxa_atexit', '_ZNSt8ios_base4InitC1Ev', '_ZNSt8ios_base4InitD1Ev', '__cxa_thread_atexit')
def x_noop0(eng, st, a):
    return 0


def _throw_std(tiname):
    def f(eng, st, a):
        msg = ''
        if a and type(a[0]) is int and a[0]:
            try:
                msg = eng.cstr_bytes(st, a[0]).decode('latin1')
            except PathEnd:
                msg = ''
        eng.throw_std(st, tiname, msg)
    return f


for _n, _t in (('_ZSt20__throw_length_errorPKc', '_ZTISt12length_error'), ('_ZSt19__throw_logic_errorPKc', '_ZTISt11logic_error'),
               ('_ZSt24__throw_out_of_range_fmtPKcz', '_ZTISt12out_of_range'), ('_ZSt20__throw_out_of_rangePKc', '_ZTISt12out_of_range'),
               ('_ZSt17__throw_bad_allocv', '_ZTISt9bad_alloc'), ('_ZSt28__throw_bad_array_new_lengthv', '_ZTISt20bad_array_new_length'),
               ('_ZSt25__throw_bad_function_callv', '_ZTISt17bad_function_call'), ('_ZSt24__throw_invalid_argumentPKc', '_ZTISt16invalid_argument'),
               ('_ZSt16__throw_bad_castv', '_ZTISt8bad_cast'), ('_ZSt21__throw_runtime_errorPKc', '_ZTISt13runtime_error'),
               ('_ZSt20__throw_domain_errorPKc', '_ZTISt12domain_error'), ('_ZSt22__throw_overflow_errorPKc', '_ZTISt14overflow_error'),
               ('_ZSt19__throw_regex_errorNSt15regex_constants10error_typeE', '_ZTISt11regex_error'),
               ('_ZSt27__throw_bad_optional_accessv', '_ZTISt20bad_optional_access'), ('_ZSt26__throw_bad_variant_accessPKc', '_ZTISt18bad_variant_access')):
    EXTERNALS[_n] = _throw_std(_t)


# std exception classes (live in libstdc++.so): layout {vptr, message pointer}
_EXC_CLASSES = {'St9exception': None, 'St11logic_error': 1, 'St13runtime_error': 1, 'St16invalid_argument': 1, 'St12domain_error': 1,
                'St12length_error': 1, 'St12out_of_range': 1, 'St11range_error': 1, 'St14overflow_error': 1, 'St15underflow_error': 1,
                'St9bad_alloc': None, 'St8bad_cast': None, 'St20bad_array_new_length': None}


def _exc_ctor_cstr(cls):
    def f(eng, st, a):
        cells = eng.read_cstr(st, a[1])
        mo = st.alloc(len(cells) + 1, 'heap:malloc', 'what', fill=0)
        mo.data[:len(cells)] = cells
        eng.mem_write(st, a[0] + 8, int_cells(mo.base, 8))
        vt = eng.irm.gaddr.get('_ZTV' + cls)
        if vt is not None:
            eng.mem_write(st, a[0], int_cells(vt + 16, 8))
    return f


def std_string_view(eng, st, p):
    """(data pointer, length) of a libstdc++ std::string object at p"""
    d = cells_int(eng.mem_read(st, p, 8)); n = cells_int(eng.mem_read(st, p + 8, 8))
    return d, n


def _exc_ctor_str(cls):
    def f(eng, st, a):
        d, n = std_string_view(eng, st, a[1])
        n = _len(eng, st, n, 'message length'); d = _len(eng, st, d, 'message pointer')
        cells = eng.mem_read(st, d, n)
        mo = st.alloc(n + 1, 'heap:malloc', 'what', fill=0)
        mo.data[:n] = cells
        eng.mem_write(st, a[0] + 8, int_cells(mo.base, 8))
        vt = eng.irm.gaddr.get('_ZTV' + cls)
        if vt is not None:
            eng.mem_write(st, a[0], int_cells(vt + 16, 8))
    return f


def _exc_copy(cls):
    def f(eng, st, a):
        eng.mem_write(st, a[0] + 8, eng.mem_read(st, a[1] + 8, 8))
        vt = eng.irm.gaddr.get('_ZTV' + cls)
        if vt is not None:
            eng.mem_write(st, a[0], int_cells(vt + 16, 8))
    return f


def _exc_what(eng, st, a):
    return cells_int(eng.mem_read(st, a[0] + 8, 8))


for _c, _hasmsg in _EXC_CLASSES.items():
    for _k in ('C1', 'C2'):
        if _hasmsg:
            EXTERNALS['_ZN%s%sEPKc' % (_c, _k)] = _exc_ctor_cstr(_c)
            EXTERNALS['_ZN%s%sERKNSt7__cxx1112basic_stringIcSt11char_traitsIcESaIcEEE' % (_c, _k)] = _exc_ctor_str(_c)
            EXTERNALS['_ZN%s%sERKS_' % (_c, _k)] = _exc_copy(_c)
            EXTERNALS['_ZN%s%sEOS_' % (_c, _k)] = _exc_copy(_c)
    for _k in ('D0', 'D1', 'D2'):
        EXTERNALS['_ZN%s%sEv' % (_c, _k)] = x_noop0
    EXTERNALS['_ZNK%s4whatEv' % _c] = _exc_what


# ---- libc strings
@ext('strlen')
def x_strlen(eng, st, a):
    return len(eng.read_cstr(st, a[0]))


def _cell_expr(c):
    if isinstance(c, int):
        return c
    return c[0] if c[0].size() == 8 else z3.Extract(8 * c[1] + 7, 8 * c[1], c[0])


def _cmp_cells(eng, st, xs, ys):
    """lexicographic comparison with forking; returns -1/0/1"""
    for x, y in zip(xs, ys):
        ex, ey = _cell_expr(x), _cell_expr(y)
        if isinstance(ex, int) and isinstance(ey, int):
            if ex != ey:
                return -1 if ex < ey else 1
            continue
        bx, by = bvv(ex, 8), bvv(ey, 8)
        if eng.decide(st, simp(bx == by)):
            continue
        return -1 if eng.decide(st, simp(z3.ULT(bx, by))) else 1
    return 0


@ext('memcmp', 'bcmp')
def x_memcmp(eng, st, a):
    n = _len(eng, st, a[2], 'memcmp length')
    if n == 0:
        return 0
    xs = eng.mem_read(st, a[0], n); ys = eng.mem_read(st, a[1], n)
    return _cmp_cells(eng, st, xs, ys) & 0xffffffff


@ext('strcmp')
def x_strcmp(eng, st, a):
    xs = eng.read_cstr(st, a[0]) + [0]; ys = eng.read_cstr(st, a[1]) + [0]
    return _cmp_cells(eng, st, xs, ys) & 0xffffffff


@ext('strncmp')
def x_strncmp(eng, st, a):
    n = _len(eng, st, a[2], 'strncmp length')
    xs = (eng.read_cstr(st, a[0]) + [0])[:n]; ys = (eng.read_cstr(st, a[1]) + [0])[:n]
    return _cmp_cells(eng, st, xs, ys) & 0xffffffff


@ext('strcpy')
def x_strcpy(eng, st, a):
    cells = eng.read_cstr(st, a[1]) + [0]
    eng.mem_write(st, a[0], cells)
    return a[0]


@ext('strncpy')
def x_strncpy(eng, st, a):
    n = _len(eng, st, a[2], 'strncpy count')
    cells = []
    for i in range(n):
        c = eng.mem_read(st, a[1] + i, 1)[0]
        if isinstance(c, int):
            if c == 0:
                break
        elif eng.decide(st, _cell_expr(c) == 0):
            break
        cells.append(c)
    eng.mem_write(st, a[0], cells + [0] * (n - len(cells)))
    return a[0]


@ext('strcat')
def x_strcat(eng, st, a):
    n = len(eng.read_cstr(st, a[0]))
    eng.mem_write(st, a[0] + n, eng.read_cstr(st, a[1]) + [0])
    return a[0]


def _find_byte(eng, st, cells, ch):
    for i, c in enumerate(cells):
        e = _cell_expr(c)
        if isinstance(e, int) and isinstance(ch, int):
            if e == ch:
                return i
        elif eng.decide(st, simp(bvv(e, 8) == bvv(ch, 8))):
            return i
    return -1


def _ch8(v):
    return v & 255 if type(v) is int else simp(z3.Extract(7, 0, v))


@ext('strchr')
def x_strchr(eng, st, a):
    cells = eng.read_cstr(st, a[0]) + [0]
    i = _find_byte(eng, st, cells, _ch8(a[1]))
    return 0 if i < 0 else a[0] + i


@ext('strrchr')
def x_strrchr(eng, st, a):
    cells = eng.read_cstr(st, a[0]) + [0]
    i = _find_byte(eng, st, list(reversed(cells)), _ch8(a[1]))
    return 0 if i < 0 else a[0] + len(cells) - 1 - i


@ext('memchr')
def x_memchr(eng, st, a):
    n = _len(eng, st, a[2], 'memchr length')
    if n == 0:
        return 0
    cells = eng.mem_read(st, a[0], n)
    i = _find_byte(eng, st, cells, _ch8(a[1]))
    return 0 if i < 0 else a[0] + i


def _ctype(pred):
    def f(eng, st, a):
        c = _len(eng, st, a[0], 'ctype argument', ) if not is_sym(a[0]) else None
        if c is None:
            # symbolic character: enumerate by class membership instead of by value
            e = bvv(a[0], 32)
            members = [k for k in range(256) if pred(k)]
            cond = simp(z3.Or([e == k for k in members])) if members else z3.BoolVal(False)
            return 1 if eng.decide(st, cond) else 0
        c = sext_const(c, 32)
        return 1 if 0 <= c < 256 and pred(c) else 0
    return f


EXTERNALS['isspace'] = _ctype(lambda k: k in (9, 10, 11, 12, 13, 32))
EXTERNALS['isdigit'] = _ctype(lambda k: 48 <= k <= 57)
EXTERNALS['isalpha'] = _ctype(lambda k: 65 <= k <= 90 or 97 <= k <= 122)
EXTERNALS['isalnum'] = _ctype(lambda k: 48 <= k <= 57 or 65 <= k <= 90 or 97 <= k <= 122)
EXTERNALS['ispunct'] = _ctype(lambda k: 33 <= k <= 47 or 58 <= k <= 64 or 91 <= k <= 96 or 123 <= k <= 126)
EXTERNALS['isupper'] = _ctype(lambda k: 65 <= k <= 90)
EXTERNALS['islower'] = _ctype(lambda k: 97 <= k <= 122)
EXTERNALS['isprint'] = _ctype(lambda k: 32 <= k <= 126)
EXTERNALS['isxdigit'] = _ctype(lambda k: 48 <= k <= 57 or 65 <= k <= 70 or 97 <= k <= 102)


# ---- strtol family ([C] 7.22.1.4, base 10 / 0 with decimal input only), errno
@ext('__errno_location')
def x_errno_location(eng, st, a):
    o = st.ext.get('errno_obj')
    if o is None:
        o = st.alloc(4, 'global', 'errno', fill=0).base; st.ext['errno_obj'] = o
    return o


def _strto(signed):
    def f(eng, st, a):
        p = a[0]; base = a[2]
        if type(base) is not int or base not in (0, 10):
            raise EngineError('strtol: base %r not modelled' % (base,))

        def ch(i):
            return _cell_expr(eng.mem_read(st, p + i, 1)[0])

        def test(e):
            return bool(e) if isinstance(e, (int, bool)) else eng.decide(st, e)
        i = 0
        while True:
            c = ch(i)
            if test((c == 32) if isinstance(c, int) else z3.Or(c == 32, z3.And(z3.UGE(c, 9), z3.ULE(c, 13)))) or (isinstance(c, int) and 9 <= c <= 13):
                i += 1; continue
            break
        neg = False
        c = ch(i)
        if test(c == 45):
            neg = True; i += 1
        elif test(c == 43):
            i += 1
        acc = 0; nd = 0
        while nd < 40:
            c = ch(i)
            isd = (48 <= c <= 57) if isinstance(c, int) else z3.And(z3.UGE(c, 48), z3.ULE(c, 57))
            if not test(isd):
                break
            d = c - 48 if isinstance(c, int) else z3.ZeroExt(120, c - 48)
            acc = acc * 10 + d if isinstance(acc, int) and isinstance(d, int) else (bvv(acc, 128) if isinstance(acc, int) else acc) * 10 + (bvv(d, 128) if isinstance(d, int) else d)
            i += 1; nd += 1
        if nd == 0:
            if type(a[1]) is not int or a[1]:
                eng.mem_write(st, a[1], int_cells(p, 8))
            return 0
        if type(a[1]) is not int or a[1]:
            eng.mem_write(st, a[1], int_cells(p + i, 8))
        limit = ((1 << 63) if neg else (1 << 63) - 1) if signed else (1 << 64) - 1
        over = (acc > limit) if isinstance(acc, int) else z3.UGT(acc, bvv(limit, 128))
        if test(over):
            eng.mem_write(st, x_errno_location(eng, st, []), int_cells(34, 4))          # ERANGE
            return (((1 << 63) if neg else (1 << 63) - 1) if signed else (1 << 64) - 1)
        if isinstance(acc, int):
            return (-acc if neg else acc) & ((1 << 64) - 1)
        v = z3.Extract(63, 0, acc)
        if not neg:
            return simp(v)
        # the negated value as a fresh term tied to the digits by one equation (negating the digit sum itself would
        # distribute the negation over every digit term)
        eng.nsym += 1
        r = z3.BitVec('strtol!neg!%d' % eng.nsym, 64)
        eng.assume(st, v == 0 - r)
        return r
    return f


EXTERNALS['strtol'] = _strto(True); EXTERNALS['strtoll'] = _strto(True); EXTERNALS['strtoul'] = _strto(False); EXTERNALS['strtoull'] = _strto(False)
EXTERNALS['__isoc23_strtol'] = _strto(True); EXTERNALS['__isoc23_strtoul'] = _strto(False); EXTERNALS['__isoc23_strtoll'] = _strto(True); EXTERNALS['__isoc23_strtoull'] = _strto(False)


@ext('tolower')
def x_tolower(eng, st, a):
    c = a[0]
    if type(c) is not int:          # "C" locale, decided symbolically
        return simp(z3.If(z3.And(z3.UGE(c, 65), z3.ULE(c, 90)), c + 32, c))
    return c + 32 if 65 <= c <= 90 else c


@ext('toupper')
def x_toupper(eng, st, a):
    c = a[0]
    if type(c) is not int:
        return simp(z3.If(z3.And(z3.UGE(c, 97), z3.ULE(c, 122)), c - 32, c))
    return c - 32 if 97 <= c <= 122 else c


# ---- harness API (declared extern "C" in the wrapper TUs)
@ext('vs_sym')
def x_vs_sym(eng, st, a):
    """vs_sym(ptr, n, name): n fresh symbolic bytes at ptr"""
    n = a[1]; name = eng.cstr_bytes(st, a[2]).decode() if len(a) > 2 and a[2] else 'in'
    cells = []
    for i in range(n):
        e = eng.fresh(st, name, 8)
        cells.append(e if type(e) is int else (e, 0))
    eng.mem_write(st, a[0], cells)


def _vs_val(bits):
    def f(eng, st, a):
        name = eng.cstr_bytes(st, a[0]).decode() if a and a[0] else 'v'
        return eng.fresh(st, name, bits)
    return f


EXTERNALS['vs_u8'] = _vs_val(8); EXTERNALS['vs_u16'] = _vs_val(16); EXTERNALS['vs_u32'] = _vs_val(32); EXTERNALS['vs_u64'] = _vs_val(64)


@ext('vs_assume')
def x_vs_assume(eng, st, a):
    c = a[0]
    if type(c) is int:
        if not c:
            raise PathEnd('assume-false')
        return
    eng.assume(st, to_bool(c) if z3.is_bool(c) or c.size() == 1 else simp(c != 0))


@ext('vs_assert')
def x_vs_assert(eng, st, a):
    c = a[0]
    msg = eng.cstr_bytes(st, a[1]).decode('latin1') if a[1] else ''
    if eng.mt is not None:
        eng.mt.on_assert(eng, st, c, msg)
        return
    if type(c) is int:
        if not c:
            eng.violation(st, 'assert', msg)
        return
    cond = to_bool(c) if z3.is_bool(c) or c.size() == 1 else simp(c != 0)
    if isinstance(cond, int):
        if not cond:
            eng.violation(st, 'assert', msg)
        return
    ok, model = eng.check(st, z3.Not(cond))
    if ok:
        eng.violation(st, 'assert', msg, model)
        if not eng.feasible(st, cond):
            raise PathEnd('violation')
        st.pc.append(cond)


@ext('vs_choose')
def x_vs_choose(eng, st, a):
    """fork into n paths returning 0..n-1"""
    n = a[0]
    # the forks made by concretize() re-execute this call: they must meet the same symbol again, not a fresh one
    key = ('choose-pending', len(st.frames), st.frames[-1].fn.name, st.frames[-1].ip)
    e = st.ext.get(key)
    if e is None:
        e = eng.fresh(st, 'choose', 32)
        if type(e) is int:
            st.choices.append(e % n if n else 0)
            return e % n if n else 0
        eng.assume(st, z3.ULT(e, n))
        st.ext[key] = e
    v = eng.concretize(st, e, 'vs_choose', cap=max(n + 1, eng.conc_cap))
    st.ext.pop(key, None)
    return v


@ext('vs_note')
def x_vs_note(eng, st, a):
    st.trace.append((eng.cstr_bytes(st, a[0]).decode('latin1'), a[1] if type(a[1]) is int else str(a[1])))


@ext('vs_is_symbolic')
def x_vs_is_sym(eng, st, a):
    return 1 if is_sym(a[0]) else 0


@ext('vs_concretize')
def x_vs_concretize(eng, st, a):
    return eng.concretize(st, a[0], 'vs_concretize', cap=4096)


def _exc_what_generic(eng, st, a):
    p = cells_int(eng.mem_read(st, a[0] + 8, 8)) if st.find(a[0] + 8) is not None and st.find(a[0]).size >= 16 else 0
    if type(p) is int and p and st.find(p) is not None:
        return p
    o = st.alloc(16, 'global', 'what-string', fill=0)
    o.data[:13] = list(b'std::exception')[:13]
    return o.base


for _n in list(STD_EXC_BASE) + ['_ZTISt9exception']:
    _c = _n[4:]
    for _k in ('D0', 'D1', 'D2'):
        EXTERNALS.setdefault('_ZN%s%sEv' % (_c, _k), x_noop0)
    EXTERNALS.setdefault('_ZNK%s4whatEv' % _c, _exc_what_generic)


@ext_prefix('llvm.load.relative.')
def x_load_relative(eng, st, a, name):
    off = _len(eng, st, a[1], 'relative table offset')
    v = cells_int(eng.mem_read(st, a[0] + sext_const(off, 64), 4))
    if type(v) is not int:
        v = eng.concretize(st, v, 'relative table entry')
    return (a[0] + sext_const(v, 32)) & M64
