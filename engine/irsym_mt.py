"""E2-mt: every schedule of a small multi-threaded C++ program (std::thread, std::mutex, std::atomic) as one SMT query.

Each thread is executed symbolically on its own (irsym): every access to a *shared* region becomes
an event - loads return fresh symbols, stores record their value - and locks, atomics, thread start
and join are events too.  For each combination of per-thread paths a single query over integer
event clocks encodes program order, lock mutual exclusion, thread start/join ordering and
reads-from (a load returns the value of the latest earlier store to those bytes, or the initial
content).  The *schedule is a solver variable*: sat = an interleaving (returned as the event order)
that makes a recorded assertion fail.  A second query decides data races in the C++11 sense: two
conflicting accesses of different threads, at least one non-atomic, unordered by happens-before
(program order, unlock->lock, release store -> acquire load that reads it, start, join; transitive).
Accesses of two threads to a pre-existing object that was not declared shared are reported as well.
Bound: the threads the harness starts (2-3), sequential consistency for the value semantics.
"""
import itertools, time, os, sys
import z3
from irsym import *
import irsym_cxx

ACQ = ('acquire', 'acq_rel', 'seq_cst'); REL = ('release', 'acq_rel', 'seq_cst')


class Ev:
    __slots__ = ('tid', 'idx', 'kind', 'addr', 'n', 'val', 'order', 'where', 'aux', 'init')

    def __init__(self, tid, kind, addr=0, n=0, val=None, order=None, where='', aux=None):
        self.tid = tid; self.kind = kind; self.addr = addr; self.n = n; self.val = val; self.order = order; self.where = where; self.aux = aux
        self.idx = -1; self.init = False

    def __repr__(self):
        return 'T%d:%s@%x/%d%s' % (self.tid, self.kind, self.addr, self.n, (' ' + self.order) if self.order else '')


class ThreadPath:
    def __init__(self, tid, events, pc, asserts, spawns, touched, end):
        self.tid = tid; self.events = events; self.pc = pc; self.asserts = asserts; self.spawns = spawns; self.touched = touched; self.end = end


class MT:
    def __init__(self, irm, shared_globals=(), timeout=300, max_steps=400000, races_only=False):
        self.races_only = races_only      # threads run with sequential memory semantics; only the happens-before (data race) query is decided
        self.irm = irm; self.shared = []        # (lo, hi) address ranges
        for g in shared_globals:
            o = irm.gobj[g]; self.shared.append((o.base, o.base + o.size))
        # guard variables of function-local statics are shared by construction (see the __cxa_guard_* models below)
        self.guards = []
        for g, o in irm.gobj.items():
            if g.startswith('_ZGV'):
                self.guards.append((o.base, o.base + o.size))
                if g not in shared_globals:
                    self.shared.append((o.base, o.base + o.size))
        self.timeout = timeout; self.max_steps = max_steps
        self.nrd = 0
        self.stats = dict(thread_paths=0, combinations=0, queries=0, solver_s=0.0, events_max=0)
        self.violations = []
        self.nthreads = 1
        self.collect = False         # pass A: sequential semantics, only record the values written to shared bytes
        self.cands = {}              # (addr, n) -> set of concrete values / None (unconstrained)
        self.seq_states = {}         # tid -> final state of the thread's sequential run (foreign heap objects)

    # ---- hooks called by the engine
    def is_shared(self, a, n):
        for lo, hi in self.shared:
            if a < hi and a + n > lo:
                return True
        return False

    def _ev(self, st, ev):
        st.ext['events'] = st.ext.get('events', []) + [ev]

    def _touch(self, st, o, write):
        # accesses to objects that existed before this thread started (and are not declared shared)
        if o.base < st.ext.get('own_from', 1 << 62) and o.kind not in ('stack', 'tls'):
            t = dict(st.ext.get('touched', {})); t[o.base] = max(t.get(o.base, 0), 2 if write else 1)
            st.ext['touched'] = t

    def on_read(self, eng, st, o, off, n, order):
        a = o.base + off
        if not self.is_shared(a, n):
            self._touch(st, o, False)
            return None
        if self.collect:
            return None
        if self.races_only:
            self._ev(st, Ev(st.ext.get('tid', 0), 'r', a, n, None, order, eng.where(st)[:120]))
            return None
        self.nrd += 1
        sym = z3.BitVec('rd!%d!%d' % (st.ext.get('tid', 0), self.nrd), 8 * n)
        self._ev(st, Ev(st.ext.get('tid', 0), 'rmw-r' if order == 'rmw' else 'r', a, n, sym, 'seq_cst' if order == 'rmw' else order, eng.where(st)[:120]))
        # a load can only return the initial content or a value some thread stores there
        init = cells_int(o.data[off:off + n])
        vals = set() if is_sym(init) else {init}
        unconstrained = is_sym(init)
        for (ca, cn), vs in self.cands.items():
            if ca < a + n and a < ca + cn:
                if (ca, cn) != (a, n) or vs is None:
                    unconstrained = True
                else:
                    vals |= vs
        if not unconstrained:
            st.pc.append(z3.Or([sym == v for v in sorted(vals)]))
        return int_cells(sym, n)

    def on_write(self, eng, st, o, off, cells, order):
        a = o.base + off; n = len(cells)
        if not self.is_shared(a, n):
            self._touch(st, o, True)
            return False
        v = cells_int(cells)
        key = (a, n)
        if is_sym(v):
            self.new_cands[key] = None
        elif self.new_cands.get(key, set()) is not None:
            self.new_cands.setdefault(key, set()).add(v)
        if self.collect:
            return False
        self._ev(st, Ev(st.ext.get('tid', 0), 'rmw-w' if order == 'rmw' else 'w', a, n, v, 'seq_cst' if order == 'rmw' else order, eng.where(st)[:120]))
        return not self.races_only

    def rmw_failed(self, eng, st):
        pass

    def foreign(self, st, a):
        """object at address a in the final memory of another thread's sequential run (pass A)"""
        for tid, s in self.seq_states.items():
            if tid != st.ext.get('tid', 0):
                o = s.find(a)
                if o is not None and o.base not in st.mem:
                    return o
        return None

    def on_assert(self, eng, st, c, msg):
        if self.collect:
            return
        if type(c) is int:
            cond = z3.BoolVal(bool(c))
        else:
            cond = to_bool(c) if z3.is_bool(c) or c.size() == 1 else simp(c != 0)
            if isinstance(cond, int):
                cond = z3.BoolVal(bool(cond))
        st.ext['asserts'] = st.ext.get('asserts', []) + [(cond, msg)]

    # ---- per-thread exploration
    def explore_thread(self, st, tid):
        # one time budget for the whole obligation (all threads, all passes), not one per thread exploration
        if getattr(self, 'deadline', None) is None:
            self.deadline = time.time() + self.timeout
        left = self.deadline - time.time()
        if left <= 0:
            raise EngineError('time budget of the obligation exhausted (%d s)' % self.timeout)
        eng = Engine(self.irm, timeout=left, max_steps=self.max_steps)
        eng.mt = self
        st.ext['tid'] = tid
        paths = []

        def on_end(e, s, pe):
            tp = ThreadPath(tid, s.ext.get('events', []), list(s.pc), s.ext.get('asserts', []), s.ext.get('spawns', []), s.ext.get('touched', {}), pe.kind)
            # a violation met on this thread path (memory error, failed library precondition, ...) counts only if the path is schedulable
            tp.viol = e.violations[-1] if pe.kind == 'violation' and e.violations else None
            if self.collect and pe.kind == 'return':
                self.seq_states[tid] = s
            paths.append(tp)
        eng.on_end = on_end
        eng.work.append(st)
        while eng.work:
            s = eng.work.pop()
            try:
                eng.run_path(s)
            except PathEnd as pe:
                on_end(eng, s, pe)
        self.stats['thread_paths'] += len(paths)
        if os.environ.get('IRSYM_MT_DEBUG'):
            import collections
            print('  [mt] thread %d (%s): %d paths %s, %d instr, events/path max %d' % (tid, 'collect' if self.collect else 'events', len(paths), dict(collections.Counter(p.end for p in paths)), eng.instrs, max([len(p.events) for p in paths] or [0])), file=sys.stderr, flush=True)
        return paths

    def run(self, entry, args=()):
        if self.races_only:
            self.new_cands = {}
            self._run(entry, args)
            return self
        # pass A: sequential semantics to learn which values are ever stored to shared bytes
        self.collect = True; self.new_cands = {}
        self._run(entry, args)
        self.collect = False
        for it in range(4):
            self.cands = {k: (None if v is None else set(v)) for k, v in self.new_cands.items()}
            self.violations = []; self.stats.update(thread_paths=0, combinations=0, queries=0, solver_s=0.0, events_max=0)
            self._run(entry, args)
            grown = any(k not in self.cands or (self.cands[k] is not None and (v is None or not set(v) <= self.cands[k])) for k, v in self.new_cands.items())
            if not grown:
                break
        else:
            raise EngineError('candidate value sets of shared locations did not stabilise')
        self.stats['candidate_iterations'] = it + 1
        return self

    def _run(self, entry, args=()):
        irm = self.irm
        eng0 = Engine(irm)
        st = eng0.new_state(); eng0.run_ctors(st)
        st.ext['own_from'] = st.next_addr
        eng0.push_frame(st, entry, list(args), None, None)
        main_paths = self.explore_thread(st, 0)
        t0 = time.time()
        for mp in main_paths:
            if mp.end not in ('return', 'exit'):
                continue
            children = []
            for (k, snap, stateobj) in mp.spawns:
                c = snap.fork()
                c.frames = []; c.ext['events'] = []; c.ext['asserts'] = []; c.ext['spawns'] = []; c.ext['touched'] = {}
                c.pc = list(snap.pc)
                # thread_local variables: the new thread gets its own, freshly initialised copies
                for gname, gobj in irm.gobj.items():
                    if gobj.kind == 'tls' and gobj.base in c.mem:
                        o = c.wobj(c.mem[gobj.base]); o.data = list(irm.base_state.mem[gobj.base].data)
                c.ext['own_from'] = c.next_addr
                c.next_addr += 0x10000000 * k
                vptr = cells_int(c.mem[c.find(stateobj).base].data[stateobj - c.find(stateobj).base:][:8])
                run_fn = irm.addr_fn[cells_int(c.find(vptr + 16).data[vptr + 16 - c.find(vptr + 16).base:][:8])]
                e = Engine(irm); e.push_frame(c, run_fn, [stateobj], None, None)
                children.append([p for p in self.explore_thread(c, k) if p.end == 'return' or getattr(p, 'viol', None) is not None])
            if self.collect:
                continue
            for combo in itertools.product(*children):
                self.stats['combinations'] += 1
                self.check_combo(mp, list(combo))
        self.stats['solver_s'] = round(self.stats['solver_s'], 3)
        return self

    # ---- the schedule query
    def check_combo(self, mp, kids):
        paths = [mp] + kids
        if self.races_only:
            for p in paths:
                keep = []; seen = set()
                for e in p.events:
                    k = (e.kind, e.addr, e.n, e.order)
                    if e.kind in ('r', 'w') and k in seen and not (e.kind == 'r' and e.val is not None):
                        continue          # between two synchronisation events only the first access of a kind to a location matters for hb
                    if e.kind not in ('r', 'w'):
                        seen = set()
                    else:
                        seen.add(k)
                    keep.append(e)
                p.events = keep
        if self.races_only:
            # sequential semantics: every thread runs the initialisation of a function-local static itself.  In a real execution
            # one thread does, and the guard orders it before every later access: accesses inside a guarded initialisation
            # (between the guard's lock and unlock) are therefore not candidates for a race
            for p in paths:
                inside = set()
                for e in p.events:
                    if e.kind == 'lock' and any(lo <= e.addr - 4 < hi for lo, hi in self.guards):
                        inside.add(e.addr)
                    elif e.kind == 'unlock' and e.addr in inside:
                        inside.discard(e.addr)
                    elif inside:
                        e.init = True
        evs = []
        for p in paths:
            for e in p.events:
                e.idx = len(evs); evs.append(e)
        n = len(evs); self.stats['events_max'] = max(self.stats['events_max'], n)
        clk = [z3.Int('c%d' % i) for i in range(n)]
        base = [z3.Distinct(*clk)] if n > 1 else []
        base += [c >= 1 for c in clk]
        for p in paths:
            base += p.pc
            for a, b in zip(p.events, p.events[1:]):
                base.append(clk[a.idx] < clk[b.idx])
        first = {p.tid: p.events[0] for p in paths if p.events}
        last = {p.tid: p.events[-1] for p in paths if p.events}
        hb_base = set()
        for p in paths:
            for i, a in enumerate(p.events):
                for b in p.events[i + 1:]:
                    hb_base.add((a.idx, b.idx))
        for e in mp.events:
            if e.kind == 'spawn' and e.aux in first:
                base.append(clk[e.idx] < clk[first[e.aux].idx]); hb_base.add((e.idx, first[e.aux].idx))
            if e.kind == 'join' and e.aux in last:
                base.append(clk[last[e.aux].idx] < clk[e.idx]); hb_base.add((last[e.aux].idx, e.idx))
        # locks: critical sections of one mutex do not overlap
        sections = {}
        for p in paths:
            open_ = {}
            for e in p.events:
                if e.kind == 'lock':
                    open_[e.addr] = e
                elif e.kind == 'unlock' and e.addr in open_:
                    sections.setdefault(e.addr, []).append((open_.pop(e.addr), e))
            # a path that ends (e.g. in a violation) while it holds a lock never releases it
            for addr_, l_ in open_.items():
                sections.setdefault(addr_, []).append((l_, None))
        sw = []      # (cond, a, b): synchronises-with edges that depend on the schedule
        for m, secs in sections.items():
            for (l1, u1), (l2, u2) in itertools.combinations(secs, 2):
                if l1.tid == l2.tid:
                    continue
                if u1 is None or u2 is None:          # a lock that is never released: every other section of the mutex lies before it
                    if u1 is None and u2 is None:
                        base.append(z3.BoolVal(False))
                    elif u1 is None:
                        base.append(clk[u2.idx] < clk[l1.idx]); sw.append((z3.BoolVal(True), u2.idx, l1.idx))
                    else:
                        base.append(clk[u1.idx] < clk[l2.idx]); sw.append((z3.BoolVal(True), u1.idx, l2.idx))
                    continue
                base.append(z3.Or(clk[u1.idx] < clk[l2.idx], clk[u2.idx] < clk[l1.idx]))
                sw.append((clk[u1.idx] < clk[l2.idx], u1.idx, l2.idx)); sw.append((clk[u2.idx] < clk[l1.idx], u2.idx, l1.idx))
        # reads-from
        reads = [e for e in evs if e.kind in ('r', 'rmw-r') and e.val is not None]
        writes = [e for e in evs if e.kind in ('w', 'rmw-w')]
        for r in reads:
            cands = [w for w in writes if w.addr < r.addr + r.n and r.addr < w.addr + w.n]
            for w in cands:
                if (w.addr, w.n) != (r.addr, r.n):
                    raise EngineError('mixed-size accesses to shared bytes: %r / %r' % (r, w))
            init = self.initial_value(mp, r)
            opts = []
            for w in cands:
                if w.tid == r.tid and w.idx > r.idx and True:
                    pass
                rf = z3.And([clk[w.idx] < clk[r.idx]] + [z3.Or(clk[w2.idx] < clk[w.idx], clk[r.idx] < clk[w2.idx]) for w2 in cands if w2 is not w])
                opts.append(z3.And(rf, r.val == bvv(w.val, 8 * r.n)))
                if w.order in REL and r.order in ACQ:
                    sw.append((rf, w.idx, r.idx))
            opts.append(z3.And([clk[r.idx] < clk[w.idx] for w in cands] + [r.val == init]))
            base.append(z3.Or(opts))
        # an atomic read-modify-write is not interleaved with another write to its location
        for r in reads:
            if r.kind == 'rmw-r':
                w = next((x for x in evs[r.idx + 1:] if x.tid == r.tid and x.kind == 'rmw-w' and x.addr == r.addr), None)
                if w is not None:
                    for w2 in writes:
                        if w2 is not w and w2.addr == r.addr:
                            base.append(z3.Or(clk[w2.idx] < clk[r.idx], clk[w.idx] < clk[w2.idx]))
        s = z3.Solver(); s.set('timeout', 120000)
        s.add(base)
        t0 = time.time()
        feasible = s.check(); self.stats['queries'] += 1
        if feasible != z3.sat:
            self.stats['solver_s'] += time.time() - t0
            return
        for p in paths:
            if getattr(p, 'viol', None) is not None:
                self.report(s.model(), evs, clk, p.viol.kind, '%s (thread %d, %s)' % (p.viol.msg, p.tid, p.viol.where[:100]), mp)
        # 1. assertions
        for p in ([] if self.races_only else paths):
            for (cond, msg) in p.asserts:
                s.push(); s.add(z3.Not(cond)); r = s.check(); self.stats['queries'] += 1
                if r == z3.sat:
                    self.report(s.model(), evs, clk, 'assert', msg, mp)
                elif r == z3.unknown:
                    raise EngineError('schedule query: unknown')
                s.pop()
        # 2. data races: hb is any transitive relation containing the base edges; a race = conflicting pair unordered by every such relation
        conf = []
        for a, b in itertools.combinations(evs, 2):
            if a.tid != b.tid and a.kind in ('r', 'w', 'rmw-r', 'rmw-w') and b.kind in ('r', 'w', 'rmw-r', 'rmw-w') and a.addr < b.addr + b.n and b.addr < a.addr + a.n \
                    and ('w' in (a.kind[-1], b.kind[-1])) and (a.order is None or b.order is None) and not getattr(a, 'init', False) and not getattr(b, 'init', False):
                conf.append((a, b))
        if conf:
            hb = [[z3.Bool('hb_%d_%d' % (i, j)) for j in range(n)] for i in range(n)]
            cons = [hb[i][j] for (i, j) in hb_base]
            for (c, i, j) in sw:
                cons.append(z3.Implies(c, hb[i][j]))
            for i in range(n):
                for j in range(n):
                    if i == j:
                        continue
                    for k in range(n):
                        if k != i and k != j:
                            cons.append(z3.Implies(z3.And(hb[i][k], hb[k][j]), hb[i][j]))
            s.push(); s.add(cons)
            seen = set()
            for a, b in conf:
                key = (a.where, b.where, a.addr)
                if key in seen:
                    continue
                s.push(); s.add(z3.Not(hb[a.idx][b.idx]), z3.Not(hb[b.idx][a.idx])); r = s.check(); self.stats['queries'] += 1
                if r == z3.sat:
                    seen.add(key)
                    self.report(s.model(), evs, clk, 'data-race', 'data race on %s: %s by thread %d (%s) and %s by thread %d (%s) are not ordered by happens-before' %
                                (self.addr_name(mp, a.addr), 'write' if a.kind[-1] == 'w' else 'read', a.tid, 'atomic' if a.order else 'non-atomic',
                                 'write' if b.kind[-1] == 'w' else 'read', b.tid, 'atomic' if b.order else 'non-atomic'), mp, pair=(a, b))
                s.pop()
            s.pop()
        # 3. undeclared sharing
        for p1, p2 in itertools.combinations(paths, 2):
            for base_, mode in p1.touched.items():
                m2 = p2.touched.get(base_, 0)
                if m2 and max(mode, m2) == 2:
                    self.violations.append(dict(kind='undeclared-shared', msg='object 0x%x is accessed by threads %d and %d (at least one write) but was not declared shared' % (base_, p1.tid, p2.tid),
                                                model={}, where='', schedule=[]))
        self.stats['solver_s'] += time.time() - t0

    def initial_value(self, mp, r):
        st0 = self.init_state
        o = st0.find(r.addr)
        cells = o.data[r.addr - o.base:r.addr - o.base + r.n]
        return bvv(cells_int(cells), 8 * r.n)

    def addr_name(self, mp, a):
        o = self.init_state.find(a)
        return '%s+%d' % (o.name or hex(o.base), a - o.base) if o is not None else hex(a)

    def report(self, model, evs, clk, kind, msg, mp, pair=None):
        order = sorted(evs, key=lambda e: model.eval(clk[e.idx], model_completion=True).as_long())
        sched = []
        for e in order:
            v = ''
            if e.val is not None:
                mv = model.eval(bvv(e.val, 8 * max(e.n, 1)), model_completion=True) if is_sym(e.val) else e.val
                v = '=%s' % (mv.as_long() if hasattr(mv, 'as_long') else mv)
            sched.append('T%d %s %s%s%s%s' % (e.tid, e.kind, self.addr_name(mp, e.addr) if e.addr else (('thread %s' % e.aux) if e.aux is not None else ''), v, (' [' + e.order + ']') if e.order else '',
                                               '   <-- ' if pair and e in pair else ''))
        key = (kind, msg)
        if key not in [(v['kind'], v['msg']) for v in self.violations]:
            self.violations.append(dict(kind=kind, msg=msg, model={}, where=pair[0].where + ' | ' + pair[1].where if pair else '', schedule=sched))


# ---- thread / mutex primitives in event mode ---------------------------------------------------
def _mt(eng):
    return eng.mt


def _mutex_ev(kind):
    def f(eng, st, a):
        if eng.mt is not None:
            eng.mt._ev(st, Ev(st.ext.get('tid', 0), kind, a[0], 0, None, None, eng.where(st)[:120]))
        return 0
    return f


# thread-safe initialisation of function-local statics ([stmt.dcl]/4, Itanium ABI 3.3.2): the guard byte is read with acquire
# semantics; an unset guard is acquired under a lock that is held until __cxa_guard_release() stores 1 with release semantics
_seq_guard_acq = EXTERNALS['__cxa_guard_acquire']; _seq_guard_rel = EXTERNALS['__cxa_guard_release']


def x_mt_guard_acquire(eng, st, a):
    if eng.mt is None or not isinstance(eng.mt, MT) or eng.mt.collect:
        return _seq_guard_acq(eng, st, a)
    g = a[0]; key = ('guard-acq', g)
    b = st.ext.get(key)
    if b is None:                 # (the instruction is re-executed by the forked side of decide(): emit the events once)
        eng.mt._ev(st, Ev(st.ext.get('tid', 0), 'lock', g + 4, 0, None, None, eng.where(st)[:120]))
        b = eng.mem_read(st, g, 1, 'acquire')[0]
        st.ext[key] = b
    e = b if isinstance(b, int) else (b[0] if b[0].size() == 8 else z3.Extract(8 * b[1] + 7, 8 * b[1], b[0]))
    unset = (e == 0) if isinstance(e, int) else eng.decide(st, e == 0)
    st.ext.pop(key, None)
    if unset:
        return 1
    eng.mt._ev(st, Ev(st.ext.get('tid', 0), 'unlock', g + 4, 0, None, None, eng.where(st)[:120]))
    return 0


def x_mt_guard_release(eng, st, a):
    if eng.mt is None or not isinstance(eng.mt, MT) or eng.mt.collect:
        return _seq_guard_rel(eng, st, a)
    eng.mem_write(st, a[0], [1], 'release')
    eng.mt._ev(st, Ev(st.ext.get('tid', 0), 'unlock', a[0] + 4, 0, None, None, eng.where(st)[:120]))


EXTERNALS['__cxa_guard_acquire'] = x_mt_guard_acquire; EXTERNALS['__cxa_guard_release'] = x_mt_guard_release
EXTERNALS['pthread_mutex_lock'] = _mutex_ev('lock')
EXTERNALS['pthread_mutex_unlock'] = _mutex_ev('unlock')


@ext('_ZNSt6thread15_M_start_threadESt10unique_ptrINS_6_StateESt14default_deleteIS1_EEPFvvE')
def x_start_thread(eng, st, a):
    if eng.mt is None:
        raise EngineError('std::thread started outside E2-mt')
    state_ptr = cells_int(eng.mem_read(st, a[1], 8))          # unique_ptr<_State> passed by reference
    k = eng.mt.nthreads; eng.mt.nthreads += 1
    k = len(st.ext.get('spawns', [])) + 1
    snap = st.fork()
    st.ext['spawns'] = st.ext.get('spawns', []) + [(k, snap, state_ptr)]
    eng.mt._ev(st, Ev(st.ext.get('tid', 0), 'spawn', 0, 0, None, None, eng.where(st)[:120], aux=k))
    # the new thread owns the state object now
    st2 = st
    o, off = eng.resolve(st2, a[1], 8, True)
    o = st2.wobj(o); o.data[off:off + 8] = int_cells(0, 8)
    # std::thread::id of the new thread (an ordinary store of the spawning thread: an event if the std::thread object lives in
    # memory that is declared shared)
    eng.mem_write(st2, a[0], int_cells(k, 8))
    o, off = eng.resolve(st2, a[0], 8, True)
    o = st2.wobj(o); o.data[off:off + 8] = int_cells(k, 8)        # join()/detach() of the models read the id from here


@ext('_ZNSt6thread4joinEv')
def x_thread_join(eng, st, a):
    o, off = eng.resolve(st, a[0], 8, False)
    k = cells_int(o.data[off:off + 8])
    if k == 0:
        eng.throw_std(st, '_ZTISt12system_error', 'join on a non-joinable thread')
    eng.mt._ev(st, Ev(st.ext.get('tid', 0), 'join', 0, 0, None, None, eng.where(st)[:120], aux=k))
    eng.mem_write(st, a[0], int_cells(0, 8))                     # the id is reset by an ordinary store of the calling thread
    o, off = eng.resolve(st, a[0], 8, True)
    o = st.wobj(o); o.data[off:off + 8] = int_cells(0, 8)


@ext('_ZNSt6thread6detachEv')
def x_thread_detach(eng, st, a):
    # the thread keeps running on its own: no ordering event, the std::thread object stops being joinable
    o, off = eng.resolve(st, a[0], 8, False)
    k = cells_int(o.data[off:off + 8])
    if k == 0:
        eng.throw_std(st, '_ZTISt12system_error', 'detach on a non-joinable thread')
    eng.mem_write(st, a[0], int_cells(0, 8))
    o, off = eng.resolve(st, a[0], 8, True)
    o = st.wobj(o); o.data[off:off + 8] = int_cells(0, 8)


@ext('_ZNSt6thread6_StateD2Ev', '_ZNSt6thread6_StateD1Ev', '_ZNSt6thread6_StateD0Ev')
def x_thread_state_dtor(eng, st, a):
    return 0


@ext('_ZNSt6thread20hardware_concurrencyEv')
def x_hw_conc(eng, st, a):
    return 16


@ext('vs_mt_shared')
def x_vs_mt_shared(eng, st, a):
    if eng.mt is not None:
        eng.mt.shared.append((a[0], a[0] + a[1]))
        if not hasattr(eng.mt, 'init_state') or True:
            eng.mt.init_state = st.fork()
