#ifndef RT_H
#define RT_H
#include <stdint.h>
#include <stddef.h>
#include <string.h>
#include <stdlib.h>
typedef _Bool u1;
typedef unsigned __int128 u128;
typedef __int128 s128;
#ifdef __CPROVER__
#define RT_ASSERT(c, msg) __CPROVER_assert(c, msg)
#define RT_ASSUME(c) __CPROVER_assume(c)
#else
#include <stdio.h>
#define RT_ASSERT(c, msg) do { if (!(c)) { fprintf(stderr, "RT_ASSERT failed: %s\n", msg); abort(); } } while (0)
#define RT_ASSUME(c) do { if (!(c)) { exit(77); } } while (0)
#define __CPROVER_atomic_begin()
#define __CPROVER_atomic_end()
#endif
#define RT_UNREACHABLE() do { RT_ASSERT(0, "IR unreachable reached"); RT_ASSUME(0); } while (0)
#define RT_TRAP() do { RT_ASSERT(0, "llvm.trap"); RT_ASSUME(0); } while (0)
#define RT_BITCAST(to, from, v) (((union { from a; to b; }){ .a = (v) }).b)
extern int rt_exc_pending; extern void* rt_exc_obj; extern void* rt_exc_type;
int rt_subtype(void* thrown, void* clause);
static inline double rt_bits2double(uint64_t b) { union { uint64_t u; double d; } x; x.u = b; return x.d; }
#ifdef RT_LOOPMEM
static inline void rt_memcpy(void* d, void* s, uint64_t n) { for (uint64_t i = 0; i < n; i++) ((uint8_t*)d)[i] = ((uint8_t*)s)[i]; }
static inline void rt_memmove(void* d, void* s, uint64_t n) {
  if ((uintptr_t)d <= (uintptr_t)s) { for (uint64_t i = 0; i < n; i++) ((uint8_t*)d)[i] = ((uint8_t*)s)[i]; }
  else { for (uint64_t i = n; i > 0; i--) ((uint8_t*)d)[i-1] = ((uint8_t*)s)[i-1]; } }
static inline void rt_memset(void* d, uint8_t c, uint64_t n) { for (uint64_t i = 0; i < n; i++) ((uint8_t*)d)[i] = c; }
#else
static inline void rt_memcpy(void* d, void* s, uint64_t n) { if (n) memcpy(d, s, n); }
static inline void rt_memmove(void* d, void* s, uint64_t n) { if (n) memmove(d, s, n); }
static inline void rt_memset(void* d, uint8_t c, uint64_t n) { if (n) memset(d, c, n); }
#endif
uint32_t rt_landing(int n, ...);
void rt_resume(void* obj);
uint32_t rt_typeid_for(void* ti);
#endif
