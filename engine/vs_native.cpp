#include <sys/syscall.h>
#include <unistd.h>
#include <sys/stat.h>
// native implementation of the E2 harness API: values come from "name v v v ..." lines on stdin.
#include "vs.h"
#include <cstdio>
#include <cstdlib>
#include <cstring>
#include <map>
#include <string>
#include <vector>
#include <dlfcn.h>
#include <chrono>
#include <time.h>
static std::map<std::string, std::vector<uint64_t>> vals; static std::map<std::string, size_t> pos;
static int failed;
static uint64_t next(const char* name) {
   auto& v = vals[name ? name : "v"]; size_t& p = pos[name ? name : "v"];
   return p < v.size() ? v[p++] : 0;
}
extern "C" {
void vs_sym(void* p, unsigned long n, const char* name) { for (unsigned long i = 0; i < n; ++i) static_cast<unsigned char*>(p)[i] = (unsigned char) next(name ? name : "in"); }
uint8_t vs_u8(const char* n) { return (uint8_t) next(n); }
uint16_t vs_u16(const char* n) { return (uint16_t) next(n); }
uint32_t vs_u32(const char* n) { return (uint32_t) next(n); }
uint64_t vs_u64(const char* n) { return next(n); }
void vs_assume(int c) { if (!c) { printf("SKIP\n"); fflush(stdout); _Exit(0); } }
void vs_assert(int c, const char* msg) { if (!c) { failed = 1; printf("FAIL %s\n", msg); fflush(stdout); } }
uint32_t vs_choose(uint32_t n) { uint32_t v = (uint32_t) next("choose"); return n ? v % n : 0; }
void vs_setenv(const char* n, const char* v) { setenv(n, v, 1); }
void vs_file(const char* path, const char* data, unsigned long len) {
   // create the directories of the path, then the file
   char buf[512]; snprintf(buf, sizeof buf, "%s", path);
   for (char* p = buf + 1; *p; ++p) if (*p == '/') { *p = 0; mkdir(buf, 0700); *p = '/'; }
   FILE* f = fopen(path, "wb"); if (f) { fwrite(data, 1, len, f); fclose(f); }
}
static unsigned long long vs_clock_override = 0;
void vs_setclock(uint64_t ns) { vs_clock_override = ns; }
static int vs_pid_override = 0;
void vs_setpid(int pid) { vs_pid_override = pid; }
// getpid() of the harness and of the library sources linked into this binary; the real one unless vs_setpid() was called
pid_t getpid(void) { return vs_pid_override ? (pid_t) vs_pid_override : (pid_t) syscall(SYS_getpid); }
void vs_note(const char* w, uint64_t v) { printf("NOTE %s %llu\n", w, (unsigned long long) v); }
}
int main(int argc, char** argv) {
   if (argc < 2) return 2;
   char line[1 << 16];
   while (fgets(line, sizeof line, stdin)) {
      char* save; char* nm = strtok_r(line, " \n", &save); if (!nm) continue;
      if (nm[0] == '@') {       // @global hexbytes : preset a global buffer of the wrapper TU
         char* hex = strtok_r(nullptr, " \n", &save); unsigned char* g = (unsigned char*) dlsym(RTLD_DEFAULT, nm + 1);
         if (g && hex) for (size_t i = 0; hex[2 * i] && hex[2 * i + 1]; ++i) { unsigned v; sscanf(hex + 2 * i, "%2x", &v); g[i] = (unsigned char) v; }
         continue;
      }
      auto& v = vals[nm]; char* t;
      while ((t = strtok_r(nullptr, " \n", &save))) v.push_back(strtoull(t, nullptr, 0));
   }
   void* sym = dlsym(RTLD_DEFAULT, argv[1]);
   if (!sym) { printf("UNKNOWN %s\n", argv[1]); return 2; }
   uint64_t a[6] = {0};
   for (int i = 2; i < argc && i < 8; ++i) a[i - 2] = strtoull(argv[i], nullptr, 0);
   reinterpret_cast<void (*)(uint64_t, uint64_t, uint64_t, uint64_t, uint64_t, uint64_t)>(sym)(a[0], a[1], a[2], a[3], a[4], a[5]);
   printf(failed ? "FAILED\n" : "OK\n");
   return failed;
}

// system_clock::now() of the harness and of the library sources linked into this binary: the instant set with vs_setclock(),
// the real clock otherwise
std::chrono::system_clock::time_point std::chrono::system_clock::now() noexcept {
   if (vs_clock_override) return time_point(duration(std::chrono::nanoseconds(vs_clock_override)));
   timespec ts; clock_gettime(CLOCK_REALTIME, &ts);
   return time_point(duration(std::chrono::seconds(ts.tv_sec) + std::chrono::nanoseconds(ts.tv_nsec)));
}
