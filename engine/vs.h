// Harness API for E2 (irsym).  In the symbolic run these are engine intrinsics; in the native
// (validation / replay) build they are implemented by vs_native.cpp from a recorded vector.
#pragma once
#include <cstddef>
#include <cstdint>
extern "C" {
void vs_sym(void* p, unsigned long n, const char* name);   // n fresh symbolic bytes
uint8_t vs_u8(const char* name);
uint16_t vs_u16(const char* name);
uint32_t vs_u32(const char* name);
uint64_t vs_u64(const char* name);
void vs_assume(int cond);
void vs_assert(int cond, const char* msg);
uint32_t vs_choose(uint32_t n);                             // fork: returns 0..n-1
void vs_setenv(const char* name, const char* value);          // environment variable visible to getenv()
void vs_file(const char* path, const char* data, unsigned long len);   // a readable file with this content (model file table / real file in the native build)
void vs_setpid(int pid);                                    // the process continues as another process (as after fork()): getpid() returns pid from now on
void vs_setclock(uint64_t nanoseconds_since_epoch);         // std::chrono::system_clock::now() returns this instant from now on
void vs_note(const char* what, uint64_t value);             // observable (compared natively vs symbolic-concrete)
}
#define HX extern "C" __attribute__((noinline))
