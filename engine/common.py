"""Shared driver code: IR build, E1 (ll2c + CBMC) runner, native validation/replay,
known findings, evidence.  Everything is rebuilt from /repo's working tree on every run."""
import os, sys, subprocess, json, time, resource, re, shutil, random, concurrent.futures, threading

VERIF = os.path.dirname(os.path.dirname(os.path.abspath(__file__)))
REPO = os.environ.get('VERIF_REPO', '/repo')
WORK = os.environ.get('VERIF_WORK') or os.path.join(VERIF, '.work')
ENGINE = os.path.join(VERIF, 'engine')
GUARD = 'CELMA_VERIF'
NCPU = int(os.environ.get('VERIF_JOBS', '0')) or os.cpu_count() or 4
SEED = int(os.environ.get('VERIF_SEED', '1') or 1)

CLANG_IR = ['clang++-14', '-std=c++17', '-O1', '-D_GLIBCXX_ASSERTIONS', '-DNDEBUG', '-D' + GUARD,
            '-fno-vectorize', '-fno-slp-vectorize', '-fno-unroll-loops',
            '-I' + REPO + '/src', '-w', '-S', '-emit-llvm']
GXX_NATIVE = ['g++', '-std=c++17', '-O1', '-g', '-D_GLIBCXX_ASSERTIONS', '-DNDEBUG', '-D' + GUARD, '-I' + REPO + '/src', '-w']
SAN = ['-fsanitize=address,undefined', '-fno-sanitize-recover=undefined', '-fno-omit-frame-pointer']

CBMC_FLAGS = ['--unwinding-assertions', '--pointer-overflow-check', '--undefined-shift-check',
              '--signed-overflow-check', '--drop-unused-functions', '--no-standard-checks',
              '--bounds-check', '--pointer-check', '--div-by-zero-check', '--malloc-may-fail',
              ]
# NB: allocation failure is outside every claim: harness allocations go through vh_alloc /
# rt_alloc which assume a non-NULL result.


class Inconclusive(Exception):
    pass


def workdir(*parts):
    d = os.path.join(WORK, *parts)
    os.makedirs(d, exist_ok=True)
    return d


def run(cmd, timeout=None, mem_gb=None, cwd=None, stdin=None, env=None):
    """run a command under a wall-clock and address-space limit; returns dict"""
    def pre():
        if mem_gb:
            lim = int(mem_gb * (1 << 30))
            resource.setrlimit(resource.RLIMIT_AS, (lim, lim))
        os.setsid()
    t0 = time.time()
    p = subprocess.Popen(cmd, cwd=cwd, stdin=subprocess.PIPE if stdin is not None else subprocess.DEVNULL,
                         stdout=subprocess.PIPE, stderr=subprocess.PIPE, preexec_fn=pre, env=env)
    timed_out = False
    try:
        out, err = p.communicate(stdin.encode() if isinstance(stdin, str) else stdin, timeout=timeout)
    except subprocess.TimeoutExpired:
        timed_out = True
        try:
            os.killpg(p.pid, 9)
        except ProcessLookupError:
            pass
        out, err = p.communicate()
    return dict(rc=p.returncode, out=out.decode('utf-8', 'replace'), err=err.decode('utf-8', 'replace'),
                wall=time.time() - t0, timed_out=timed_out)


def must(r, what):
    if r['rc'] != 0 or r['timed_out']:
        raise RuntimeError('%s failed (rc=%s timeout=%s)\n%s\n%s' % (what, r['rc'], r['timed_out'], r['out'][-4000:], r['err'][-4000:]))
    return r


def compile_ir(src, out, extra=()):
    must(run(CLANG_IR + list(extra) + [src, '-o', out], timeout=600), 'clang IR ' + src)
    return out


def link_ir(lls, out):
    if len(lls) == 1:
        shutil.copy(lls[0], out)
    else:
        must(run(['llvm-link-14', '-S'] + list(lls) + ['-o', out], timeout=600), 'llvm-link')
    return out


_ll2c_lock = threading.Lock()


def to_c(ll, out_c, roots, stubs=()):
    with _ll2c_lock:
        return _to_c(ll, out_c, roots, stubs)


def _to_c(ll, out_c, roots, stubs=()):
    sys.path.insert(0, ENGINE)
    import ll2c
    ll2c.AUTOSTUBS_TEXT[0] = ''
    mod = ll2c.emit(open(ll).read(), list(roots), list(stubs), out_c)
    # prototypes of the roots with object pointers as void* (for native builds of the harness)
    protos = []
    for r in roots:
        f = mod.funcs.get(r) or mod.decls.get(r)
        if f is None:
            raise RuntimeError('root %s not in IR' % r)

        def ct(t):
            return 'void*' if isinstance(t, ll2c.TPtr) else mod.ctype(t)
        ps = ', '.join(ct(t) for (t, nm, a) in f.params) or 'void'
        protos.append('%s %s(%s);' % (ct(f.ret), r, ps))
    with open(re.sub(r'\.c$', '', out_c) + '_protos.h', 'w') as fh:
        fh.write('#include <stdint.h>\ntypedef _Bool u1;\n' + '\n'.join(protos) + '\n')
    # the functions actually translated (for the evidence file)
    fseen, _ = ll2c.reachable(mod, roots)
    return sorted(n for n in fseen if n in mod.funcs)


def demangle(names):
    if not names:
        return []
    r = run(['c++filt'], stdin='\n'.join(names) + '\n', timeout=60)
    return r['out'].split('\n')[:len(names)] if r['rc'] == 0 else list(names)


# ------------------------------------------------------------------------------------------
# CBMC
# ------------------------------------------------------------------------------------------
def cbmc(harness_c, function, unwind, defines=(), includes=(), solver=None, timeout=600, mem_gb=12,
         unwindset=(), object_bits=None, extra=()):
    """returns dict(status in {'holds','fails','inconclusive'}, failed=[{name,desc,line}], vin={k:v}, wall, log)"""
    cmd = ['cbmc', harness_c, '--function', function, '--unwind', str(unwind), '--json-ui', '--trace'] + CBMC_FLAGS
    for d in defines:
        cmd.append('-D' + d)
    for i in list(includes) + [ENGINE]:
        cmd += ['-I', i]
    if unwindset:
        cmd += ['--unwindset', ','.join(unwindset)]
    if object_bits:
        cmd += ['--object-bits', str(object_bits)]
    if solver == 'kissat':
        cmd += ['--external-sat-solver', 'kissat']
    elif solver == 'cadical':
        cmd += ['--sat-solver', 'cadical']
    cmd += list(extra)
    r = run(cmd, timeout=timeout, mem_gb=mem_gb)
    res = dict(status='inconclusive', failed=[], vin={}, wall=r['wall'], cmd=' '.join(cmd), nprops=0, reason='')
    if r['timed_out']:
        res['reason'] = 'timeout after %ds' % timeout
        return res
    try:
        js = json.loads(r['out'])
    except Exception:
        res['reason'] = 'no JSON from cbmc (rc=%s): %s %s' % (r['rc'], r['out'][-500:], r['err'][-500:])
        return res
    results = None
    msgs = []
    for item in js:
        if 'result' in item:
            results = item['result']
        if 'messageText' in item:
            msgs.append(item['messageText'])
        if 'cProverStatus' in item:
            res['cprover'] = item['cProverStatus']
    if results is None:
        res['reason'] = 'cbmc gave no result: ' + ' | '.join(msgs[-6:])
        return res
    res['nprops'] = len(results)
    nobody = [m for m in msgs if 'no body for' in m]
    if nobody:
        res['reason'] = 'missing function body: ' + '; '.join(nobody[:5])
        return res
    for pr in results:
        if pr.get('status') == 'FAILURE':
            f = dict(name=pr.get('property'), desc=pr.get('description'),
                     line=(pr.get('sourceLocation') or {}).get('line'))
            res['failed'].append(f)
            if not res['vin'] and 'trace' in pr:
                vin = {}
                for st in pr['trace']:
                    if st.get('stepType') == 'assignment':
                        lhs = st.get('lhs', '')
                        m = re.fullmatch(r'vin\[(\d+)l?\]', lhs)
                        if m and 'value' in st:
                            v = st['value']
                            if 'data' in v:
                                try:
                                    vin[int(m.group(1))] = int(re.sub(r'[a-zA-Z]+$', '', v['data'])) & ((1 << 64) - 1)
                                except ValueError:
                                    pass
                res['vin'] = vin
                res['vin_for'] = f['name']
    res['status'] = 'fails' if res['failed'] else 'holds'
    return res


class Job:
    """one solver obligation: a harness function of a generated C file"""
    def __init__(self, hid, harness_c, function, unwind, defines=(), solver=None, timeout=600, mem_gb=12,
                 object_bits=None, includes=(), bounds=None, witness=True, sweep=None):
        self.hid = hid; self.harness_c = harness_c; self.function = function; self.unwind = unwind
        self.defines = list(defines); self.solver = solver; self.timeout = timeout; self.mem_gb = mem_gb
        self.object_bits = object_bits; self.includes = list(includes); self.bounds = bounds or {}
        self.witness = witness; self.sweep = sweep


def run_job(job):
    """main query + witness twin.  Returns dict."""
    out = dict(hid=job.hid, function=job.function, bounds=job.bounds, unwind=job.unwind)
    kw = dict(unwind=job.unwind, includes=job.includes, timeout=job.timeout, mem_gb=job.mem_gb,
              object_bits=job.object_bits)
    solvers = job.sweep or [job.solver]
    r = None
    for sv in solvers:
        r = cbmc(job.harness_c, job.function, defines=job.defines, solver=sv, **kw)
        out['solver'] = sv or 'minisat'
        if r['status'] != 'inconclusive':
            break
    out.update(status=r['status'], failed=r['failed'], vin=r['vin'], wall=r['wall'], nprops=r['nprops'],
               reason=r['reason'])
    if job.witness and r['status'] == 'holds':
        w = cbmc(job.harness_c, job.function, defines=job.defines + ['WITNESS'], solver=out['solver'] if out['solver'] != 'minisat' else None, **kw)
        out['wall'] += w['wall']
        wit = [f for f in w['failed'] if (f['desc'] or '').startswith('WITNESS')]
        other = [f for f in w['failed'] if not (f['desc'] or '').startswith('WITNESS')]
        if w['status'] == 'inconclusive':
            out['status'] = 'inconclusive'; out['reason'] = 'witness run: ' + w['reason']
        elif not wit or other:
            out['status'] = 'inconclusive'; out['reason'] = 'vacuous: witness assertion not reachable'
        out['witness_reached'] = bool(wit)
    return out


def pmap(fn, items, workers=None):
    workers = workers or NCPU
    res = [None] * len(items)
    with concurrent.futures.ThreadPoolExecutor(max_workers=workers) as ex:
        futs = {ex.submit(fn, it): i for i, it in enumerate(items)}
        for f in concurrent.futures.as_completed(futs):
            res[futs[f]] = f.result()
    return res


# ------------------------------------------------------------------------------------------
# native builds of the harness: validation of the translator and replay of counterexamples
# ------------------------------------------------------------------------------------------
def build_native_generated(harness_c, gen_dir, out, defines=()):
    """gcc build of harness + generated C (harness #includes the generated C under VH_GENERATED)"""
    cmd = ['gcc', '-O1', '-w', '-DVH_GENERATED', '-DRT_LOOPMEM', '-I', ENGINE, '-I', gen_dir] + ['-D' + d for d in defines] + \
          [harness_c, os.path.join(ENGINE, 'harness_main.c'), '-o', out]
    must(run(cmd, timeout=600), 'gcc generated')
    return out


def build_native_real(harness_c, wrapper_cpp, gen_dir, out, defines=(), san=True, extra_srcs=(), cxxflags=()):
    """g++ build of the real sources (+ wrapper) linked with the C harness"""
    d = os.path.dirname(out)
    objs = []
    flags = SAN if san else []
    ho = out + '.h.o'
    must(run(['gcc', '-O1', '-g', '-w', '-c', '-I', ENGINE, '-I', gen_dir] + flags + ['-D' + x for x in defines] +
             [harness_c, '-o', ho], timeout=600), 'gcc harness')
    mo = out + '.m.o'
    must(run(['gcc', '-O1', '-g', '-w', '-c', '-I', ENGINE] + flags + [os.path.join(ENGINE, 'harness_main.c'), '-o', mo], timeout=600), 'gcc main')
    objs = [ho, mo]
    for k, s in enumerate([wrapper_cpp] + list(extra_srcs)):
        o = '%s.%d.o' % (out, k)
        must(run(GXX_NATIVE + flags + list(cxxflags) + ['-D' + x for x in defines] + ['-c', s, '-o', o], timeout=900), 'g++ ' + s)
        objs.append(o)
    must(run(['g++'] + flags + objs + ['-o', out], timeout=600), 'link native')
    return out


def run_vectors(binary, vectors, timeout=120, quiet=False):
    """vectors: list of (harness, [ints]) -> list of output lines"""
    inp = ''.join('%s %s\n' % (h, ' '.join(str(v) for v in vs)) for h, vs in vectors)
    env = dict(os.environ, ASAN_OPTIONS='detect_leaks=0:abort_on_error=0:exitcode=66', UBSAN_OPTIONS='print_stacktrace=1:halt_on_error=1:exitcode=67')
    r = run([binary] + (['-q'] if quiet else []), stdin=inp, timeout=timeout, env=env)
    return r


# ------------------------------------------------------------------------------------------
# known findings
# ------------------------------------------------------------------------------------------
def load_known(prop):
    path = os.path.join(VERIF, 'known_findings.jsonl')
    known, fixed = {}, {}
    if os.path.exists(path):
        for ln in open(path):
            ln = ln.strip()
            if not ln or ln.startswith('#'):
                continue
            e = json.loads(ln)
            if e.get('property') != prop:
                continue
            (fixed if e.get('status') == 'fixed' else known)[e['key']] = e
    return known, fixed


class Report:
    """collects per-obligation results, prints the interface lines, writes the evidence"""
    def __init__(self, prop, tier, level='model_checking'):
        self.prop = prop; self.tier = tier; self.level = level
        self.t0 = time.time()
        self.known, self.fixed = load_known(prop)
        self.violations = []      # (key, what, replay)
        self.known_hits = []
        self.inconclusive = []
        self.obligations = []     # dict per solver obligation
        self.assumptions = []
        self.extra = {}
        self.samples = []
        self.lock = threading.Lock()

    def violation(self, key, what, replay):
        with self.lock:
            if key in self.known:
                if key not in [k for k, _ in self.known_hits]:
                    self.known_hits.append((key, self.known[key].get('what', what)))
            else:
                self.violations.append((key, what, replay))

    def inconc(self, hid, reason):
        with self.lock:
            self.inconclusive.append((hid, reason))

    def finish(self, rule, explanation=''):
        wall = time.time() - self.t0
        n_ob = len(self.obligations)
        decided = [o for o in self.obligations if o.get('status') in ('holds', 'fails')]
        nontrivial = len(set(o['hid'] for o in decided if o.get('witness_reached', True)))
        cov = dict(evaluations=max(n_ob, 1), distinct_nontrivial=nontrivial, rule=rule,
                   samples=self.samples[:12] or [o['hid'] for o in self.obligations[:12]],
                   queries_discharged=len(decided), queries_inconclusive=len(self.inconclusive),
                   solver_wall_s=round(sum(o.get('wall', 0) for o in self.obligations), 2),
                   obligation_list=[{k: o.get(k) for k in ('hid', 'status', 'bounds', 'unwind', 'solver', 'wall', 'nprops', 'engine', 'paths', 'queries') if o.get(k) is not None}
                                for o in self.obligations],
                   known_findings_hit=[k for k, _ in self.known_hits],
                   exhaustive=False)
        if explanation:
            cov['explanation'] = explanation
        cov.update(self.extra)
        ev = dict(property_id=self.prop, tier=self.tier, seed=SEED, level=self.level, coverage=cov,
                  assumptions=self.assumptions, wall_s=round(wall, 2), violations=len(self.violations))
        evdir = os.environ.get('VERIF_EVIDENCE_DIR') or os.path.join(VERIF, 'evidence')
        if os.environ.get('VERIF_PARTIAL'):          # a run restricted with --only / --caps is not evidence for the property
            evdir = os.path.join(WORK, 'partial_evidence')
        os.makedirs(evdir, exist_ok=True)
        with open(os.path.join(evdir, self.prop + '.json'), 'w') as f:
            json.dump(ev, f, indent=1, default=str)
        for key, what in self.known_hits:
            print('KNOWN-FINDING: property=%s %s [%s]' % (self.prop, what, key))
        for key, what, replay in self.violations:
            print('VIOLATION property=%s replay=%s   (%s: %s)' % (self.prop, replay, key, what))
        for hid, reason in self.inconclusive:
            print('INCONCLUSIVE %s: %s' % (hid, reason))
        print('%s %s: %d obligations, %d decided, %d violations, %d known findings, %d inconclusive, %.1fs' %
              (self.prop, self.tier, n_ob, len(decided), len(self.violations), len(self.known_hits), len(self.inconclusive), wall))
        if self.violations:
            return 1
        if self.inconclusive or nontrivial < 2:
            return 2
        return 0


def guarded_main(fn):
    """a check never ends with a stray traceback (exit code 1 is reserved for reported violations): build failures of the
    tree under test, tool crashes and internal errors are inconclusive results (exit 2)"""
    try:
        return fn()
    except SystemExit:
        raise
    except BaseException as e:
        import traceback
        print('INCONCLUSIVE: the check could not be completed: %s: %s' % (type(e).__name__, str(e)[-1500:]))
        traceback.print_exc(limit=4)
        return 2
