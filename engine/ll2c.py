#!/usr/bin/env python3
"""ll2c: LLVM-14 textual IR (typed pointers) -> C for CBMC.  PROTOTYPE.

Subset: integer / pointer / fp scalar code, structs, arrays, globals with
constant initialisers (incl. vtables), direct + indirect calls, invoke /
landingpad / resume (exceptions modelled with a pending flag), common intrinsics.
Everything not understood raises -- never silently dropped.
"""
import re, sys, collections

# ----------------------------------------------------------------------------
# types
# ----------------------------------------------------------------------------
class T:  # base
    pass
class TInt(T):
    def __init__(s, n): s.n = n
    def key(s): return 'i%d' % s.n
class TFP(T):
    def __init__(s, k): s.k = k
    def key(s): return s.k
class TVoid(T):
    def key(s): return 'void'
class TPtr(T):
    def __init__(s, to): s.to = to
    def key(s): return s.to.key() + '*'
class TArr(T):
    def __init__(s, n, el): s.n = n; s.el = el
    def key(s): return '[%d x %s]' % (s.n, s.el.key())
class TStruct(T):
    def __init__(s, els, packed=False, name=None, opaque=False):
        s.els = els; s.packed = packed; s.name = name; s.opaque = opaque
    def key(s):
        if s.name: return '%' + s.name
        return ('<{%s}>' if s.packed else '{%s}') % ','.join(e.key() for e in s.els)
class TFunc(T):
    def __init__(s, ret, params, vararg): s.ret = ret; s.params = params; s.vararg = vararg
    def key(s): return '%s(%s%s)' % (s.ret.key(), ','.join(p.key() for p in s.params), ',...' if s.vararg else '')
class TOther(T):
    def __init__(s, k): s.k = k
    def key(s): return s.k

class Parser:
    """cursor over a string"""
    def __init__(s, text, mod): s.t = text; s.i = 0; s.mod = mod
    def ws(s):
        while s.i < len(s.t) and s.t[s.i] in ' \t': s.i += 1
    def peek(s, lit):
        s.ws(); return s.t.startswith(lit, s.i)
    def eat(s, lit):
        s.ws()
        if s.t.startswith(lit, s.i): s.i += len(lit); return True
        return False
    def expect(s, lit):
        if not s.eat(lit): raise SyntaxError('expected %r at %r' % (lit, s.t[s.i:s.i+60]))
    def rx(s, pat):
        s.ws(); m = re.compile(pat).match(s.t, s.i)
        if m: s.i = m.end(); return m
        return None
    def eof(s):
        s.ws(); return s.i >= len(s.t)
    def rest(s): return s.t[s.i:]
    def word(s):
        m = s.rx(r'[A-Za-z_][A-Za-z0-9_.]*')
        return m.group(0) if m else None
    def peekword(s):
        s.ws(); m = re.compile(r'[A-Za-z_][A-Za-z0-9_.]*').match(s.t, s.i)
        return m.group(0) if m else None
    def name(s, sigil):
        s.ws()
        if not s.t.startswith(sigil, s.i): return None
        j = s.i + 1
        if j < len(s.t) and s.t[j] == '"':
            k = s.t.index('"', j + 1)
            nm = s.t[j + 1:k]; s.i = k + 1; return nm
        m = re.compile(r'[-A-Za-z$._0-9]+').match(s.t, j)
        if not m: return None
        s.i = m.end(); return m.group(0)

    # ---- types
    def type(s):
        t = s.type0()
        while True:
            s.ws()
            if s.eat('*'): t = TPtr(t); continue
            m = s.rx(r'addrspace\(\d+\)')
            if m: continue
            if s.peek('('):   # function type
                s.expect('(')
                ps = []; va = False
                while not s.eat(')'):
                    if s.eat('...'): va = True
                    else: ps.append(s.type())
                    s.eat(',')
                t = TFunc(t, ps, va); continue
            return t
    def type0(s):
        s.ws()
        m = s.rx(r'i(\d+)\b')
        if m: return TInt(int(m.group(1)))
        for k in ('void', 'float', 'double', 'x86_fp80', 'half', 'fp128'):
            if s.rx(k + r'\b'): return TVoid() if k == 'void' else TFP(k)
        for k in ('label', 'metadata', 'token', 'opaque'):
            if s.rx(k + r'\b'): return TOther(k)
        if s.peek('%'):
            nm = s.name('%'); return s.mod.named(nm)
        if s.eat('<{'):
            els = []
            while not s.eat('}>'):
                els.append(s.type()); s.eat(',')
            return TStruct(els, packed=True)
        if s.eat('{'):
            els = []
            while not s.eat('}'):
                els.append(s.type()); s.eat(',')
            return TStruct(els)
        if s.eat('['):
            n = int(s.rx(r'\d+').group(0)); s.expect('x'); el = s.type(); s.expect(']')
            return TArr(n, el)
        if s.eat('<'):
            n = int(s.rx(r'\d+').group(0)); s.expect('x'); el = s.type(); s.expect('>')
            raise NotImplementedError('vector type')
        raise SyntaxError('type? %r' % s.t[s.i:s.i+60])

    PARAM_ATTRS = ('noundef', 'nonnull', 'nocapture', 'readonly', 'writeonly', 'readnone', 'noalias', 'signext',
                   'zeroext', 'returned', 'immarg', 'inreg', 'nofree', 'nest', 'swiftself', 'inrange', 'noreturn')
    def attrs(s):
        """skip parameter attributes; return dict of interesting ones"""
        out = {}
        while True:
            s.ws()
            m = s.rx(r'(sret|byval|byref|inalloca|preallocated|elementtype)\(')
            if m:
                t = s.type(); s.expect(')'); out[m.group(1)] = t; continue
            m = s.rx(r'(align|dereferenceable|dereferenceable_or_null)(\(\d+\)| \d+)')
            if m: continue
            w = s.peekword()
            if w in s.PARAM_ATTRS:
                s.word(); out[w] = True; continue
            return out

# ----------------------------------------------------------------------------
# values (constants and SSA refs): produce C expression strings with a type
# ----------------------------------------------------------------------------
class Val:
    def __init__(s, ty, c): s.ty = ty; s.c = c

def csan(nm):
    return re.sub(r'[^A-Za-z0-9_]', lambda m: '_%02x' % ord(m.group(0)), nm)

class Module:
    def __init__(s):
        s.structs = collections.OrderedDict()   # name -> TStruct
        s.typedefs = collections.OrderedDict()  # key -> cname (arrays, anon structs, func ptrs)
        s.tydecls = []                          # C text in dependency order
        s.globals = collections.OrderedDict()
        s.funcs = collections.OrderedDict()
        s.decls = collections.OrderedDict()
        s.defined_ty = set()
        s.typeinfo_bases = {}
        s.aliases = {}
    def named(s, nm):
        if nm not in s.structs:
            s.structs[nm] = TStruct([], name=nm, opaque=True)
        return s.structs[nm]

    def sizeof(s, t):
        if isinstance(t, TInt): return max(1, (t.n + 7) // 8) if t.n <= 64 else 16
        if isinstance(t, TFP): return {'float': 4, 'double': 8, 'x86_fp80': 16, 'half': 2, 'fp128': 16}[t.k]
        if isinstance(t, TPtr): return 8
        if isinstance(t, TArr): return t.n * s.sizeof(t.el)
        if isinstance(t, TStruct):
            if t.opaque: raise NotImplementedError('sizeof opaque')
            off = 0; al = 1
            for e in t.els:
                a = 1 if t.packed else s.alignof(e)
                off = (off + a - 1) // a * a + s.sizeof(e); al = max(al, a)
            return (off + al - 1) // al * al
        raise NotImplementedError('sizeof ' + t.key())
    def alignof(s, t):
        if isinstance(t, TInt): return min(8, 1 << max(0, (max(t.n, 8) - 1).bit_length() - 3)) if t.n <= 64 else 16
        if isinstance(t, TFP): return {'float': 4, 'double': 8, 'x86_fp80': 16, 'half': 2, 'fp128': 16}[t.k]
        if isinstance(t, TPtr): return 8
        if isinstance(t, TArr): return s.alignof(t.el)
        if isinstance(t, TStruct):
            if t.packed: return 1
            return max([s.alignof(e) for e in t.els] or [1])
        raise NotImplementedError('alignof ' + t.key())
    # ---- C types
    def ctype(s, t):
        if isinstance(t, TInt):
            if t.n == 1: return 'u1'
            if t.n in (8, 16, 32, 64): return 'uint%d_t' % t.n
            if t.n == 128: return 'u128'
            s.need_bv(t.n); return 'ubv%d' % t.n
        if isinstance(t, TFP):
            return {'float': 'float', 'double': 'double', 'x86_fp80': 'long double'}[t.k]
        if isinstance(t, TVoid): return 'void'
        if isinstance(t, TPtr):
            if isinstance(t.to, TFunc): return s.fptr_typedef(t.to)
            if isinstance(t.to, TVoid): return 'void*'
            if isinstance(t.to, TStruct) and t.to.name and t.to.opaque and not t.to.els:
                return 'struct %s*' % s.sname(t.to)
            if isinstance(t.to, TOther): return 'void*'
            return s.ctype(t.to) + '*'
        if isinstance(t, TStruct):
            if t.name: s.emit_struct(t); return 'struct ' + s.sname(t)
            return s.anon_struct(t)
        if isinstance(t, TArr): return s.arr_typedef(t)
        if isinstance(t, TFunc): return s.fptr_typedef(t)  # only via ptr
        raise NotImplementedError('ctype ' + t.key())
    def need_bv(s, n):
        k = 'bv%d' % n
        if k not in s.typedefs:
            s.typedefs[k] = 'ubv%d' % n
            s.tydecls.append('typedef unsigned __CPROVER_bitvector[%d] ubv%d; typedef signed __CPROVER_bitvector[%d] sbv%d;' % (n, n, n, n))
    def sname(s, t): return 'S_' + csan(t.name)
    def emit_struct(s, t):
        if t.name in s.defined_ty or t.opaque: return
        s.defined_ty.add(t.name)
        fields = [s.ctype_field(e) for e in t.els]
        body = ' '.join('%s f%d;' % (f, i) for i, f in enumerate(fields))
        s.tydecls.append('struct %s { %s }%s;' % (s.sname(t), body, ' __attribute__((packed))' if t.packed else ''))
    def ctype_field(s, e):
        return s.ctype(e)
    def anon_struct(s, t):
        k = t.key()
        if k not in s.typedefs:
            nm = 'AS%d' % len(s.typedefs)
            s.typedefs[k] = nm
            fields = [s.ctype(e) for e in t.els]
            body = ' '.join('%s f%d;' % (f, i) for i, f in enumerate(fields))
            s.tydecls.append('typedef struct { %s }%s %s;' % (body, ' __attribute__((packed))' if t.packed else '', nm))
        return s.typedefs[k]
    def arr_typedef(s, t):
        k = t.key()
        if k not in s.typedefs:
            el = s.ctype(t.el)
            nm = 'AR%d' % len(s.typedefs)
            s.typedefs[k] = nm
            s.tydecls.append('typedef struct { %s a[%d]; } %s;' % (el, max(t.n, 0), nm))
        return s.typedefs[k]
    def fptr_typedef(s, t):
        k = t.key() + '*'
        if k not in s.typedefs:
            nm = 'FP%d' % len(s.typedefs)
            s.typedefs[k] = nm   # reserve (recursion)
            ps = [s.ctype(p) for p in t.params]
            if t.vararg and ps: ps.append('...')
            s.tydecls.append('typedef %s (*%s)(%s);' % (s.ctype(t.ret), nm, ', '.join(ps) if ps else ('' if t.vararg else 'void')))
        return s.typedefs[k]

def same(a, b): return a.key() == b.key()

SINT = {8: 'int8_t', 16: 'int16_t', 32: 'int32_t', 64: 'int64_t', 128: 's128'}
def sty(n): return SINT.get(n, 'sbv%d' % n)

class FuncCtx:
    def __init__(s, mod): s.mod = mod; s.locals = {}   # name -> T

class ValParser:
    """parses operands given an expected type"""
    def __init__(s, mod, fn=None): s.mod = mod; s.fn = fn
    def lname(s, nm): return 'v_' + csan(nm)
    def gname(s, nm):
        nm = s.mod.aliases.get(nm, nm)
        if nm in s.mod.decls and nm not in s.mod.funcs: return 'ext_' + csan(nm)
        return csan(nm)
    def typed(s, p):
        t = p.type(); p.attrs(); return s.value(p, t)
    def value(s, p, t):
        m = s.mod
        p.ws()
        if p.peek('%'):
            nm = p.name('%'); return Val(t, s.lname(nm))
        if p.peek('@'):
            nm = p.name('@')
            nm = m.aliases.get(nm, nm)
            g = s.gname(nm)
            if nm in m.funcs or nm in m.decls: return Val(t, '((%s)%s)' % (m.ctype(t), g))
            return Val(t, '((%s)&%s)' % (m.ctype(t), g))
        mm = p.rx(r'-?\d+\b')
        if mm and isinstance(t, TInt):
            v = int(mm.group(0)) & ((1 << t.n) - 1)
            if t.n <= 64: return Val(t, '((%s)%dULL)' % (m.ctype(t), v))
            hi, lo = v >> 64, v & (2**64 - 1)
            return Val(t, '((((u128)%dULL)<<64)|(u128)%dULL)' % (hi, lo))
        if mm and isinstance(t, TFP):   # decimal fp like 1.500000e+00
            p.i = mm.start()
        mm = p.rx(r'0x[KLMHR]?[0-9A-Fa-f]+')
        if mm and isinstance(t, TFP):
            h = mm.group(0)
            if h[2] in 'KLMHR': raise NotImplementedError('fp80 const')
            bits = int(h, 16)
            if t.k == 'double': return Val(t, 'rt_bits2double(%dULL)' % bits)
            if t.k == 'float': return Val(t, '((float)rt_bits2double(%dULL))' % bits)
        mm = p.rx(r'-?\d+\.\d+(e[-+]?\d+)?')
        if mm: return Val(t, '((%s)%s)' % (m.ctype(t), mm.group(0)))
        if p.rx(r'true\b'): return Val(t, '((u1)1)')
        if p.rx(r'false\b'): return Val(t, '((u1)0)')
        if p.rx(r'null\b'): return Val(t, '((%s)0)' % m.ctype(t))
        if p.rx(r'(undef|poison)\b'):
            return Val(t, s.undef(t))
        if p.rx(r'zeroinitializer\b'): return Val(t, s.zero(t))
        if p.peek('c"'):
            p.i += 2; j = p.t.index('"', p.i); raw = p.t[p.i:j]; p.i = j + 1
            bs = []; k = 0
            while k < len(raw):
                if raw[k] == '\\': bs.append(int(raw[k+1:k+3], 16)); k += 3
                else: bs.append(ord(raw[k])); k += 1
            return Val(t, '{{%s}}' % ','.join(map(str, bs)), )
        if p.peek('{') or p.peek('<{'):
            packed = p.eat('<{') or not p.eat('{')
            els = []
            close = '}>' if packed else '}'
            while not p.eat(close):
                els.append(s.typed(p)); p.eat(',')
            return Val(t, '{%s}' % ', '.join(e.c for e in els))
        if p.peek('['):
            p.expect('[')
            els = []
            while not p.eat(']'):
                els.append(s.typed(p)); p.eat(',')
            return Val(t, '{{%s}}' % ', '.join(e.c for e in els))
        w = p.peekword()
        if w in ('getelementptr', 'bitcast', 'inttoptr', 'ptrtoint', 'trunc', 'zext', 'sext', 'add', 'sub', 'mul',
                 'select', 'icmp', 'and', 'or', 'xor', 'shl', 'lshr', 'ashr', 'addrspacecast'):
            return s.constexpr(p, t)
        raise SyntaxError('value? %r (type %s)' % (p.t[p.i:p.i+80], t.key()))
    def undef(s, t):
        if isinstance(t, (TInt, TFP, TPtr)): return '((%s)0)' % s.mod.ctype(t)
        return '{0}'
    def zero(s, t):
        if isinstance(t, (TInt, TFP, TPtr)): return '((%s)0)' % s.mod.ctype(t)
        return '{0}'
    def constexpr(s, p, t):
        op = p.word()
        if op == 'getelementptr':
            p.eat('inbounds'); p.expect('(')
            bt = p.type(); p.expect(',')
            base = s.typed(p)
            idx = []
            while p.eat(','):
                p.eat('inrange'); idx.append(s.typed(p))
            p.expect(')')
            return s.gep(bt, base, idx)
        if op in ('bitcast', 'inttoptr', 'ptrtoint', 'trunc', 'zext', 'sext', 'addrspacecast'):
            p.expect('('); v = s.typed(p); p.expect('to'); to = p.type(); p.expect(')')
            return s.cast(op, v, to)
        if op in ('add', 'sub', 'mul', 'and', 'or', 'xor', 'shl', 'lshr', 'ashr'):
            while p.peekword() in ('nsw', 'nuw', 'exact'): p.word()
            p.expect('('); a = s.typed(p); p.expect(','); b = s.typed(p); p.expect(')')
            return s.binop(op, a, b)
        if op == 'icmp':
            pred = p.word(); p.expect('('); a = s.typed(p); p.expect(','); b = s.typed(p); p.expect(')')
            return s.icmp(pred, a, b)
        if op == 'select':
            p.expect('('); c = s.typed(p); p.expect(','); a = s.typed(p); p.expect(','); b = s.typed(p); p.expect(')')
            return Val(a.ty, '(%s ? %s : %s)' % (c.c, a.c, b.c))
        raise NotImplementedError(op)

    # ---- shared expression builders
    def gep(s, bt, base, idx):
        """GEP -> C lvalue address expression"""
        m = s.mod
        cur = bt
        e = '%s[%s]' % (base.c, s.sidx(idx[0])) if not s.iszero(idx[0]) else '(*%s)' % base.c
        for ix in idx[1:]:
            if isinstance(cur, TStruct):
                k = s.constint(ix)
                e = '%s.f%d' % (e, k); cur = cur.els[k]
            elif isinstance(cur, TArr):
                e = '%s.a[%s]' % (e, s.sidx(ix)); cur = cur.el
            else:
                raise NotImplementedError('gep into ' + cur.key())
        rt = TPtr(cur)
        return Val(rt, '(&%s)' % e)
    def iszero(s, v): return re.fullmatch(r'\(\(\w+\)0ULL\)', v.c) is not None
    def constint(s, v):
        mm = re.fullmatch(r'\(\(\w+\)(\d+)ULL\)', v.c)
        if not mm: raise NotImplementedError('non-const struct index ' + v.c)
        return int(mm.group(1))
    def sidx(s, v):
        # indices are signed
        if isinstance(v.ty, TInt): return '(%s)%s' % (sty(v.ty.n), v.c)
        return v.c
    def cast(s, op, v, to):
        m = s.mod; ct = m.ctype(to)
        if op in ('bitcast', 'addrspacecast'):
            if isinstance(to, TPtr): return Val(to, '((%s)%s)' % (ct, v.c))
            if same(v.ty, to): return Val(to, v.c)
            return Val(to, 'RT_BITCAST(%s, %s, %s)' % (ct, m.ctype(v.ty), v.c))
        if op == 'inttoptr': return Val(to, '((%s)(uintptr_t)%s)' % (ct, v.c))
        if op == 'ptrtoint': return Val(to, '((%s)(uintptr_t)%s)' % (ct, v.c))
        if op == 'trunc':
            if to.n == 1: return Val(to, '((u1)(%s & 1))' % v.c)
            return Val(to, '((%s)%s)' % (ct, v.c))
        if op == 'zext': return Val(to, '((%s)%s)' % (ct, v.c))
        if op == 'sext':
            if v.ty.n == 1: return Val(to, '((%s)(%s ? -1 : 0))' % (ct, v.c))
            return Val(to, '((%s)(%s)(%s)%s)' % (ct, sty(to.n), sty(v.ty.n), v.c))
        if op in ('fptoui',): return Val(to, '((%s)%s)' % (ct, v.c))
        if op in ('fptosi',): return Val(to, '((%s)(%s)%s)' % (ct, sty(to.n), v.c))
        if op in ('uitofp',): return Val(to, '((%s)%s)' % (ct, v.c))
        if op in ('sitofp',): return Val(to, '((%s)(%s)%s)' % (ct, sty(v.ty.n), v.c))
        if op in ('fpext', 'fptrunc'): return Val(to, '((%s)%s)' % (ct, v.c))
        raise NotImplementedError(op)
    def binop(s, op, a, b):
        m = s.mod; t = a.ty; ct = m.ctype(t)
        if isinstance(t, TFP):
            o = {'fadd': '+', 'fsub': '-', 'fmul': '*', 'fdiv': '/'}[op]
            return Val(t, '(%s %s %s)' % (a.c, o, b.c))
        n = t.n
        if n == 1:
            o = {'add': '^', 'sub': '^', 'mul': '&', 'and': '&', 'or': '|', 'xor': '^'}.get(op)
            if o is None: raise NotImplementedError('i1 ' + op)
            return Val(t, '((u1)((%s %s %s) & 1))' % (a.c, o, b.c))
        wide = 'uint64_t' if n <= 64 else ct
        U = {'add': '+', 'sub': '-', 'mul': '*', 'and': '&', 'or': '|', 'xor': '^', 'udiv': '/', 'urem': '%'}
        if op in U:
            return Val(t, '((%s)((%s)%s %s (%s)%s))' % (ct, wide if n < 32 else ct, a.c, U[op], wide if n < 32 else ct, b.c))
        if op == 'shl': return Val(t, '((%s)((%s)%s << %s))' % (ct, ct if n >= 32 else 'uint32_t', a.c, b.c))
        if op == 'lshr': return Val(t, '((%s)(%s >> %s))' % (ct, a.c, b.c))
        st = sty(n)
        if op == 'ashr': return Val(t, '((%s)((%s)%s >> %s))' % (ct, st, a.c, b.c))
        if op == 'sdiv': return Val(t, '((%s)((%s)%s / (%s)%s))' % (ct, st, a.c, st, b.c))
        if op == 'srem': return Val(t, '((%s)((%s)%s %% (%s)%s))' % (ct, st, a.c, st, b.c))
        raise NotImplementedError(op)
    def icmp(s, pred, a, b):
        t = a.ty
        U = {'eq': '==', 'ne': '!=', 'ugt': '>', 'uge': '>=', 'ult': '<', 'ule': '<='}
        S = {'sgt': '>', 'sge': '>=', 'slt': '<', 'sle': '<='}
        if pred in U:
            if isinstance(t, TPtr):
                if pred in ('eq', 'ne'): return Val(TInt(1), '((u1)((void*)%s %s (void*)%s))' % (a.c, U[pred], b.c))
                return Val(TInt(1), '((u1)((uintptr_t)%s %s (uintptr_t)%s))' % (a.c, U[pred], b.c))
            return Val(TInt(1), '((u1)(%s %s %s))' % (a.c, U[pred], b.c))
        if isinstance(t, TPtr):
            return Val(TInt(1), '((u1)((intptr_t)%s %s (intptr_t)%s))' % (a.c, S[pred], b.c))
        st = sty(t.n)
        if t.n == 1: st = 'int8_t'; a = Val(t, '(%s?-1:0)' % a.c); b = Val(t, '(%s?-1:0)' % b.c)
        return Val(TInt(1), '((u1)((%s)%s %s (%s)%s))' % (st, a.c, S[pred], st, b.c))

# ----------------------------------------------------------------------------
# module-level parsing
# ----------------------------------------------------------------------------
FN_ATTR_WORDS = None
def strip_meta(line):
    # drop trailing metadata attachments  ", !tbaa !5" / " !prof !20" / "#23"
    line = re.sub(r',?\s*![A-Za-z_.]+ !\d+', '', line)
    return line

class Func:
    def __init__(s): s.name = None; s.ret = None; s.params = []; s.blocks = collections.OrderedDict(); s.vararg = False; s.personality = False

def parse_module(text):
    mod = Module()
    lines = text.split('\n')
    # pass 1: named types
    for ln in lines:
        m = re.match(r'^(%(?:"[^"]+"|[-A-Za-z$._0-9]+)) = type (.*)$', ln)
        if m:
            p = Parser(ln, mod); nm = p.name('%'); p.expect('='); p.expect('type')
            st = mod.named(nm)
            if p.eat('opaque'): continue
            packed = False
            if p.eat('<{'): packed = True
            else: p.expect('{')
            els = []
            close = '}>' if packed else '}'
            while not p.eat(close):
                els.append(p.type()); p.eat(',')
            st.els = els; st.packed = packed; st.opaque = False
    # pass 2: function signatures (define/declare) + globals (names first)
    i = 0
    gl_lines = []
    while i < len(lines):
        ln = lines[i]
        if ln.startswith('declare ') or ln.startswith('define '):
            f = parse_sig(ln, mod)
            if ln.startswith('define '):
                body = []
                i += 1
                while lines[i] != '}':
                    body.append(lines[i]); i += 1
                f.body = body
                mod.funcs[f.name] = f
            else:
                mod.decls[f.name] = f
        elif ln.startswith('@'):
            gl_lines.append(ln)
        i += 1
    for ln in gl_lines: parse_global_head(ln, mod)
    return mod

LINKAGE = ('private', 'internal', 'available_externally', 'linkonce', 'weak', 'common', 'appending', 'extern_weak',
           'linkonce_odr', 'weak_odr', 'external', 'dso_local', 'dso_preemptable', 'hidden', 'protected', 'default',
           'unnamed_addr', 'local_unnamed_addr', 'thread_local', 'externally_initialized', 'fastcc', 'ccc', 'coldcc',
           'noundef', 'nonnull', 'noalias', 'zeroext', 'signext')

def parse_sig(ln, mod):
    p = Parser(strip_meta(ln), mod)
    kw = p.word()
    f = Func()
    while p.peekword() in LINKAGE: p.word()
    p.attrs()
    f.ret = p.type()
    f.name = p.name('@')
    p.expect('(')
    n = 0
    while not p.eat(')'):
        if p.eat('...'): f.vararg = True; p.eat(','); continue
        t = p.type(); a = p.attrs()
        nm = p.name('%')
        if nm is None: nm = str(n)
        f.params.append((t, nm, a)); n += 1
        p.eat(',')
    f.personality = 'personality' in p.rest()
    f.attrs_text = p.rest()
    f.body = None
    return f

def parse_global_head(ln, mod):
    p = Parser(strip_meta(ln), mod)
    nm = p.name('@'); p.expect('=')
    ext = False
    tls = False
    while p.peekword() in LINKAGE:
        w = p.word()
        if w in ('external', 'extern_weak'): ext = True
        if w == 'thread_local':
            tls = True; p.rx(r'\(\w+\)')
    m = p.rx(r'thread_local(\(\w+\))?') or tls
    while p.peekword() in LINKAGE: p.word()
    kind = p.word()   # global | constant | alias
    if kind == 'alias':
        tgt = re.findall(r'@("[^"]+"|[-A-Za-z$._0-9]+)', p.rest())[-1].strip('"')
        mod.aliases[nm] = tgt
        return
    t = p.type()
    mod.globals[nm] = dict(name=nm, ty=t, ext=ext, const=(kind == 'constant'), init_text=None if ext else p.rest(), tls=bool(m))

# ----------------------------------------------------------------------------
# function translation
# ----------------------------------------------------------------------------
INTRINSIC_IGNORE = ('llvm.lifetime.', 'llvm.dbg.', 'llvm.experimental.noalias.scope.decl', 'llvm.assume', 'llvm.prefetch',
                    'llvm.stackrestore', 'llvm.va_end', 'llvm.invariant.', 'llvm.donothing')

class FnTrans:
    def __init__(s, mod, f):
        s.mod = mod; s.f = f; s.vp = ValParser(mod, f)
        s.decl = collections.OrderedDict()   # local cname -> ctype
        s.out = []
        s.lpad_info = {}
        s.origin = {}
        s.fieldof = {}
    def local(s, nm, t):
        c = s.vp.lname(nm)
        if isinstance(t, TVoid): return c
        s.decl[c] = s.mod.ctype(t); return c
    def run(s):
        f = s.f; m = s.mod
        # split into blocks
        blocks = collections.OrderedDict(); cur = None
        first = None
        for ln in f.body:
            if not ln.strip(): continue
            mm = re.match(r'^([-A-Za-z$._0-9]+|"[^"]+"):', ln)
            if mm:
                cur = mm.group(1).strip('"'); blocks[cur] = []; continue
            if cur is None:
                cur = str(len(f.params)); blocks[cur] = []
            blocks[cur].append(ln.strip())
        # join continuation lines (invoke 'to label', landingpad clauses, switch tables)
        for b, ins in blocks.items():
            joined = []
            for ln in ins:
                if joined and (ln.startswith('to label') or ln.startswith('catch ') or ln.startswith('cleanup') or ln.startswith('filter ')
                               or re.match(r'^(i\d+ -?\d+, label|\])', ln) ):
                    joined[-1] += ' ' + ln
                else: joined.append(ln)
            blocks[b] = [strip_meta(x) for x in joined]
        s.blocks = blocks
        # phi table: succ -> [(dest, type, {pred: valtext})]
        s.phis = collections.defaultdict(list)
        for b, ins in blocks.items():
            for ln in ins:
                mm = re.match(r'^(%\S+) = phi (.*)$', ln)
                if not mm: break
                p = Parser(mm.group(2), m); t = p.type()
                inc = {}
                while True:
                    p.expect('['); v = s.vp.value(p, t); p.expect(','); pl = p.name('%'); p.expect(']')
                    inc[pl] = v
                    if not p.eat(','): break
                d = s.local(Parser(mm.group(1), m).name('%'), t)
                s.phis[b].append((d, t, inc))
        for b, ins in blocks.items():
            s.out.append('L_%s: ;' % csan(b))
            s.curblock = b
            for ln in ins:
                if re.match(r'^%\S+ = phi ', ln): continue
                try:
                    s.instr(ln)
                except Exception as e:
                    raise RuntimeError('in %s block %s: %s\n   %s' % (f.name, b, e, ln)) from e
        # assemble
        ps = ', '.join('%s %s' % (m.ctype(t), s.vp.lname(nm)) for (t, nm, a) in f.params)
        if f.vararg: ps += ', ...'
        head = '%s %s(%s)' % (m.ctype(f.ret), csan(f.name), ps or 'void')
        decls = ['  %s %s;' % (ct, c) for c, ct in s.decl.items()]
        return head, head + '\n{\n' + '\n'.join(decls) + '\n' + '\n'.join('  ' + o for o in s.out) + '\n}\n'

    def goto(s, target):
        """emit phi copies for edge curblock->target then goto"""
        ph = s.phis.get(target, [])
        if not ph: return 'goto L_%s;' % csan(target)
        parts = []
        tmps = []
        for k, (d, t, inc) in enumerate(ph):
            v = inc[s.curblock]
            tmp = '%s_in' % d
            s.decl[tmp] = s.mod.ctype(t)
            parts.append('%s = %s;' % (tmp, v.c)); tmps.append((d, tmp))
        parts += ['%s = %s;' % (d, tmp) for d, tmp in tmps]
        return '{ %s goto L_%s; }' % (' '.join(parts), csan(target))

    def retdummy(s):
        if isinstance(s.f.ret, TVoid): return 'return;'
        if isinstance(s.f.ret, (TInt, TFP, TPtr)): return 'return (%s)0;' % s.mod.ctype(s.f.ret)
        return '{ %s rt_dummy; return rt_dummy; }' % s.mod.ctype(s.f.ret)

    def instr(s, ln):
        m = s.mod; vp = s.vp; o = s.out
        dest = None
        mm = re.match(r'^(%(?:"[^"]+"|[-A-Za-z$._0-9]+)) = (.*)$', ln)
        if mm:
            dest = Parser(mm.group(1), m).name('%'); ln = mm.group(2)
        p = Parser(ln, m)
        while p.peekword() in ('tail', 'musttail', 'notail'): p.word()
        op = p.word()
        def setd(v):
            c = s.local(dest, v.ty); o.append('%s = %s;' % (c, v.c))
        if op == 'ret':
            t = p.type()
            if isinstance(t, TVoid): o.append('return;')
            else: o.append('return %s;' % vp.value(p, t).c)
        elif op == 'br':
            if p.eat('label'):
                o.append(s.goto(p.name('%')))
            else:
                c = vp.typed(p); p.expect(','); p.expect('label'); a = p.name('%'); p.expect(','); p.expect('label'); b = p.name('%')
                o.append('if (%s) %s else %s' % (c.c, s.goto(a), s.goto(b)))
        elif op == 'switch':
            v = vp.typed(p); p.expect(','); p.expect('label'); dflt = p.name('%'); p.expect('[')
            cases = []
            while not p.eat(']'):
                cv = vp.typed(p); p.expect(','); p.expect('label'); cases.append((cv, p.name('%')))
            for cv, lab in cases:
                o.append('if (%s == %s) %s' % (v.c, cv.c, s.goto(lab)))
            o.append(s.goto(dflt))
        elif op == 'unreachable':
            o.append('RT_UNREACHABLE();')
        elif op == 'alloca':
            p.eat('inalloca'); t = p.type()
            cnt = None
            if p.eat(','):
                if not p.peek('align') and not p.peek('addrspace'):
                    cnt = vp.typed(p)
            mem = 'm_' + csan(dest)
            if cnt is None:
                s.decl[mem] = m.ctype(t)
                setd(Val(TPtr(t), '(&%s)' % mem))
            else:
                setd(Val(TPtr(t), '((%s*)rt_alloca(sizeof(%s) * %s))' % (m.ctype(t), m.ctype(t), cnt.c)))
        elif op == 'load':
            atomic = p.eat('atomic'); p.eat('volatile')
            t = p.type(); p.expect(','); ptr = vp.typed(p)
            setd(Val(t, '(*%s)' % ptr.c))
        elif op == 'store':
            atomic = p.eat('atomic'); p.eat('volatile')
            v = vp.typed(p); p.expect(','); ptr = vp.typed(p)
            if v.c.startswith('{'):   # aggregate constant
                o.append('{ %s rt_tmp = %s; *%s = rt_tmp; }' % (m.ctype(v.ty), v.c, ptr.c))
            else:
                o.append('*%s = %s;' % (ptr.c, v.c))
        elif op == 'getelementptr':
            p.eat('inbounds'); bt = p.type(); p.expect(','); base = vp.typed(p)
            idx = []
            while p.eat(','): idx.append(vp.typed(p))
            setd(vp.gep(bt, base, idx))
            # remember "pointer to field k of struct parent" for typed memcpy lowering
            try:
                if len(idx) >= 2 and vp.iszero(idx[0]):
                    cur = bt; expr = '(*%s)' % base.c
                    for ix in idx[1:-1]:
                        if isinstance(cur, TStruct): k = vp.constint(ix); expr += '.f%d' % k; cur = cur.els[k]
                        else: raise NotImplementedError
                    if isinstance(cur, TStruct):
                        s.fieldof[vp.lname(dest)] = (expr, cur, vp.constint(idx[-1]))
            except NotImplementedError: pass
        elif op in ('bitcast', 'inttoptr', 'ptrtoint', 'trunc', 'zext', 'sext', 'fptoui', 'fptosi', 'uitofp', 'sitofp', 'fpext', 'fptrunc', 'addrspacecast'):
            v = vp.typed(p); p.expect('to'); to = p.type()
            setd(vp.cast(op, v, to))
            if op == 'bitcast' and isinstance(v.ty, TPtr): s.origin[vp.lname(dest)] = s.origin.get(v.c, v)
        elif op in ('add', 'sub', 'mul', 'udiv', 'sdiv', 'urem', 'srem', 'shl', 'lshr', 'ashr', 'and', 'or', 'xor', 'fadd', 'fsub', 'fmul', 'fdiv'):
            flags = []
            while p.peekword() in ('nsw', 'nuw', 'exact', 'fast', 'nnan', 'ninf', 'nsz', 'arcp', 'contract', 'afn', 'reassoc'): flags.append(p.word())
            t = p.type(); a = vp.value(p, t); p.expect(','); b = vp.value(p, t)
            setd(vp.binop(op, a, b))
        elif op == 'fneg':
            t = p.type(); a = vp.value(p, t); setd(Val(t, '(-%s)' % a.c))
        elif op == 'icmp':
            pred = p.word(); t = p.type(); a = vp.value(p, t); p.expect(','); b = vp.value(p, t)
            setd(vp.icmp(pred, a, b))
        elif op == 'fcmp':
            while p.peekword() in ('fast', 'nnan', 'ninf', 'nsz'): p.word()
            pred = p.word(); t = p.type(); a = vp.value(p, t); p.expect(','); b = vp.value(p, t)
            O = {'oeq': '==', 'ogt': '>', 'oge': '>=', 'olt': '<', 'ole': '<=', 'one': '!='}
            Uo = {'ueq': '==', 'ugt': '>', 'uge': '>=', 'ult': '<', 'ule': '<=', 'une': '!='}
            if pred in O:
                e = '(%s %s %s)' % (a.c, O[pred], b.c)
                if pred == 'one': e = '(%s == %s && %s == %s && %s != %s)' % (a.c, a.c, b.c, b.c, a.c, b.c)
            elif pred in Uo: e = '(%s != %s || %s != %s || %s %s %s)' % (a.c, a.c, b.c, b.c, a.c, Uo[pred], b.c)
            elif pred == 'ord': e = '(%s == %s && %s == %s)' % (a.c, a.c, b.c, b.c)
            elif pred == 'uno': e = '(%s != %s || %s != %s)' % (a.c, a.c, b.c, b.c)
            else: raise NotImplementedError(pred)
            setd(Val(TInt(1), '((u1)%s)' % e))
        elif op == 'select':
            c = vp.typed(p); p.expect(','); a = vp.typed(p); p.expect(','); b = vp.typed(p)
            setd(Val(a.ty, '(%s ? %s : %s)' % (c.c, a.c, b.c)))
        elif op == 'freeze':
            setd(vp.typed(p))
        elif op == 'extractvalue':
            v = vp.typed(p); t = v.ty; e = v.c
            while p.eat(','):
                k = int(p.rx(r'\d+').group(0))
                if isinstance(t, TStruct): e += '.f%d' % k; t = t.els[k]
                else: e += '.a[%d]' % k; t = t.el
            setd(Val(t, e))
        elif op == 'insertvalue':
            agg = vp.typed(p); p.expect(','); v = vp.typed(p)
            c = s.local(dest, agg.ty)
            if agg.c.startswith('{'): o.append('{ %s rt_tmp = %s; %s = rt_tmp; }' % (m.ctype(agg.ty), agg.c, c))
            else: o.append('%s = %s;' % (c, agg.c))
            t = agg.ty; e = c
            while p.eat(','):
                k = int(p.rx(r'\d+').group(0))
                if isinstance(t, TStruct): e += '.f%d' % k; t = t.els[k]
                else: e += '.a[%d]' % k; t = t.el
            o.append('%s = %s;' % (e, v.c))
        elif op in ('call', 'invoke'):
            s.call(p, dest, op)
        elif op == 'landingpad':
            t = p.type()
            cleanup = False; clauses = []
            while not p.eof():
                if p.eat('cleanup'): cleanup = True
                elif p.eat('catch'): clauses.append(vp.typed(p))
                elif p.eat('filter'): raise NotImplementedError('filter clause')
                else: raise SyntaxError(p.rest())
            c = s.local(dest, t)
            cl = ', '.join('(void*)%s' % x.c for x in clauses)
            o.append('%s.f0 = (uint8_t*)rt_exc_obj; %s.f1 = rt_landing(%d%s%s); ' % (c, c, len(clauses), ', ' if clauses else '', cl))
        elif op == 'resume':
            v = vp.typed(p)
            o.append('rt_resume((void*)%s.f0); %s' % (v.c, s.retdummy()))
        elif op == 'fence':
            o.append('/* fence */;')
        elif op == 'cmpxchg':
            p.eat('weak'); p.eat('volatile')
            ptr = vp.typed(p); p.expect(','); cmp_ = vp.typed(p); p.expect(','); new = vp.typed(p)
            rt = TStruct([cmp_.ty, TInt(1)])
            c = s.local(dest, rt)
            o.append('__CPROVER_atomic_begin(); %s.f0 = *%s; %s.f1 = (u1)(%s.f0 == %s); if (%s.f1) *%s = %s; __CPROVER_atomic_end();' % (c, ptr.c, c, c, cmp_.c, c, ptr.c, new.c))
        elif op == 'atomicrmw':
            p.eat('volatile'); rop = p.word(); ptr = vp.typed(p); p.expect(','); v = vp.typed(p)
            c = s.local(dest, v.ty)
            ex = {'add': '%s + %s', 'sub': '%s - %s', 'xchg': '%.0s%s', 'and': '%s & %s', 'or': '%s | %s', 'xor': '%s ^ %s'}[rop]
            o.append('__CPROVER_atomic_begin(); %s = *%s; *%s = (%s)(%s); __CPROVER_atomic_end();' % (c, ptr.c, ptr.c, m.ctype(v.ty), ex % (c, v.c)))
        elif op == 'va_arg':
            raise NotImplementedError('va_arg')
        else:
            raise NotImplementedError('opcode ' + op)

    def call(s, p, dest, op):
        m = s.mod; vp = s.vp; o = s.out
        while p.peekword() in LINKAGE + ('fast', 'nnan', 'ninf', 'nsz', 'arcp', 'contract', 'afn', 'reassoc'): p.word()
        p.attrs()
        rt = p.type()
        fty = None
        if isinstance(rt, TPtr) and isinstance(rt.to, TFunc): fty = rt.to; rt = fty.ret   # "call i32 (i8*, ...)* @f" old style
        if isinstance(rt, TFunc): fty = rt; rt = fty.ret
        # callee
        p.ws()
        callee_name = None
        if p.peek('@'): callee_name = p.name('@'); callee_name = m.aliases.get(callee_name, callee_name)
        elif p.peek('%'): callee_val = vp.lname(p.name('%'))
        elif p.peekword() in ('bitcast',):
            # call through bitcast constexpr
            cv = vp.constexpr(p, TPtr(TInt(8))); callee_val = cv.c
        else: raise SyntaxError('callee? ' + p.rest())
        p.expect('(')
        args = []
        while not p.eat(')'):
            t = p.type(); a = p.attrs()
            if isinstance(t, TOther) and t.k == 'metadata':
                # skip metadata arg
                p.rx(r'[^,)]*'); p.eat(','); args.append(None); continue
            v = vp.value(p, t); v.attrs = a; args.append(v); p.eat(',')
        normal = unwind = None
        rest = p.rest()
        mm = re.search(r'to label %(\S+) unwind label %(\S+)', rest)
        if op == 'invoke':
            normal, unwind = mm.group(1).strip('"'), mm.group(2).strip('"')
        # byval: copy
        pre = []
        cargs = []
        for k, a in enumerate(args):
            if a is None: continue
            if 'byval' in getattr(a, 'attrs', {}):
                bt = a.attrs['byval']; tmp = 'bv_%s_%d' % (csan(dest or 'c%d' % len(o)), k)
                s.decl[tmp] = m.ctype(bt); pre.append('%s = *%s;' % (tmp, a.c)); cargs.append('(&%s)' % tmp)
            else: cargs.append(a.c)
        expr = None
        nothrow = False
        if callee_name is not None:
            n = callee_name
            if n.startswith('llvm.'):
                expr = s.intrinsic(n, args, rt, dest)
                nothrow = True
                if expr is None:
                    if op == 'invoke': o.append(s.goto(normal))
                    return
            else:
                tgt = m.funcs.get(n) or m.decls.get(n)
                fname = vp.gname(n)
                if tgt is not None and (tgt.vararg or fty is None or True):
                    # cast args to declared param types when they differ (call through mismatching prototype)
                    expr = '%s(%s)' % (fname, ', '.join(cargs))
                if 'nounwind' in (tgt.attrs_text if tgt else '') and False: nothrow = True
        else:
            if fty is None:
                fty = TFunc(rt, [a.ty for a in args if a is not None], False)
            expr = '((%s)%s)(%s)' % (m.fptr_typedef(fty), callee_val, ', '.join(cargs))
        o.extend(pre)
        if isinstance(rt, TVoid) or dest is None:
            o.append('%s;' % expr)
        else:
            c = s.local(dest, rt); o.append('%s = %s;' % (c, expr))
        if op == 'invoke':
            o.append('if (rt_exc_pending) %s else %s' % (s.goto(unwind), s.goto(normal)))
        elif not nothrow:
            o.append('if (rt_exc_pending) %s' % s.retdummy())

    def slot(s, c):
        """resolve an i8* SSA value to (parent lvalue expr, parent struct type, first field index)"""
        o = s.origin.get(c)
        if o is None: return []
        out = []
        if isinstance(o.ty, TPtr) and isinstance(o.ty.to, TStruct) and not o.ty.to.opaque:
            out.append(('(*%s)' % o.c, o.ty.to, 0))
        if o.c in s.fieldof: out.append(s.fieldof[o.c])
        return out
    def typed_range_copy(s, a, nbytes, is_set):
        if is_set and not re.fullmatch(r'\(\(uint8_t\)0ULL\)', a[1]): return None
        for d in s.slot(a[0]):
            if is_set:
                r = s.typed_range_copy1(d, None, nbytes, True)
                if r: return r
            else:
                for sr in s.slot(a[1]):
                    if sr[1].key() != d[1].key() or sr[2] != d[2]: continue
                    r = s.typed_range_copy1(d, sr, nbytes, False)
                    if r: return r
        return None
    def typed_range_copy1(s, d, sr, nbytes, is_set):
        m = s.mod
        st = d[1]; k = d[2]
        # field offsets
        offs = []; off = 0
        for e in st.els:
            al = 1 if st.packed else m.alignof(e)
            off = (off + al - 1) // al * al; offs.append(off); off += m.sizeof(e)
        total = m.sizeof(st)
        start = offs[k]; end = start + nbytes
        stmts = []
        j = k
        while j < len(st.els) and offs[j] < end:
            fe = offs[j] + m.sizeof(st.els[j])
            if fe > end: return None          # partial field
            if is_set:
                e = st.els[j]
                if isinstance(e, (TInt, TFP, TPtr)): stmts.append('%s.f%d = (%s)0' % (d[0], j, m.ctype(e)))
                else: stmts.append('%s.f%d = (%s){0}' % (d[0], j, m.ctype(e)))
            else:
                stmts.append('%s.f%d = %s.f%d' % (d[0], j, sr[0], j))
            j += 1
        if not stmts: return None
        return '(' + ', '.join(stmts) + ')'
    def intrinsic(s, n, args, rt, dest):
        m = s.mod
        for pre in INTRINSIC_IGNORE:
            if n.startswith(pre): return None
        a = [x.c if x is not None else None for x in args]
        isc = re.fullmatch(r'\(\(uint64_t\)(\d+)ULL\)', a[2] or '') if len(a) > 2 else None
        if isc and (n.startswith('llvm.memcpy.') or n.startswith('llvm.memmove.') or n.startswith('llvm.memset.')):
            r = s.typed_range_copy(a, int(isc.group(1)), n.startswith('llvm.memset.'))
            if r is not None: return r
        if isc and (n.startswith('llvm.memcpy.') or n.startswith('llvm.memmove.')):
            od, os_ = s.origin.get(a[0]), s.origin.get(a[1])
            if od is not None and os_ is not None and same(od.ty, os_.ty) and isinstance(od.ty.to, (TStruct, TArr)):
                try:
                    if m.sizeof(od.ty.to) == int(isc.group(1)): return '(*%s = *%s)' % (od.c, os_.c)
                except NotImplementedError: pass
        if isc and n.startswith('llvm.memset.') and re.fullmatch(r'\(\(uint8_t\)0ULL\)', a[1]):
            od = s.origin.get(a[0])
            if od is not None and isinstance(od.ty.to, (TStruct, TArr)):
                try:
                    if m.sizeof(od.ty.to) == int(isc.group(1)):
                        return '(*%s = (%s){0})' % (od.c, m.ctype(od.ty.to))
                except NotImplementedError: pass
        if n.startswith('llvm.memcpy.'): return ('memcpy((void*)%s, (void*)%s, %s)' if isc else 'rt_memcpy((void*)%s, (void*)%s, %s)') % (a[0], a[1], a[2])
        if n.startswith('llvm.memmove.'): return ('memmove((void*)%s, (void*)%s, %s)' if isc else 'rt_memmove((void*)%s, (void*)%s, %s)') % (a[0], a[1], a[2])
        if n.startswith('llvm.memset.'): return ('memset((void*)%s, %s, %s)' if isc else 'rt_memset((void*)%s, %s, %s)') % (a[0], a[1], a[2])
        if n.startswith('llvm.expect.'): return a[0]
        if n.startswith('llvm.eh.typeid.for'): return 'rt_typeid_for((void*)%s)' % a[0]
        if n == 'llvm.trap': return 'RT_TRAP()'
        if n.startswith('llvm.objectsize.'): return '((%s)(%s ? 0 : -1))' % (m.ctype(rt), a[1])
        if n.startswith('llvm.is.constant.'): return '((u1)0)'
        ct = m.ctype(rt) if not isinstance(rt, (TVoid, TStruct)) else None
        for nm, opx in (('umax', '>'), ('umin', '<')):
            if n.startswith('llvm.%s.' % nm): return '(%s %s %s ? %s : %s)' % (a[0], opx, a[1], a[0], a[1])
        for nm, opx in (('smax', '>'), ('smin', '<')):
            if n.startswith('llvm.%s.' % nm):
                st = sty(rt.n); return '((%s)%s %s (%s)%s ? %s : %s)' % (st, a[0], opx, st, a[1], a[0], a[1])
        if n.startswith('llvm.abs.'):
            st = sty(rt.n); return '((%s)((%s)%s < 0 ? -(%s)%s : (%s)%s))' % (ct, st, a[0], st, a[0], st, a[0])
        if n.startswith('llvm.ctpop.'): return '((%s)rt_ctpop64((uint64_t)%s))' % (ct, a[0])
        if n.startswith('llvm.cttz.'): return '((%s)rt_cttz((uint64_t)%s, %d))' % (ct, a[0], rt.n)
        if n.startswith('llvm.ctlz.'): return '((%s)rt_ctlz((uint64_t)%s, %d))' % (ct, a[0], rt.n)
        if n.startswith('llvm.bswap.i32'): return 'rt_bswap32(%s)' % a[0]
        if n.startswith('llvm.bswap.i64'): return 'rt_bswap64(%s)' % a[0]
        if n.startswith('llvm.fshl.') or n.startswith('llvm.fshr.'):
            w = rt.n; l = n.startswith('llvm.fshl.')
            return 'rt_fsh(%s, %s, %s, %d, %d)' % (a[0], a[1], a[2], w, 1 if l else 0)
        mm = re.match(r'llvm\.(u|s)(add|sub|mul)\.with\.overflow\.i(\d+)', n)
        if mm:
            sg, opn, w = mm.group(1), mm.group(2), int(mm.group(3))
            c = s.local(dest, rt)
            ty = ('uint%d_t' if sg == 'u' else 'int%d_t') % w
            s.out.append('{ %s rt_r; %s.f1 = (u1)__builtin_%s_overflow((%s)%s, (%s)%s, &rt_r); %s.f0 = (uint%d_t)rt_r; }' % (ty, c, opn, ty, a[0], ty, a[1], c, w))
            return None
        if n.startswith('llvm.va_start'): return 'rt_va_start((void*)%s)' % a[0]
        if n.startswith('llvm.stacksave'): return '((uint8_t*)0)'
        if n.startswith('llvm.fabs.'): return '(%s < 0 ? -%s : %s)' % (a[0], a[0], a[0])
        if n.startswith('llvm.launder.invariant.group') or n.startswith('llvm.strip.invariant.group'): return a[0]
        raise NotImplementedError('intrinsic ' + n)

RT_PROVIDED_GLOBALS = set("""_ZTISt9exception _ZTISt11logic_error _ZTISt16invalid_argument _ZTISt12domain_error
_ZTISt12length_error _ZTISt12out_of_range _ZTISt13runtime_error _ZTISt11range_error _ZTISt14overflow_error _ZTISt15underflow_error
_ZTISt9bad_alloc _ZTISt8bad_cast _ZTISt20bad_array_new_length _ZTISt17bad_function_call""".split())
RT_PROVIDED_FUNCS = set()
AUTOSTUB_NOOP = [r'_ZNSt\d+(exception|logic_error|invalid_argument|domain_error|length_error|out_of_range|runtime_error|range_error|overflow_error|underflow_error|bad_alloc|bad_cast)(C|D)[012]E.*',
                 r'_ZNSt8ios_base4Init(C|D)1Ev']
AUTOSTUBS_TEXT = ['']
# ----------------------------------------------------------------------------
def reachable(mod, roots):
    """function names reachable from roots through direct refs (calls, address-taken, via globals)"""
    seen = set(); gseen = set(); work = list(roots)
    ref = re.compile(r'@("[^"]+"|[-A-Za-z$._0-9]+)')
    while work:
        n = work.pop()
        n = mod.aliases.get(n, n)
        if n in seen or n in gseen: continue
        if n in mod.funcs:
            seen.add(n)
            for ln in mod.funcs[n].body:
                for r in ref.findall(ln):
                    work.append(r.strip('"'))
        elif n in mod.globals:
            gseen.add(n)
            it = mod.globals[n]['init_text']
            if it:
                for r in ref.findall(it): work.append(r.strip('"'))
        elif n in mod.decls:
            seen.add(n)
    return seen, gseen

def translate(text, roots=None, stubs=()):
    mod = parse_module(text)
    if roots:
        fseen, gseen = reachable(mod, roots)
    else:
        fseen, gseen = set(mod.funcs) | set(mod.decls), set(mod.globals)
    # stubs: treat defined function as external
    for sname in stubs:
        if sname in mod.funcs:
            mod.decls[sname] = mod.funcs.pop(sname)
    vp = ValParser(mod)
    bodies = []; protos = []
    for n, f in mod.funcs.items():
        if n not in fseen: continue
        ft = FnTrans(mod, f)
        head, body = ft.run()
        protos.append(head + ';'); bodies.append(body)
    for n, f in mod.decls.items():
        if n not in fseen or n.startswith('llvm.') or n == '__gxx_personality_v0': continue
        ps = ', '.join(mod.ctype(t) for (t, nm, a) in f.params)
        if f.vararg: ps += (', ' if ps else '') + '...'
        protos.append('%s %s(%s);' % (mod.ctype(f.ret), vp.gname(n), ps or 'void'))
        if n in ('__cxa_atexit',):
            ps2 = ', '.join('%s a%d' % (mod.ctype(t), k) for k, (t, nm, a) in enumerate(f.params))
            AUTOSTUBS_TEXT[0] += '%s %s(%s) { return 0; }\n' % (mod.ctype(f.ret), vp.gname(n), ps2 or 'void')
        if any(re.fullmatch(pat, n) for pat in AUTOSTUB_NOOP):
            ps2 = ', '.join('%s a%d' % (mod.ctype(t), k) for k, (t, nm, a) in enumerate(f.params))
            AUTOSTUBS_TEXT[0] += '%s %s(%s) { }\n' % (mod.ctype(f.ret), vp.gname(n), ps2 or 'void')
    gdecl = []; gdef = []
    tinfo = []
    for n, g in mod.globals.items():
        if n not in gseen: continue
        if n in ('llvm.global_ctors', 'llvm.used', 'llvm.compiler.used', 'llvm.global_dtors'):
            continue
        ct = mod.ctype(g['ty']); c = csan(n)
        if g['ext'] and n.startswith('_ZTVN10__cxxabiv1'):
            # vtables of the ABI's type_info classes: only their address (+2 slots) is taken
            gdecl.append('extern %s %s[8];' % (ct, c)); gdef.append('%s %s[8]; /* external ABI vtable */' % (ct, c))
            continue
        gdecl.append('extern %s %s;' % (ct, c))
        if g['ext']:
            if n in RT_PROVIDED_GLOBALS: pass
            else: gdef.append('%s %s; /* external */' % (ct, c))
        else:
            p = Parser(g['init_text'], mod)
            v = vp.value(p, g['ty'])
            init = v.c
            if isinstance(g['ty'], (TInt, TFP, TPtr)): gdef.append('%s %s = %s;' % (ct, c, init))
            else: gdef.append('%s %s = %s;' % (ct, c, init if init.startswith('{') else '{0}'))
        if n.startswith('_ZTI'):
            bases = []
            if g['init_text']:
                bases = [b for b in re.findall(r'@(_ZTI[A-Za-z0-9_]+)', g['init_text'])]
            tinfo.append((n, bases))
    # global ctors
    ctors = []
    if 'llvm.global_ctors' in mod.globals:
        ctors = re.findall(r'void \(\)\* @("[^"]+"|[-A-Za-z$._0-9]+)', mod.globals['llvm.global_ctors']['init_text'] or '')
    out = ['#include "rt.h"']
    out += mod.tydecls_final() if hasattr(mod, 'tydecls_final') else []
    ctors = [c for c in ctors if c.strip('"') in fseen]
    return mod, protos, gdecl, gdef, bodies, tinfo, ctors

def emit(text, roots, stubs, outpath):
    mod, protos, gdecl, gdef, bodies, tinfo, ctors = translate(text, roots, stubs)
    # forward-declare all named structs
    fw = ['struct %s;' % mod.sname(t) for t in mod.structs.values()]
    with open(outpath, 'w') as f:
        f.write('#include "rt.h"\n')
        f.write('\n'.join(fw) + '\n')
        f.write('\n'.join(mod.tydecls) + '\n')
        f.write('\n'.join(protos) + '\n')
        f.write('\n'.join(gdecl) + '\n')
        f.write('\n'.join(gdef) + '\n')
        # typeinfo subtype relation
        f.write('int rt_std_subtype(void* thrown, void* clause);\n')
        f.write('int rt_subtype(void* thrown, void* clause) {\n  if (thrown == clause) return 1;\n')
        for n, bases in tinfo:
            for b in bases:
                if b != n and b in mod.globals:
                    f.write('  if (thrown == (void*)&%s) return rt_subtype((void*)&%s, clause);\n' % (csan(n), csan(b)))
        f.write('  return rt_std_subtype(thrown, clause);\n}\n')
        f.write(AUTOSTUBS_TEXT[0])
        f.write('void rt_global_ctors(void) {\n' + ''.join('  %s();\n' % csan(c.strip('"')) for c in ctors if c.strip('"') in mod.funcs) + '}\n')
        f.write('\n'.join(bodies))
        f.write('\n#include "rt_impl.c"\n')
    return mod

if __name__ == '__main__':
    import argparse
    ap = argparse.ArgumentParser()
    ap.add_argument('ll'); ap.add_argument('-o', required=True)
    ap.add_argument('--root', action='append', default=[])
    ap.add_argument('--stub', action='append', default=[])
    a = ap.parse_args()
    emit(open(a.ll).read(), a.root, a.stub, a.o)
