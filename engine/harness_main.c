/* native driver for harnesses: reads "name v0 v1 ..." lines from stdin, runs the harness,
 * prints "name: <outs>" / SKIP / FAIL lines.  Exit code 1 if any CHECK failed. */
#include "harness.h"
uint64_t vin[NIN];
jmp_buf vh_skip; int vh_failed; int vh_quiet;
static struct { const char* name; void (*fn)(void); } tab[512]; static int ntab;
void vh_register(const char* name, void (*fn)(void)) { tab[ntab].name = name; tab[ntab].fn = fn; ntab++; }
void rt_global_ctors(void) __attribute__((weak));
int main(int argc, char** argv)
{
  static char line[1 << 16];
  int anyfail = 0;
  if (rt_global_ctors) rt_global_ctors();
  if (argc > 1 && !strcmp(argv[1], "-q")) vh_quiet = 1;
  setvbuf(stdout, 0, _IOLBF, 0);
  while (fgets(line, sizeof line, stdin)) {
    char* save; char* nm = strtok_r(line, " \n", &save);
    if (!nm) continue;
    memset(vin, 0, sizeof vin);
    int k = 0; char* t;
    while ((t = strtok_r(0, " \n", &save)) && k < NIN) vin[k++] = strtoull(t, 0, 0);
    int found = 0;
    for (int i = 0; i < ntab; i++) if (!strcmp(tab[i].name, nm)) {
      found = 1; vh_failed = 0;
      printf("%s:", nm);
      if (setjmp(vh_skip) == 0) { tab[i].fn(); printf(vh_failed ? " FAILED\n" : " ok\n"); }
      else printf(" SKIP\n");
      anyfail |= vh_failed;
    }
    if (!found) { printf("%s: UNKNOWN\n", nm); anyfail = 1; }
  }
  return anyfail;
}
