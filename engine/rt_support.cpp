// Support TU linked into every E2 module: out-of-line libstdc++ functions that live in libstdc++.so,
// re-implemented from their documented algorithm so that they are executed by the engine like any
// other code (red-black tree primitives of std::map / std::set).  Part of the trusted base; the
// executor validation (irsym concrete run vs native build) exercises them on every run.
#include <bits/stl_tree.h>
namespace std {
static _Rb_tree_node_base* local_increment(_Rb_tree_node_base* x) noexcept {
   if (x->_M_right != nullptr) { x = x->_M_right; while (x->_M_left != nullptr) x = x->_M_left; }
   else { _Rb_tree_node_base* y = x->_M_parent; while (x == y->_M_right) { x = y; y = y->_M_parent; } if (x->_M_right != y) x = y; }
   return x;
}
_Rb_tree_node_base* _Rb_tree_increment(_Rb_tree_node_base* x) noexcept { return local_increment(x); }
const _Rb_tree_node_base* _Rb_tree_increment(const _Rb_tree_node_base* x) noexcept { return local_increment(const_cast<_Rb_tree_node_base*>(x)); }
static _Rb_tree_node_base* local_decrement(_Rb_tree_node_base* x) noexcept {
   if (x->_M_color == _S_red && x->_M_parent->_M_parent == x) x = x->_M_right;
   else if (x->_M_left != nullptr) { _Rb_tree_node_base* y = x->_M_left; while (y->_M_right != nullptr) y = y->_M_right; x = y; }
   else { _Rb_tree_node_base* y = x->_M_parent; while (x == y->_M_left) { x = y; y = y->_M_parent; } x = y; }
   return x;
}
_Rb_tree_node_base* _Rb_tree_decrement(_Rb_tree_node_base* x) noexcept { return local_decrement(x); }
const _Rb_tree_node_base* _Rb_tree_decrement(const _Rb_tree_node_base* x) noexcept { return local_decrement(const_cast<_Rb_tree_node_base*>(x)); }
static void rotate_left(_Rb_tree_node_base* const x, _Rb_tree_node_base*& root) {
   _Rb_tree_node_base* const y = x->_M_right;
   x->_M_right = y->_M_left;
   if (y->_M_left != nullptr) y->_M_left->_M_parent = x;
   y->_M_parent = x->_M_parent;
   if (x == root) root = y; else if (x == x->_M_parent->_M_left) x->_M_parent->_M_left = y; else x->_M_parent->_M_right = y;
   y->_M_left = x; x->_M_parent = y;
}
static void rotate_right(_Rb_tree_node_base* const x, _Rb_tree_node_base*& root) {
   _Rb_tree_node_base* const y = x->_M_left;
   x->_M_left = y->_M_right;
   if (y->_M_right != nullptr) y->_M_right->_M_parent = x;
   y->_M_parent = x->_M_parent;
   if (x == root) root = y; else if (x == x->_M_parent->_M_right) x->_M_parent->_M_right = y; else x->_M_parent->_M_left = y;
   y->_M_right = x; x->_M_parent = y;
}
void _Rb_tree_insert_and_rebalance(const bool insert_left, _Rb_tree_node_base* x, _Rb_tree_node_base* p, _Rb_tree_node_base& header) noexcept {
   _Rb_tree_node_base*& root = header._M_parent;
   x->_M_parent = p; x->_M_left = nullptr; x->_M_right = nullptr; x->_M_color = _S_red;
   if (insert_left) {
      p->_M_left = x;
      if (p == &header) { header._M_parent = x; header._M_right = x; }
      else if (p == header._M_left) header._M_left = x;
   } else { p->_M_right = x; if (p == header._M_right) header._M_right = x; }
   while (x != root && x->_M_parent->_M_color == _S_red) {
      _Rb_tree_node_base* const xpp = x->_M_parent->_M_parent;
      if (x->_M_parent == xpp->_M_left) {
         _Rb_tree_node_base* const y = xpp->_M_right;
         if (y && y->_M_color == _S_red) { x->_M_parent->_M_color = _S_black; y->_M_color = _S_black; xpp->_M_color = _S_red; x = xpp; }
         else {
            if (x == x->_M_parent->_M_right) { x = x->_M_parent; rotate_left(x, root); }
            x->_M_parent->_M_color = _S_black; xpp->_M_color = _S_red; rotate_right(xpp, root);
         }
      } else {
         _Rb_tree_node_base* const y = xpp->_M_left;
         if (y && y->_M_color == _S_red) { x->_M_parent->_M_color = _S_black; y->_M_color = _S_black; xpp->_M_color = _S_red; x = xpp; }
         else {
            if (x == x->_M_parent->_M_left) { x = x->_M_parent; rotate_right(x, root); }
            x->_M_parent->_M_color = _S_black; xpp->_M_color = _S_red; rotate_left(xpp, root);
         }
      }
   }
   root->_M_color = _S_black;
}
_Rb_tree_node_base* _Rb_tree_rebalance_for_erase(_Rb_tree_node_base* const z, _Rb_tree_node_base& header) noexcept {
   _Rb_tree_node_base*& root = header._M_parent; _Rb_tree_node_base*& leftmost = header._M_left; _Rb_tree_node_base*& rightmost = header._M_right;
   _Rb_tree_node_base* y = z; _Rb_tree_node_base* x = nullptr; _Rb_tree_node_base* x_parent = nullptr;
   if (y->_M_left == nullptr) x = y->_M_right;
   else if (y->_M_right == nullptr) x = y->_M_left;
   else { y = y->_M_right; while (y->_M_left != nullptr) y = y->_M_left; x = y->_M_right; }
   if (y != z) {
      z->_M_left->_M_parent = y; y->_M_left = z->_M_left;
      if (y != z->_M_right) { x_parent = y->_M_parent; if (x) x->_M_parent = y->_M_parent; y->_M_parent->_M_left = x; y->_M_right = z->_M_right; z->_M_right->_M_parent = y; }
      else x_parent = y;
      if (root == z) root = y; else if (z->_M_parent->_M_left == z) z->_M_parent->_M_left = y; else z->_M_parent->_M_right = y;
      y->_M_parent = z->_M_parent; std::swap(y->_M_color, z->_M_color); y = z;
   } else {
      x_parent = y->_M_parent; if (x) x->_M_parent = y->_M_parent;
      if (root == z) root = x; else if (z->_M_parent->_M_left == z) z->_M_parent->_M_left = x; else z->_M_parent->_M_right = x;
      if (leftmost == z) { if (z->_M_right == nullptr) leftmost = z->_M_parent; else leftmost = _Rb_tree_node_base::_S_minimum(x); }
      if (rightmost == z) { if (z->_M_left == nullptr) rightmost = z->_M_parent; else rightmost = _Rb_tree_node_base::_S_maximum(x); }
   }
   if (y->_M_color != _S_red) {
      while (x != root && (x == nullptr || x->_M_color == _S_black))
         if (x == x_parent->_M_left) {
            _Rb_tree_node_base* w = x_parent->_M_right;
            if (w->_M_color == _S_red) { w->_M_color = _S_black; x_parent->_M_color = _S_red; rotate_left(x_parent, root); w = x_parent->_M_right; }
            if ((w->_M_left == nullptr || w->_M_left->_M_color == _S_black) && (w->_M_right == nullptr || w->_M_right->_M_color == _S_black)) { w->_M_color = _S_red; x = x_parent; x_parent = x_parent->_M_parent; }
            else {
               if (w->_M_right == nullptr || w->_M_right->_M_color == _S_black) { w->_M_left->_M_color = _S_black; w->_M_color = _S_red; rotate_right(w, root); w = x_parent->_M_right; }
               w->_M_color = x_parent->_M_color; x_parent->_M_color = _S_black; if (w->_M_right) w->_M_right->_M_color = _S_black; rotate_left(x_parent, root); break;
            }
         } else {
            _Rb_tree_node_base* w = x_parent->_M_left;
            if (w->_M_color == _S_red) { w->_M_color = _S_black; x_parent->_M_color = _S_red; rotate_right(x_parent, root); w = x_parent->_M_left; }
            if ((w->_M_right == nullptr || w->_M_right->_M_color == _S_black) && (w->_M_left == nullptr || w->_M_left->_M_color == _S_black)) { w->_M_color = _S_red; x = x_parent; x_parent = x_parent->_M_parent; }
            else {
               if (w->_M_left == nullptr || w->_M_left->_M_color == _S_black) { w->_M_right->_M_color = _S_black; w->_M_color = _S_red; rotate_left(w, root); w = x_parent->_M_left; }
               w->_M_color = x_parent->_M_color; x_parent->_M_color = _S_black; if (w->_M_left) w->_M_left->_M_color = _S_black; rotate_right(x_parent, root); break;
            }
         }
      if (x) x->_M_color = _S_black;
   }
   return y;
}
}
