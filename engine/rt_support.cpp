// Support TU linked into every E2 module: out-of-line libstdc++ functions that live in libstdc++.so,
// re-implemented from their documented algorithm so that they are executed by the engine like any
// other code (red-black tree primitives of std::map / std::set).  Part of the trusted base; the
// executor validation (irsym concrete run vs native build) exercises them on every run.
#include <bits/stl_tree.h>
namespace std {
static _Rb_tree_node_base* local_increment(_Rb_tree_node_base* x) noexcept {
   if (x->_M_right != nullptr) { x = x->_M_right; while (x->_M_left != nullptr) x = x->_M_left; }
   else { _Rb_tree_node_base* y = x->_M_parent; while (x == y->_M_right) { x = y; y = y->_M_parent; } if (x->_M_right != y) x = y; }
   return x;
}
_Rb_tree_node_base* _Rb_tree_increment(_Rb_tree_node_base* x) noexcept { return local_increment(x); }
const _Rb_tree_node_base* _Rb_tree_increment(const _Rb_tree_node_base* x) noexcept { return local_increment(const_cast<_Rb_tree_node_base*>(x)); }
static _Rb_tree_node_base* local_decrement(_Rb_tree_node_base* x) noexcept {
   if (x->_M_color == _S_red && x->_M_parent->_M_parent == x) x = x->_M_right;
   else if (x->_M_left != nullptr) { _Rb_tree_node_base* y = x->_M_left; while (y->_M_right != nullptr) y = y->_M_right; x = y; }
   else { _Rb_tree_node_base* y = x->_M_parent; while (x == y->_M_left) { x = y; y = y->_M_parent; } x = y; }
   return x;
}
_Rb_tree_node_base* _Rb_tree_decrement(_Rb_tree_node_base* x) noexcept { return local_decrement(x); }
const _Rb_tree_node_base* _Rb_tree_decrement(const _Rb_tree_node_base* x) noexcept { return local_decrement(const_cast<_Rb_tree_node_base*>(x)); }
static void rotate_left(_Rb_tree_node_base* const x, _Rb_tree_node_base*& root) {
   _Rb_tree_node_base* const y = x->_M_right;
   x->_M_right = y->_M_left;
   if (y->_M_left != nullptr) y->_M_left->_M_parent = x;
   y->_M_parent = x->_M_parent;
   if (x == root) root = y; else if (x == x->_M_parent->_M_left) x->_M_parent->_M_left = y; else x->_M_parent->_M_right = y;
   y->_M_left = x; x->_M_parent = y;
}
static void rotate_right(_Rb_tree_node_base* const x, _Rb_tree_node_base*& root) {
   _Rb_tree_node_base* const y = x->_M_left;
   x->_M_left = y->_M_right;
   if (y->_M_right != nullptr) y->_M_right->_M_parent = x;
   y->_M_parent = x->_M_parent;
   if (x == root) root = y; else if (x == x->_M_parent->_M_right) x->_M_parent->_M_right = y; else x->_M_parent->_M_left = y;
   y->_M_right = x; x->_M_parent = y;
}
void _Rb_tree_insert_and_rebalance(const bool insert_left, _Rb_tree_node_base* x, _Rb_tree_node_base* p, _Rb_tree_node_base& header) noexcept {
   _Rb_tree_node_base*& root = header._M_parent;
   x->_M_parent = p; x->_M_left = nullptr; x->_M_right = nullptr; x->_M_color = _S_red;
   if (insert_left) {
      p->_M_left = x;
      if (p == &header) { header._M_parent = x; header._M_right = x; }
      else if (p == header._M_left) header._M_left = x;
   } else { p->_M_right = x; if (p == header._M_right) header._M_right = x; }
   while (x != root && x->_M_parent->_M_color == _S_red) {
      _Rb_tree_node_base* const xpp = x->_M_parent->_M_parent;
      if (x->_M_parent == xpp->_M_left) {
         _Rb_tree_node_base* const y = xpp->_M_right;
         if (y && y->_M_color == _S_red) { x->_M_parent->_M_color = _S_black; y->_M_color = _S_black; xpp->_M_color = _S_red; x = xpp; }
         else {
            if (x == x->_M_parent->_M_right) { x = x->_M_parent; rotate_left(x, root); }
            x->_M_parent->_M_color = _S_black; xpp->_M_color = _S_red; rotate_right(xpp, root);
         }
      } else {
         _Rb_tree_node_base* const y = xpp->_M_left;
         if (y && y->_M_color == _S_red) { x->_M_parent->_M_color = _S_black; y->_M_color = _S_black; xpp->_M_color = _S_red; x = xpp; }
         else {
            if (x == x->_M_parent->_M_left) { x = x->_M_parent; rotate_right(x, root); }
            x->_M_parent->_M_color = _S_black; xpp->_M_color = _S_red; rotate_left(xpp, root);
         }
      }
   }
   root->_M_color = _S_black;
}
_Rb_tree_node_base* _Rb_tree_rebalance_for_erase(_Rb_tree_node_base* const z, _Rb_tree_node_base& header) noexcept {
   _Rb_tree_node_base*& root = header._M_parent; _Rb_tree_node_base*& leftmost = header._M_left; _Rb_tree_node_base*& rightmost = header._M_right;
   _Rb_tree_node_base* y = z; _Rb_tree_node_base* x = nullptr; _Rb_tree_node_base* x_parent = nullptr;
   if (y->_M_left == nullptr) x = y->_M_right;
   else if (y->_M_right == nullptr) x = y->_M_left;
   else { y = y->_M_right; while (y->_M_left != nullptr) y = y->_M_left; x = y->_M_right; }
   if (y != z) {
      z->_M_left->_M_parent = y; y->_M_left = z->_M_left;
      if (y != z->_M_right) { x_parent = y->_M_parent; if (x) x->_M_parent = y->_M_parent; y->_M_parent->_M_left = x; y->_M_right = z->_M_right; z->_M_right->_M_parent = y; }
      else x_parent = y;
      if (root == z) root = y; else if (z->_M_parent->_M_left == z) z->_M_parent->_M_left = y; else z->_M_parent->_M_right = y;
      y->_M_parent = z->_M_parent; std::swap(y->_M_color, z->_M_color); y = z;
   } else {
      x_parent = y->_M_parent; if (x) x->_M_parent = y->_M_parent;
      if (root == z) root = x; else if (z->_M_parent->_M_left == z) z->_M_parent->_M_left = x; else z->_M_parent->_M_right = x;
      if (leftmost == z) { if (z->_M_right == nullptr) leftmost = z->_M_parent; else leftmost = _Rb_tree_node_base::_S_minimum(x); }
      if (rightmost == z) { if (z->_M_left == nullptr) rightmost = z->_M_parent; else rightmost = _Rb_tree_node_base::_S_maximum(x); }
   }
   if (y->_M_color != _S_red) {
      while (x != root && (x == nullptr || x->_M_color == _S_black))
         if (x == x_parent->_M_left) {
            _Rb_tree_node_base* w = x_parent->_M_right;
            if (w->_M_color == _S_red) { w->_M_color = _S_black; x_parent->_M_color = _S_red; rotate_left(x_parent, root); w = x_parent->_M_right; }
            if ((w->_M_left == nullptr || w->_M_left->_M_color == _S_black) && (w->_M_right == nullptr || w->_M_right->_M_color == _S_black)) { w->_M_color = _S_red; x = x_parent; x_parent = x_parent->_M_parent; }
            else {
               if (w->_M_right == nullptr || w->_M_right->_M_color == _S_black) { w->_M_left->_M_color = _S_black; w->_M_color = _S_red; rotate_right(w, root); w = x_parent->_M_right; }
               w->_M_color = x_parent->_M_color; x_parent->_M_color = _S_black; if (w->_M_right) w->_M_right->_M_color = _S_black; rotate_left(x_parent, root); break;
            }
         } else {
            _Rb_tree_node_base* w = x_parent->_M_left;
            if (w->_M_color == _S_red) { w->_M_color = _S_black; x_parent->_M_color = _S_red; rotate_right(x_parent, root); w = x_parent->_M_left; }
            if ((w->_M_right == nullptr || w->_M_right->_M_color == _S_black) && (w->_M_left == nullptr || w->_M_left->_M_color == _S_black)) { w->_M_color = _S_red; x = x_parent; x_parent = x_parent->_M_parent; }
            else {
               if (w->_M_left == nullptr || w->_M_left->_M_color == _S_black) { w->_M_right->_M_color = _S_black; w->_M_color = _S_red; rotate_left(w, root); w = x_parent->_M_left; }
               w->_M_color = x_parent->_M_color; x_parent->_M_color = _S_black; if (w->_M_left) w->_M_left->_M_color = _S_black; rotate_right(x_parent, root); break;
            }
         }
      if (x) x->_M_color = _S_black;
   }
   return y;
}
}

// ---- std::list node primitives (libstdc++ src/c++98/list.cc)
#include <list>
namespace std { namespace __detail {
void _List_node_base::_M_hook(_List_node_base* const position) noexcept {
   this->_M_next = position; this->_M_prev = position->_M_prev;
   position->_M_prev->_M_next = this; position->_M_prev = this;
}
void _List_node_base::_M_unhook() noexcept {
   _List_node_base* const next_node = this->_M_next; _List_node_base* const prev_node = this->_M_prev;
   prev_node->_M_next = next_node; next_node->_M_prev = prev_node;
}
void _List_node_base::_M_transfer(_List_node_base* const first, _List_node_base* const last) noexcept {
   if (this != last) {
      last->_M_prev->_M_next = this; first->_M_prev->_M_next = last; this->_M_prev->_M_next = first;
      _List_node_base* const tmp = this->_M_prev;
      this->_M_prev = last->_M_prev; last->_M_prev = first->_M_prev; first->_M_prev = tmp;
   }
}
void _List_node_base::_M_reverse() noexcept {
   _List_node_base* tmp = this;
   do { std::swap(tmp->_M_next, tmp->_M_prev); tmp = tmp->_M_prev; } while (tmp != this);
}
void _List_node_base::swap(_List_node_base& x, _List_node_base& y) noexcept {
   if (x._M_next != &x) {
      if (y._M_next != &y) { std::swap(x._M_next, y._M_next); std::swap(x._M_prev, y._M_prev); x._M_next->_M_prev = x._M_prev->_M_next = &x; y._M_next->_M_prev = y._M_prev->_M_next = &y; }
      else { y._M_next = x._M_next; y._M_prev = x._M_prev; y._M_next->_M_prev = y._M_prev->_M_next = &y; x._M_next = x._M_prev = &x; }
   } else if (y._M_next != &y) { x._M_next = y._M_next; x._M_prev = y._M_prev; x._M_next->_M_prev = x._M_prev->_M_next = &x; y._M_next = y._M_prev = &y; }
}
} }

// ---- hash table rehash policy (libstdc++ src/c++11/hashtable_c++0x.cc); prime list cut at 1031 (larger tables are outside every bound used here)
#include <unordered_set>
namespace std { namespace __detail {
static const unsigned long vs_primes[] = { 2ul, 3ul, 5ul, 7ul, 11ul, 13ul, 17ul, 19ul, 23ul, 29ul, 31ul, 37ul, 41ul, 43ul, 47ul, 53ul, 59ul, 61ul, 67ul, 71ul, 73ul, 79ul, 83ul, 89ul, 97ul, 103ul, 109ul, 113ul, 127ul, 137ul, 139ul, 149ul,
   157ul, 167ul, 179ul, 193ul, 199ul, 211ul, 227ul, 241ul, 257ul, 277ul, 293ul, 313ul, 337ul, 359ul, 383ul, 409ul, 439ul, 467ul, 503ul, 541ul, 577ul, 619ul, 661ul, 709ul, 761ul, 823ul, 887ul, 953ul, 1031ul };
std::size_t _Prime_rehash_policy::_M_next_bkt(std::size_t n) const {
   static const unsigned char fast_bkt[] = { 2, 2, 2, 3, 5, 5, 7, 7, 11, 11, 11, 11, 13, 13 };
   if (n < sizeof(fast_bkt)) {
      if (n == 0) return 1;
      _M_next_resize = (std::size_t) ((double) fast_bkt[n] * (double) _M_max_load_factor);
      return fast_bkt[n];
   }
   const unsigned long* p = vs_primes + 6;
   const unsigned long* last = vs_primes + sizeof(vs_primes) / sizeof(vs_primes[0]) - 1;
   while (p != last && *p < n) ++p;
   _M_next_resize = (std::size_t) ((double) *p * (double) _M_max_load_factor);
   return *p;
}
std::pair<bool, std::size_t> _Prime_rehash_policy::_M_need_rehash(std::size_t n_bkt, std::size_t n_elt, std::size_t n_ins) const {
   if (n_elt + n_ins > _M_next_resize) {
      double min_bkts = (double) std::max<std::size_t>(n_elt + n_ins, _M_next_resize ? 0 : 11) / (double) _M_max_load_factor;
      if (min_bkts >= (double) n_bkt)
         return { true, _M_next_bkt(std::max<std::size_t>((std::size_t) min_bkts + 1, n_bkt * _S_growth_factor)) };
      _M_next_resize = (std::size_t) ((double) n_bkt * (double) _M_max_load_factor);
      return { false, 0 };
   }
   return { false, 0 };
}
} }

// ---- std::getline(istream&, string&, char) ([string.io]) on top of the engine's input stream model
#include <istream>
#include <string>
extern "C" int vs_istream_getc(void* is);      // next byte of the modelled stream, -1 at end of file
namespace vs_model {
std::istream& getline(std::istream& is, std::string& str, char delim) __asm__("_ZSt7getlineIcSt11char_traitsIcESaIcEERSt13basic_istreamIT_T0_ES7_RNSt7__cxx1112basic_stringIS4_S5_T1_EES4_");
std::istream& getline(std::istream& is, std::string& str, char delim) {
   std::ios_base::iostate err = std::ios_base::goodbit; unsigned long n = 0;
   if (!is.good()) { is.setstate(std::ios_base::failbit); return is; }      // sentry
   str.erase();
   for (;;) {
      int c = vs_istream_getc(&is);
      if (c < 0) { err |= std::ios_base::eofbit; break; }
      ++n;
      if ((char) c == delim) break;
      str += (char) c;
   }
   if (n == 0) err |= std::ios_base::failbit;
   if (err) is.setstate(err);
   return is;
}
}

// ---- strtok(): [C] 7.24.5.8, with its hidden static scan position (so that a use of strtok in library code shows up as what
// it is in a multi-threaded program: writes to process-wide static storage)
extern "C" {
static char* vs_strtok_position;
char* strtok(char* s, const char* delim) noexcept {
   if (s == nullptr) s = vs_strtok_position;
   if (s == nullptr) return nullptr;
   auto is_delim = [delim](char c) { for (const char* d = delim; *d; ++d) if (*d == c) return true; return false; };
   while (*s && is_delim(*s)) ++s;
   if (!*s) { vs_strtok_position = nullptr; return nullptr; }
   char* tok = s;
   while (*s && !is_delim(*s)) ++s;
   if (*s) { *s = 0; vs_strtok_position = s + 1; } else vs_strtok_position = nullptr;
   return tok;
}
}
