"""E2-int: decide irsym's bit-vector queries over the integers.

The executor keeps building bit-vector terms; before a query is sent to z3 every assertion is
translated into integer arithmetic with explicit `mod 2^k` exactly where the bit-vector operation
can wrap (an interval analysis removes the `mod` where the result provably fits).  Division and
remainder by constants, multiplication by constants, extraction and concatenation become linear
integer constraints, which z3 decides quickly where bit-blasting of the same 64-bit chain of
`/ 10`, `% 10` does not terminate.  Semantics are those of the bit-vector operations (wrap-around
included); the translation is cross-checked against the bit-vector solver on the narrow types.
"""
import z3

K = z3


class Tr:
    def __init__(self):
        self.cache = {}
        self.vars = {}       # bv var name -> (Int var, width)
        self.side = []       # range constraints of the variables
        self.keep = []
        self.bounds = {}     # bv var name -> (lo, hi): facts asserted on the current path (see learn())
        self.added = []      # cache keys in insertion order (for scope handling)
        self.marks = []      # per open scope: (len(added), bounds snapshot)

    def push(self):
        self.marks.append((len(self.added), dict(self.bounds)))

    def pop(self):
        # translations made inside the scope may rely on bounds learnt in it: forget them
        n, b = self.marks.pop()
        for k in self.added[n:]:
            self.cache.pop(k, None)
        del self.added[n:]
        self.bounds = b

    def learn(self, e):
        """path fact `e` (a z3 Bool over bit-vectors) is being asserted: remember simple variable bounds"""
        d = e.decl(); kind = d.kind(); ch = e.children()
        if kind == z3.Z3_OP_AND:
            for x in ch:
                self.learn(x)
            return
        neg = False
        if kind == z3.Z3_OP_NOT:
            neg = True; e = ch[0]; d = e.decl(); kind = d.kind(); ch = e.children()
        if len(ch) != 2 or not z3.is_bv(ch[0]):
            return
        a, b = ch
        def isvar(x):
            return x.decl().kind() == z3.Z3_OP_UNINTERPRETED and not x.children()
        swap = False
        if isvar(b) and z3.is_bv_value(a):
            a, b = b, a; swap = True
        if not (isvar(a) and z3.is_bv_value(b)):
            return
        w = a.size(); m = 1 << w; half = m >> 1; cv = b.as_long(); cs = cv - m if cv >= half else cv
        OPS = {z3.Z3_OP_ULT: 'ult', z3.Z3_OP_ULEQ: 'ule', z3.Z3_OP_UGT: 'ugt', z3.Z3_OP_UGEQ: 'uge', z3.Z3_OP_SLT: 'slt', z3.Z3_OP_SLEQ: 'sle', z3.Z3_OP_SGT: 'sgt', z3.Z3_OP_SGEQ: 'sge', z3.Z3_OP_EQ: 'eq'}
        op = OPS.get(kind)
        if op is None:
            return
        if swap and op != 'eq':          # c op x  ->  x op' c
            op = {'ult': 'ugt', 'ule': 'uge', 'ugt': 'ult', 'uge': 'ule', 'slt': 'sgt', 'sle': 'sge', 'sgt': 'slt', 'sge': 'sle'}[op]
        if neg:
            if op == 'eq':
                return
            op = {'ult': 'uge', 'ule': 'ugt', 'ugt': 'ule', 'uge': 'ult', 'slt': 'sge', 'sle': 'sgt', 'sgt': 'sle', 'sge': 'slt'}[op]
        lo, hi = 0, m - 1
        if op == 'eq': lo = hi = cv
        elif op == 'ult': hi = cv - 1
        elif op == 'ule': hi = cv
        elif op == 'ugt': lo = cv + 1
        elif op == 'uge': lo = cv
        elif op in ('slt', 'sle'):
            top = cs - 1 if op == 'slt' else cs
            if top >= 0:
                return                   # [0, top] u [half, m): not one interval
            lo, hi = half, m + top
        elif op in ('sgt', 'sge'):
            bot = cs + 1 if op == 'sgt' else cs
            if bot < 0:
                return
            lo, hi = bot, half - 1
        if lo > hi:
            return
        nm = a.decl().name()
        ol, oh = self.bounds.get(nm, (0, m - 1))
        nl, nh = max(ol, lo), min(oh, hi)
        if nl <= nh and (nl, nh) != (ol, oh):
            self.bounds[nm] = (nl, nh)
            self.cache.clear()           # cached translations used the wider interval (still valid, but they keep the case splits)

    # returns (int term, lo, hi) for a bit-vector expression; value always in [0, 2^w - 1]
    def bv(self, e):
        k = e.get_id()
        r = self.cache.get(k)
        if r is None:
            r = self._bv(e)
            self.cache[k] = r; self.added.append(k)
            self.keep.append(e)       # AST ids are recycled once an expression is freed: keep it alive
        return r

    def wrap(self, t, lo, hi, w):
        m = 1 << w
        if lo >= 0 and hi < m:
            return (t, lo, hi)
        # a single possible wrap is expressed by a case split instead of mod (much easier for the LIA solver)
        if lo >= -m and hi < m:
            return (z3.If(t < 0, t + m, t), 0, m - 1)
        if lo >= 0 and hi < 2 * m:
            return (z3.If(t >= m, t - m, t), 0, m - 1)
        return (t % m, 0, m - 1)

    def _bv(self, e):
        w = e.size(); m = 1 << w
        if z3.is_bv_value(e):
            v = e.as_long(); return (z3.IntVal(v), v, v)
        d = e.decl(); kind = d.kind(); ch = e.children()
        if kind == z3.Z3_OP_UNINTERPRETED and not ch:
            nm = d.name()
            if nm not in self.vars:
                iv = z3.Int('i!' + nm)
                self.vars[nm] = (iv, w)
                self.side.append(z3.And(iv >= 0, iv < m))
            lo, hi = self.bounds.get(nm, (0, m - 1))
            return (self.vars[nm][0], lo, hi)
        if kind == z3.Z3_OP_BADD:
            t, lo, hi = self.bv(ch[0])
            for c in ch[1:]:
                t2, l2, h2 = self.bv(c); t = t + t2; lo += l2; hi += h2
            return self.wrap(t, lo, hi, w)
        if kind == z3.Z3_OP_BSUB:
            t, lo, hi = self.bv(ch[0])
            for c in ch[1:]:
                t2, l2, h2 = self.bv(c); t = t - t2; lo -= h2; hi -= l2
            return self.wrap(t, lo, hi, w)
        if kind == z3.Z3_OP_BNEG:
            t, lo, hi = self.bv(ch[0])
            return self.wrap(-t, -hi, -lo, w)
        if kind == z3.Z3_OP_BMUL:
            t, lo, hi = (z3.IntVal(1), 1, 1)
            for c in ch:
                if z3.is_bv_value(c) and c.as_long() >= (m >> 1):
                    # multiplication by a "negative" constant: x * c == -(x * (2^w - c))  (mod 2^w)
                    k = m - c.as_long()
                    t = -(t * k); lo, hi = -(hi * k), -(lo * k)
                    continue
                t2, l2, h2 = self.bv(c); t = t * t2
                cands = (lo * l2, lo * h2, hi * l2, hi * h2); lo, hi = min(cands), max(cands)
            return self.wrap(t, lo, hi, w)
        if kind in (z3.Z3_OP_BUDIV, z3.Z3_OP_BUDIV_I):
            a, la, ha = self.bv(ch[0]); b, lb, hb = self.bv(ch[1])
            if lb > 0:
                return (a / b, la // hb, ha // lb)
            return (z3.If(b == 0, z3.IntVal(m - 1), a / b), 0, m - 1)
        if kind in (z3.Z3_OP_BUREM, z3.Z3_OP_BUREM_I):
            a, la, ha = self.bv(ch[0]); b, lb, hb = self.bv(ch[1])
            if lb > 0:
                return (a % b, 0, min(ha, hb - 1))
            return (z3.If(b == 0, a, a % b), 0, m - 1)
        if kind in (z3.Z3_OP_BSDIV, z3.Z3_OP_BSDIV_I, z3.Z3_OP_BSREM, z3.Z3_OP_BSREM_I):
            a, la, ha = self.bv(ch[0]); b, lb, hb = self.bv(ch[1]); half = 1 << (w - 1)
            isdiv = kind in (z3.Z3_OP_BSDIV, z3.Z3_OP_BSDIV_I)
            if ha < half and hb < half and lb > 0:          # both operands non-negative: same as unsigned
                return (a / b, la // hb, ha // lb) if isdiv else (a % b, 0, min(ha, hb - 1))
            sa, sb = self.signed(a, w), self.signed(b, w)
            absa = z3.If(sa >= 0, sa, -sa); absb = z3.If(sb >= 0, sb, -sb)
            if isdiv:
                q = absa / absb
                r = z3.If(sb == 0, z3.If(sa >= 0, z3.IntVal(-1), z3.IntVal(1)), z3.If((sa >= 0) == (sb >= 0), q, -q))
            else:
                rr = absa % absb
                r = z3.If(sb == 0, sa, z3.If(sa >= 0, rr, -rr))
            return (r % m, 0, m - 1)
        if kind == z3.Z3_OP_EXTRACT:
            hi_, lo_ = d.params()
            a, la, ha = self.bv(ch[0])
            t = a
            if lo_ > 0:
                t = t / (1 << lo_); la >>= lo_; ha >>= lo_
            return self.wrap(t, la, ha, hi_ - lo_ + 1)
        if kind == z3.Z3_OP_CONCAT:
            t = None; lo = hi = 0
            for c in ch:
                cw = c.size(); ct, cl, chh = self.bv(c)
                if t is None:
                    t, lo, hi = ct, cl, chh
                else:
                    t = t * (1 << cw) + ct; lo = lo * (1 << cw) + cl; hi = hi * (1 << cw) + chh
            return (t, lo, hi)
        if kind == z3.Z3_OP_ZERO_EXT:
            return self.bv(ch[0])
        if kind == z3.Z3_OP_SIGN_EXT:
            a, la, ha = self.bv(ch[0]); cw = ch[0].size(); half = 1 << (cw - 1)
            if ha < half:
                return (a, la, ha)
            return (z3.If(a >= half, a + (m - (1 << cw)), a), 0, m - 1)
        if kind == z3.Z3_OP_ITE:
            c = self.bool(ch[0]); a, la, ha = self.bv(ch[1]); b, lb, hb = self.bv(ch[2])
            return (z3.If(c, a, b), min(la, lb), max(ha, hb))
        if kind == z3.Z3_OP_BAND and len(ch) == 2:
            for x, y in ((ch[0], ch[1]), (ch[1], ch[0])):
                if z3.is_bv_value(y):
                    mv = y.as_long()
                    if mv & (mv + 1) == 0:          # low mask 2^j - 1
                        a, la, ha = self.bv(x)
                        if ha <= mv:
                            return (a, la, ha)
                        return (a % (mv + 1), 0, mv)
        if kind == z3.Z3_OP_BSHL and z3.is_bv_value(ch[1]):
            s = ch[1].as_long(); a, la, ha = self.bv(ch[0])
            if s >= w:
                return (z3.IntVal(0), 0, 0)
            return self.wrap(a * (1 << s), la << s, ha << s, w)
        if kind == z3.Z3_OP_BLSHR and z3.is_bv_value(ch[1]):
            s = ch[1].as_long(); a, la, ha = self.bv(ch[0])
            if s >= w:
                return (z3.IntVal(0), 0, 0)
            return (a / (1 << s), la >> s, ha >> s)
        if kind == z3.Z3_OP_BASHR and z3.is_bv_value(ch[1]):
            s = ch[1].as_long(); a, la, ha = self.bv(ch[0]); half = 1 << (w - 1)
            if s >= w:
                s = w - 1
            if ha < half:                        # non-negative: same as the logical shift
                return (a / (1 << s), la >> s, ha >> s)
            q = self.signed(a, w) / (1 << s)     # floor division = arithmetic shift
            return (z3.If(q < 0, q + m, q), 0, m - 1)
        if kind == z3.Z3_OP_BNOT:
            a, la, ha = self.bv(ch[0])
            return ((m - 1) - a, m - 1 - ha, m - 1 - la)
        raise NotImplementedError('bv->int: %s' % d.name())

    def signed(self, t, w):
        half = 1 << (w - 1)
        return z3.If(t >= half, t - (1 << w), t)

    def bool(self, e):
        k = ('b', e.get_id())
        r = self.cache.get(k)
        if r is None:
            r = self._bool(e)
            self.cache[k] = r; self.added.append(k)
            self.keep.append(e)
        return r

    def _bool(self, e):
        if z3.is_true(e) or z3.is_false(e):
            return e
        d = e.decl(); kind = d.kind(); ch = e.children()
        if kind == z3.Z3_OP_AND:
            return z3.And([self.bool(c) for c in ch])
        if kind == z3.Z3_OP_OR:
            return z3.Or([self.bool(c) for c in ch])
        if kind == z3.Z3_OP_NOT:
            return z3.Not(self.bool(ch[0]))
        if kind == z3.Z3_OP_XOR:
            return z3.Xor(self.bool(ch[0]), self.bool(ch[1]))
        if kind == z3.Z3_OP_IMPLIES:
            return z3.Implies(self.bool(ch[0]), self.bool(ch[1]))
        if kind == z3.Z3_OP_ITE:
            return z3.If(self.bool(ch[0]), self.bool(ch[1]), self.bool(ch[2]))
        if kind in (z3.Z3_OP_EQ, z3.Z3_OP_DISTINCT):
            if z3.is_bool(ch[0]):
                r = self.bool(ch[0]) == self.bool(ch[1])
            else:
                r = self.bv(ch[0])[0] == self.bv(ch[1])[0]
            return r if kind == z3.Z3_OP_EQ else z3.Not(r)
        U = {z3.Z3_OP_ULEQ: lambda a, b: a <= b, z3.Z3_OP_ULT: lambda a, b: a < b, z3.Z3_OP_UGEQ: lambda a, b: a >= b, z3.Z3_OP_UGT: lambda a, b: a > b}
        S = {z3.Z3_OP_SLEQ: lambda a, b: a <= b, z3.Z3_OP_SLT: lambda a, b: a < b, z3.Z3_OP_SGEQ: lambda a, b: a >= b, z3.Z3_OP_SGT: lambda a, b: a > b}
        if kind in U:
            return U[kind](self.bv(ch[0])[0], self.bv(ch[1])[0])
        if kind in S:
            w = ch[0].size()
            return S[kind](self.signed(self.bv(ch[0])[0], w), self.signed(self.bv(ch[1])[0], w))
        if kind == z3.Z3_OP_UNINTERPRETED and not ch:
            return z3.Bool('b!' + d.name())
        raise NotImplementedError('bool->int: %s' % d.name())


class IntValue:
    def __init__(self, v):
        self.v = v

    def as_long(self):
        return self.v


class IntModel:
    """adapter: evaluates bit-vector expressions in a model of the integer translation"""
    def __init__(self, tr, model):
        self.tr = tr; self.model = model

    def eval(self, e, model_completion=True):
        if z3.is_bool(e):
            return self.model.eval(self.tr.bool(e), model_completion=True)
        t = self.tr.bv(e)[0]
        v = self.model.eval(t, model_completion=True)
        return IntValue(v.as_long() % (1 << e.size()))


class IntSolver:
    """drop-in for the executor's incremental z3 solver: push/pop/add/check/model over translated assertions"""
    def __init__(self, timeout_ms):
        self.s = z3.Solver(); self.s.set('timeout', timeout_ms)
        self.tr = Tr(); self.nside = 0

    def push(self):
        self.s.push(); self.tr.push()

    def pop(self):
        self.s.pop(); self.tr.pop()

    def add(self, c):
        t = self.tr.bool(c)
        self.tr.learn(c)
        self.flush_side()
        self.s.add(t)

    def flush_side(self):
        # variable range constraints are global facts: assert them at the base level is not possible
        # inside push/pop scopes, so they are (re-)asserted in the current scope whenever new ones appear
        if self.nside < len(self.tr.side):
            pass
        for c in self.tr.side:
            self.s.add(c)
        self.nside = len(self.tr.side)

    def check(self):
        return self.s.check()

    def model(self):
        return IntModel(self.tr, self.s.model())

    def reason_unknown(self):
        return self.s.reason_unknown()
