/* runtime model: allocation, exceptions, libc shims.  Included at the end of each generated file. */
#include <stdarg.h>
int rt_exc_pending; void* rt_exc_obj; void* rt_exc_type;
#define RT_STD_TI(n) uint8_t* n;
RT_STD_TI(_ZTISt9exception) RT_STD_TI(_ZTISt11logic_error) RT_STD_TI(_ZTISt16invalid_argument) RT_STD_TI(_ZTISt12domain_error)
RT_STD_TI(_ZTISt12length_error) RT_STD_TI(_ZTISt12out_of_range) RT_STD_TI(_ZTISt13runtime_error) RT_STD_TI(_ZTISt11range_error)
RT_STD_TI(_ZTISt14overflow_error) RT_STD_TI(_ZTISt15underflow_error) RT_STD_TI(_ZTISt9bad_alloc) RT_STD_TI(_ZTISt8bad_cast)
RT_STD_TI(_ZTISt20bad_array_new_length) RT_STD_TI(_ZTISt17bad_function_call)
static void* rt_std_base(void* t) {
  if (t == (void*)&_ZTISt11logic_error || t == (void*)&_ZTISt13runtime_error || t == (void*)&_ZTISt9bad_alloc
      || t == (void*)&_ZTISt8bad_cast || t == (void*)&_ZTISt17bad_function_call) return (void*)&_ZTISt9exception;
  if (t == (void*)&_ZTISt16invalid_argument || t == (void*)&_ZTISt12domain_error || t == (void*)&_ZTISt12length_error
      || t == (void*)&_ZTISt12out_of_range) return (void*)&_ZTISt11logic_error;
  if (t == (void*)&_ZTISt11range_error || t == (void*)&_ZTISt14overflow_error || t == (void*)&_ZTISt15underflow_error)
    return (void*)&_ZTISt13runtime_error;
  if (t == (void*)&_ZTISt20bad_array_new_length) return (void*)&_ZTISt9bad_alloc;
  return 0;
}
int rt_std_subtype(void* thrown, void* clause) {
  for (int i = 0; i < 4 && thrown; i++) { if (thrown == clause) return 1; thrown = rt_std_base(thrown); }
  return 0;
}
uint32_t rt_typeid_for(void* ti) { return (uint32_t)(1 + ((uintptr_t)ti & 0xffff)); }  /* refined below: ids by address compare */
uint32_t rt_landing(int n, ...) {
  va_list ap; va_start(ap, n);
  uint32_t sel = 0;
  rt_exc_pending = 0;
  for (int i = 0; i < n; i++) {
    void* c = va_arg(ap, void*);
    if (sel == 0) {
      if (c == 0) sel = 0xffffffffu;             /* catch-all: selector irrelevant, use non-zero */
      else if (rt_subtype(rt_exc_type, c)) sel = rt_typeid_for(c);
    }
  }
  va_end(ap);
  return sel;
}
void rt_resume(void* obj) { rt_exc_obj = obj; rt_exc_pending = 1; }

/* ---- allocation with kind header (detects new/delete[] mismatch) */
#define RT_K_NEW 1
#define RT_K_NEWA 2
#define RT_K_MALLOC 3
#ifndef RT_MAXALLOC
#define RT_MAXALLOC 64
#endif
static uint8_t* rt_alloc(uint64_t n, uint64_t kind) {
  RT_ASSUME(n <= RT_MAXALLOC);
#ifdef RT_FIXEDALLOC
  uint8_t* p = malloc(RT_MAXALLOC + 16);
#else
  uint8_t* p = malloc(n + 16);
#endif
  RT_ASSUME(p != 0);
  *(uint64_t*)p = kind;
  return p + 16;
}
static void rt_dealloc(uint8_t* p, uint64_t kind) {
  if (!p) return;
  uint64_t k = *(uint64_t*)(p - 16);
  RT_ASSERT(k == kind, "mismatched allocation/deallocation function");
  *(uint64_t*)(p - 16) = 0;
  free(p - 16);
}
uint8_t* ext__Znwm(uint64_t n) { return rt_alloc(n, RT_K_NEW); }
uint8_t* ext__Znam(uint64_t n) { return rt_alloc(n, RT_K_NEWA); }
void ext__ZdlPv(uint8_t* p) { rt_dealloc(p, RT_K_NEW); }
void ext__ZdlPvm(uint8_t* p, uint64_t n) { rt_dealloc(p, RT_K_NEW); }
void ext__ZdaPv(uint8_t* p) { rt_dealloc(p, RT_K_NEWA); }
/* ---- exceptions */
static uint8_t rt_exc_buf[256];
uint8_t* ext___cxa_allocate_exception(uint64_t n) { RT_ASSUME(n <= sizeof rt_exc_buf); return rt_exc_buf; }
void ext___cxa_free_exception(uint8_t* p) { }
void ext___cxa_throw(uint8_t* obj, uint8_t* ti, uint8_t* dtor) { rt_exc_obj = obj; rt_exc_type = ti; rt_exc_pending = 1; }
uint8_t* ext___cxa_begin_catch(uint8_t* obj) { rt_exc_pending = 0; return obj; }
void ext___cxa_end_catch(void) { }
void ext___cxa_rethrow(void) { rt_exc_pending = 1; }
void ext__ZSt9terminatev(void) { RT_ASSERT(0, "std::terminate called"); RT_ASSUME(0); }
static void rt_throw_std(void* ti) { rt_exc_obj = rt_exc_buf; rt_exc_type = ti; rt_exc_pending = 1; }
void ext__ZSt20__throw_length_errorPKc(uint8_t* m) { rt_throw_std(&_ZTISt12length_error); }
void ext__ZSt19__throw_logic_errorPKc(uint8_t* m) { rt_throw_std(&_ZTISt11logic_error); }
void ext__ZSt24__throw_out_of_range_fmtPKcz(uint8_t* m, ...) { rt_throw_std(&_ZTISt12out_of_range); }
void ext__ZSt20__throw_out_of_rangePKc(uint8_t* m) { rt_throw_std(&_ZTISt12out_of_range); }
void ext__ZSt17__throw_bad_allocv(void) { rt_throw_std(&_ZTISt9bad_alloc); }
void ext__ZSt28__throw_bad_array_new_lengthv(void) { rt_throw_std(&_ZTISt20bad_array_new_length); }
void ext__ZSt25__throw_bad_function_callv(void) { rt_throw_std(&_ZTISt17bad_function_call); }
void ext__ZSt24__throw_invalid_argumentPKc(uint8_t* m) { rt_throw_std(&_ZTISt16invalid_argument); }
void ext__ZSt21__glibcxx_assert_failPKciS0_S0_(uint8_t* f, uint32_t l, uint8_t* fn, uint8_t* c) { RT_ASSERT(0, "libstdc++ precondition (__glibcxx_assert) violated"); RT_ASSUME(0); }
uint32_t ext___cxa_guard_acquire(uint64_t* g) { return *(uint8_t*)g == 0; }
void ext___cxa_guard_release(uint64_t* g) { *(uint8_t*)g = 1; }
void ext___cxa_guard_abort(uint64_t* g) { }
/* ---- libc */
uint64_t ext_strlen(uint8_t* s) { return strlen((const char*)s); }
uint32_t ext_bcmp(uint8_t* a, uint8_t* b, uint64_t n) { return n ? memcmp(a, b, n) : 0; }
uint32_t ext_memcmp(uint8_t* a, uint8_t* b, uint64_t n) { return n ? memcmp(a, b, n) : 0; }
uint8_t* ext_strchr(uint8_t* s, uint32_t c) { return (uint8_t*)strchr((char*)s, c); }
uint8_t* ext_strcpy(uint8_t* d, uint8_t* s) { return (uint8_t*)strcpy((char*)d, (char*)s); }
uint8_t* ext_memchr(uint8_t* s, uint32_t c, uint64_t n) { for (uint64_t i = 0; i < n; i++) if (s[i] == (uint8_t)c) return s + i; return 0; }
uint8_t* ext_memchr_impl(uint8_t* s, uint32_t c, uint64_t n) { for (uint64_t i = 0; i < n; i++) if (s[i] == (uint8_t)c) return s + i; return 0; }
