"""E2 runner: real C++ -> LLVM IR -> irsym (own symbolic executor, z3).  Parallel over harness shapes."""
import os, sys, re, json, time, random, multiprocessing, traceback
sys.path.insert(0, os.path.dirname(os.path.abspath(__file__)))
from common import *
import irsym
import irsym_cxx

_IRM = {}


class E2Unit:
    """wrapper TU (+ real library sources) and a list of shapes = (entry, [concrete args], label)"""
    def __init__(self, name, wrapper, lib_srcs=(), defines=(), shapes=(), timeout=300, max_steps=3000000, max_paths=200000,
                 conc_cap=64, stubs=(), bounds=None, extra_flags=(), native_extra=(), validate_vectors=20, o0=False, int_mode=False):
        self.int_mode = int_mode
        self.name = name; self.wrapper = wrapper; self.lib_srcs = list(lib_srcs); self.defines = list(defines)
        self.shapes = list(shapes); self.timeout = timeout; self.max_steps = max_steps; self.max_paths = max_paths
        self.conc_cap = conc_cap; self.stubs = list(stubs); self.bounds = bounds or {}
        self.extra_flags = list(extra_flags); self.native_extra = list(native_extra)
        self.validate_vectors = validate_vectors
        self.dir = workdir('e2', name)

    def build(self):
        d = self.dir
        lls = []
        flags = ['-D' + x for x in self.defines] + ['-I' + ENGINE] + self.extra_flags
        jobs = [(self.wrapper, os.path.join(d, 'wrapper.ll')), (os.path.join(ENGINE, 'rt_support.cpp'), os.path.join(d, 'rt_support.ll'))] + [(os.path.join(REPO, s), os.path.join(d, 'lib%d.ll' % k)) for k, s in enumerate(self.lib_srcs)]
        pmap(lambda j: compile_ir(j[0], j[1], flags), jobs)
        self.linked = os.path.join(d, 'linked.ll')
        link_ir([j[1] for j in jobs], self.linked)
        return self

    def build_native(self):
        d = self.dir
        flags = ['-fsanitize=address,undefined', '-fno-sanitize=vptr', '-fno-omit-frame-pointer', '-fno-sanitize-recover=undefined']
        srcs = [self.wrapper, os.path.join(ENGINE, 'vs_native.cpp')] + [os.path.join(REPO, s) for s in self.lib_srcs] + self.native_extra
        objs = []

        def comp(k_s):
            k, s = k_s
            o = os.path.join(d, 'nat.%d.o' % k)
            must(run(GXX_NATIVE + flags + ['-I' + ENGINE] + ['-D' + x for x in self.defines] + list(getattr(self, 'native_flags', [])) + ['-c', s, '-o', o], timeout=900), 'g++ ' + s)
            return o
        objs = pmap(comp, list(enumerate(srcs)))
        self.native = os.path.join(d, 'native')
        must(run(['g++', '-rdynamic'] + flags + objs + ['-o', self.native, '-ldl'], timeout=600), 'link native')

    def run_native(self, entry, args, values, timeout=60, data=None):
        inp = ''.join('@%s %s\n' % (k, bytes(v).hex()) for k, v in (data or {}).items())
        inp += ''.join('%s %s\n' % (k, ' '.join(str(x) for x in v)) for k, v in values.items())
        env = dict(os.environ, ASAN_OPTIONS='detect_leaks=0:halt_on_error=1:allocator_may_return_null=1', UBSAN_OPTIONS='halt_on_error=1:print_stacktrace=1')
        r = run([self.native, entry] + [str(a) for a in args], stdin=inp, timeout=timeout, env=env)
        txt = r['out'] + r['err']
        return dict(out=r['out'], err=r['err'][-3000:], rc=r['rc'], skipped=('SKIP' in r['out'] and 'FAIL ' not in r['out'].split('SKIP')[0]),
                    fail='FAIL ' in r['out'], san=('AddressSanitizer' in txt or 'runtime error' in txt),
                    crashed=(r['rc'] not in (0, 1) or r['timed_out']), timed_out=r['timed_out'],
                    notes=[l for l in r['out'].split('\n') if l.startswith('NOTE ')])


def _load(unit_dir):
    if unit_dir not in _IRM:
        _IRM[unit_dir] = irsym.IRModule(open(os.path.join(unit_dir, 'linked.ll')).read())
    return _IRM[unit_dir]


def _shape_worker(task):
    (unit_dir, entry, args, label, timeout, max_steps, max_paths, conc_cap, stubs, inputs, data) = task[:11]
    int_mode = task[11] if len(task) > 11 else False
    t0 = time.time()
    out = dict(entry=entry, args=args, label=label, status='inconclusive', violations=[], reason='', stats={})
    try:
        irm = _load(unit_dir)
        eng = irsym.Engine(irm, max_steps=max_steps, max_paths=max_paths, timeout=timeout, conc_cap=conc_cap, stubs=stubs, int_mode=int_mode)
        if inputs is not None:
            eng.inputs = inputs
        def setup(e, s):
            for gname, bs in (data or {}).items():
                e.mem_write(s, irm.gaddr[gname], list(bs))
        eng.explore(entry, lambda e, s: list(args), setup=setup)
        out['stats'] = eng.stats()
        out['functions'] = sorted(eng.called)[:2000]
        out['notes'] = [t for (k, i, t) in eng.ended[:1]]
        vs = []
        seen = set()
        for v in eng.violations:
            key = (v.kind, v.msg)
            if key in seen:
                continue
            seen.add(key)
            vs.append(dict(kind=v.kind, msg=v.msg, model=v.model, where=v.where, choices=v.choices))
        out['violations'] = vs[:40]
        normal = eng.paths.get('return', 0) + eng.paths.get('exit', 0)
        if vs:
            out['status'] = 'fails'
        elif normal == 0:
            out['reason'] = 'vacuous: no path reaches the end of the harness (%s)' % dict(eng.paths)
        else:
            out['status'] = 'holds'
    except irsym.EngineError as e:
        out['reason'] = 'engine: %s' % e
    except Exception as e:
        out['reason'] = 'internal error: %s' % traceback.format_exc()[-1500:]
    out['wall'] = round(time.time() - t0, 2)
    return out


def run_e2(prop, tier, units, rule, assumptions, classify=None, keyfn=None, level_expl='', workers=None, rep=None, finish=True):
    """build all units, explore all shapes in parallel, replay violations natively, report"""
    rep = rep or Report(prop, tier)
    rep.assumptions += [a for a in assumptions if a not in rep.assumptions]
    replay_dir = os.path.join(os.environ.get('VERIF_REPLAY_DIR') or os.path.join(VERIF, 'replay'), prop)
    os.makedirs(replay_dir, exist_ok=True)
    t0 = time.time()
    pmap(lambda u: (u.build(), u.build_native()), units, workers=4)
    rep.extra['e2_build_wall_s'] = round(time.time() - t0, 1)
    tasks = []
    owner = []
    for u in units:
        for sh in u.shapes:
            entry, args, label = sh[:3]; data = sh[3] if len(sh) > 3 else None
            tasks.append((u.dir, entry, list(args), label, u.timeout, u.max_steps, u.max_paths, u.conc_cap, u.stubs, None, data, u.int_mode))
            owner.append(u)
    # validation of the executor: concrete inputs through irsym and through the native build must give the same notes
    rng = random.Random(SEED)
    vtasks = []; vowner = []
    for u in units:
        if not u.validate_vectors:
            continue
        shapes = list(u.shapes); rng.shuffle(shapes)
        for sh in shapes[:u.validate_vectors]:
            entry, args, label = sh[:3]; data = sh[3] if len(sh) > 3 else None
            vals = {}
            for nm in ('in', 'v', 'a', 'b', 'c', 'pos', 'idx', 'cnt', 'n', 'len', 'ch', 'x', 'y', 'bits', 'bits2', 'choose', 'val', 's', 'w0', 'w1', 'w2', 'w3', 'k0', 'k1', 'k2', 'key'):
                vals[nm] = [rng.choice([rng.randrange(0, 6), rng.randrange(0, 256), rng.choice(b'ab-=,x1 9'), rng.getrandbits(64)]) for _ in range(48)]
            vals['val'] = [rng.choice(b'0123456789') for _ in range(48)]
            vtasks.append((u.dir, entry, list(args), label, 120, u.max_steps, 1000, u.conc_cap, u.stubs, vals, data)); vowner.append(u)
    ctx = multiprocessing.get_context('fork')
    with ctx.Pool(workers or NCPU) as pool:
        vres = pool.map(_shape_worker, vtasks, chunksize=1) if vtasks else []
        results = pool.map(_shape_worker, tasks, chunksize=1)
    agree = differ = skipped = 0
    for t, r, u in zip(vtasks, vres, vowner):
        nat = u.run_native(t[1], t[2], t[9], data=t[10])
        mine = ['NOTE %s %s' % (k, v) for (k, v) in (r.get('notes') or [[]])[0]] if r.get('notes') else []
        if nat['skipped'] or nat['san'] or nat['crashed'] or nat['fail'] or r['status'] != 'holds':
            skipped += 1
        elif mine == nat['notes']:
            agree += 1
        else:
            differ += 1
            rep.inconc('%s/%s executor validation' % (u.name, t[3]), 'irsym(concrete) and native build disagree: %r vs %r' % (mine[:6], nat['notes'][:6]))
    rep.extra['executor_validation'] = dict(vectors=len(vtasks), agree=agree, differ=differ, skipped=skipped)
    funcs = set()
    nreplay = 0
    for t, r, u in zip(tasks, results, owner):
        hid = '%s/%s' % (u.name, r['label'])
        ob = dict(hid=hid, status=r['status'], bounds=dict(u.bounds, args=r['args']), wall=r['wall'], engine='E2 irsym+z3',
                  paths=r['stats'].get('paths'), queries=r['stats'].get('queries'), solver_s=r['stats'].get('solver_s'))
        rep.obligations.append(ob)
        funcs.update(r.get('functions', []))
        if r['status'] == 'inconclusive':
            rep.inconc(hid, r['reason']); continue
        for k, v in enumerate(r['violations']):
            cls = classify(v) if classify else v['kind'] + ': ' + v['msg']
            if cls is None:
                continue
            nat = u.run_native(r['entry'], r['args'], dict(v['model'], choose=v.get('choices') or v['model'].get('choose', [])), data=t[10])
            nreplay += 1
            rfile = os.path.join(replay_dir, re.sub(r'[^A-Za-z0-9_.-]', '_', hid) + '.%d.json' % k)
            with open(rfile, 'w') as f:
                json.dump(dict(property=prop, unit=u.name, entry=r['entry'], args=r['args'], data={k: bytes(x).decode('latin1') for k, x in (t[10] or {}).items()}, violation=v, native=nat), f, indent=1, default=str)
            confirmed = (nat['fail'] or nat['san'] or nat['crashed']) and not nat['skipped']
            key = keyfn(u, r, v, cls) if keyfn else '%s:%s|%s' % (prop, r['entry'], cls)
            if confirmed or v['kind'] in ('memory',):
                rep.violation(key, '%s [%s] %s%s' % (r['entry'], r['label'], cls, '' if confirmed else ' (solver counterexample; not visible to ASan/UBSan)'), rfile)
            else:
                rep.inconc(hid, 'counterexample "%s" did not reproduce natively: %s' % (cls, rfile))
    rep.extra['e2_replays'] = nreplay
    names = demangle(sorted(funcs))
    rep.extra['functions_encoded'] = sorted(set(rep.extra.get('functions_encoded', []) + [n for n in names if 'celma' in n]))[:400]
    rep.extra['functions_encoded_total'] = rep.extra.get('functions_encoded_total', 0) + len(funcs)
    rep.samples += [dict(obligation=o['hid'], bounds=o['bounds'], verdict=o['status'], paths=o.get('paths')) for o in rep.obligations if o.get('engine', '').startswith('E2')][:8]
    if not finish:
        return rep
    return rep.finish(rule, level_expl)
