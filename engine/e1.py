"""E1 runner: real C++ -> LLVM IR -> C (ll2c) -> CBMC, with translator validation and replay.

A *unit* = (wrapper TU [+ real library .cpp files], harness C file, set of defines).
For every unit: IR is rebuilt from /repo, translated, validated against the native g++ build on
random vectors, then every harness function becomes one CBMC obligation (+ its witness twin).
Counterexamples are replayed against the native ASan/UBSan build of the real sources.
"""
import os, re, json, random, sys, time, hashlib
from common import *


def harness_names(harness_c, defines, includes):
    r = must(run(['gcc', '-E', '-w', '-I', ENGINE] + ['-I' + i for i in includes] + ['-D' + d for d in defines] +
                 ['-D__CPROVER__', '-DVH_NO_GEN', harness_c], timeout=120), 'gcc -E harness')
    return sorted(set(re.findall(r'\bvoid (h_\w+)\(void\)', r['out'])))


class Unit:
    def __init__(self, name, tag, wrapper, harness, defines=(), lib_srcs=(), gen='w_gen', unwind=16, roots_rx=r'vw_\w+',
                 stubs=(), mode_defines=(), timeout=600, mem_gb=12, solver=None, object_bits=None, sweep=None,
                 nvec=300, bounds=None, only=None, extra_harness_includes=(), vec_small=16, per_harness=None,
                 validate=True):
        self.name = name; self.tag = tag; self.wrapper = wrapper; self.harness = harness
        self.defines = list(defines); self.lib_srcs = list(lib_srcs); self.gen = gen; self.unwind = unwind
        self.roots_rx = roots_rx; self.stubs = list(stubs); self.mode_defines = list(mode_defines)
        self.timeout = timeout; self.mem_gb = mem_gb; self.solver = solver; self.object_bits = object_bits
        self.sweep = sweep; self.nvec = nvec; self.bounds = bounds or {}; self.only = only
        self.dir = workdir(name, tag)
        self.inc = [self.dir, os.path.dirname(harness)] + list(extra_harness_includes)
        self.vec_small = vec_small
        self.per_harness = per_harness or {}
        self.validate = validate
        self.functions = []

    # ---- build
    def build(self):
        d = self.dir
        lls = []
        wl = os.path.join(d, 'wrapper.ll')
        compile_ir(self.wrapper, wl, ['-D' + x for x in self.defines])
        lls.append(wl)
        for k, s in enumerate(self.lib_srcs):
            o = os.path.join(d, 'lib%d.ll' % k)
            compile_ir(os.path.join(REPO, s), o, ['-D' + x for x in self.defines])
            lls.append(o)
        linked = os.path.join(d, 'linked.ll')
        link_ir(lls, linked)
        txt = open(wl).read()
        roots = sorted(set(re.findall(r'^define [^@]*@(' + self.roots_rx + r')\(', txt, re.M)))
        self.roots = roots
        self.gen_c = os.path.join(d, self.gen + '.c')
        self.functions = to_c(linked, self.gen_c, roots, self.stubs)
        self.harnesses = harness_names(self.harness, self.defines + self.mode_defines, self.inc)
        if self.only:
            self.harnesses = [h for h in self.harnesses if re.search(self.only, h)]
        return self

    # ---- translator validation
    def build_native(self):
        d = self.dir
        defs = self.defines + self.mode_defines
        cmd = ['gcc', '-O1', '-w', '-DVH_GENERATED', '-DRT_LOOPMEM', '-I', ENGINE] + ['-I' + i for i in self.inc] + \
              ['-D' + x for x in defs] + [self.harness, os.path.join(ENGINE, 'harness_main.c'), '-o', os.path.join(d, 'nat_gen')]
        must(run(cmd, timeout=900), 'gcc generated C')
        objs = []
        flags = ['-fsanitize=address,undefined', '-fno-sanitize=vptr', '-fsanitize-recover=address', '-fno-omit-frame-pointer']
        for k, (cc, src, extra) in enumerate([('gcc', self.harness, []), ('gcc', os.path.join(ENGINE, 'harness_main.c'), [])] +
                                             [('g++', self.wrapper, [])] + [('g++', os.path.join(REPO, s), []) for s in self.lib_srcs]):
            o = os.path.join(d, 'nat_real.%d.o' % k)
            if cc == 'gcc':
                c = ['gcc', '-O1', '-g', '-w', '-c', '-I', ENGINE] + ['-I' + i for i in self.inc] + flags + ['-D' + x for x in defs] + [src, '-o', o]
            else:
                c = GXX_NATIVE + flags + ['-D' + x for x in defs] + ['-c', src, '-o', o]
            must(run(c, timeout=900), cc + ' ' + src)
            objs.append(o)
        must(run(['g++'] + flags + objs + ['-o', os.path.join(d, 'nat_real')], timeout=600), 'link nat_real')

    def gen_vectors(self, rng, n):
        small = self.vec_small
        vecs = []
        for h in self.harnesses:
            for _ in range(n):
                v = []
                for _k in range(40):
                    c = rng.random()
                    if c < 0.55:
                        v.append(rng.randrange(0, small))
                    elif c < 0.9:
                        v.append(int.from_bytes(bytes(rng.choice(b'abcxyz\x01\xff-= ') for _ in range(8)), 'little'))
                    elif c < 0.95:
                        v.append((1 << 64) - 1 - rng.randrange(0, 3))
                    else:
                        v.append(rng.getrandbits(64))
                vecs.append((h, v))
        return vecs

    def validate_translator(self, rng):
        """same random vectors through gcc(generated C) and g++(real sources): outputs must agree wherever
        both complete without a failed CHECK / sanitizer report"""
        vecs = self.gen_vectors(rng, max(1, self.nvec // max(1, len(self.harnesses)) + 1))
        env_real = dict(os.environ, ASAN_OPTIONS='detect_leaks=0:halt_on_error=0', UBSAN_OPTIONS='halt_on_error=0')
        byh = {}
        for h, vs in vecs:
            byh.setdefault(h, []).append(vs)

        def one(h):
            inp = ''.join('%s %s\n' % (h, ' '.join(map(str, vs))) for vs in byh[h])
            a = run([os.path.join(self.dir, 'nat_gen')], stdin=inp, timeout=600)
            b = run([os.path.join(self.dir, 'nat_real')], stdin=inp, timeout=600, env=env_real)
            xa = [l for l in a['out'].split('\n') if re.match(r'h_\w+:', l)]
            xb = [l for l in b['out'].split('\n') if re.match(r'h_\w+:', l)]
            n = min(len(xa), len(xb))
            return xa[:n], xb[:n], len(byh[h]) - n
        la, lb = [], []
        lost = 0
        for xa, xb, l in pmap(one, sorted(byh)):
            la += xa; lb += xb; lost += l
        agree = differ = 0
        skipped = lost       # vectors after a crash (sanitizer abort / RT_ASSERT) of either build are not compared
        diffs = []
        for x, y in zip(la, lb):
            if ' SKIP' in x and ' SKIP' in y:
                skipped += 1
            elif 'FAILED' in x or 'FAILED' in y or 'FAIL ' in x or 'FAIL ' in y:
                skipped += 1
            elif x == y:
                agree += 1
            else:
                differ += 1; diffs.append((x, y))
        return dict(vectors=len(vecs), agree=agree, differ=differ, skipped=skipped, diffs=diffs[:5])

    # ---- solver obligations
    def jobs(self):
        js = []
        for h in self.harnesses:
            ph = self.per_harness.get(h, {})
            js.append(Job('%s/%s/%s' % (self.name, self.tag, h), self.harness, h, ph.get('unwind', self.unwind),
                          defines=self.defines + self.mode_defines + ['RT_LOOPMEM'] + ph.get('defines', []),
                          solver=ph.get('solver', self.solver), timeout=ph.get('timeout', self.timeout),
                          mem_gb=self.mem_gb, object_bits=self.object_bits, includes=self.inc,
                          bounds=dict(self.bounds, unwind=ph.get('unwind', self.unwind)), sweep=ph.get('sweep', self.sweep)))
        return js

    # ---- replay of a counterexample against the real build
    def replay(self, harness, vin):
        n = (max(vin) + 1) if vin else 0
        vs = [vin.get(i, 0) for i in range(n)]
        env_real = dict(os.environ, ASAN_OPTIONS='detect_leaks=0:halt_on_error=1', UBSAN_OPTIONS='halt_on_error=1:print_stacktrace=1')
        r = run([os.path.join(self.dir, 'nat_real')], stdin='%s %s\n' % (harness, ' '.join(map(str, vs))), timeout=120, env=env_real)
        txt = r['out'] + r['err']
        confirmed = ('FAIL ' in r['out']) or ('AddressSanitizer' in txt) or ('runtime error' in txt) or (r['rc'] not in (0, 1) and ' SKIP' not in r['out'])
        # an assumption that fails only AFTER a CHECK has already failed on this concrete run does not take the failure back
        skipped = ' SKIP' in r['out'] and 'FAIL ' not in r['out'].split(' SKIP')[0]
        return dict(confirmed=confirmed and not skipped, skipped=skipped, out=r['out'][-1500:], err=r['err'][-2500:], rc=r['rc'], vector=vs)


def classify(desc):
    d = desc or ''
    if d.startswith('PROP: '):
        return d[6:]
    if 'unwinding assertion' in d:
        return 'loop bound exceeded (unwinding assertion)'
    if 'std::terminate' in d:
        return 'std::terminate called (exception escapes a noexcept function)'
    if '__glibcxx_assert' in d:
        return 'libstdc++ precondition violated'
    if 'mismatched allocation' in d:
        return 'mismatched allocation/deallocation function'
    if 'dereference failure' in d or 'pointer' in d or 'bounds' in d or 'memcpy' in d or 'free' in d or 'readable' in d or 'writeable' in d:
        return 'invalid memory access'
    if 'overflow' in d or 'shift' in d or 'division' in d:
        return 'arithmetic undefined behaviour: ' + d.split(' in ')[0]
    return d


def run_units(prop, tier, units, rule, assumptions, level_expl='', replay_dir=None, filter_desc=None, rep=None, finish=True):
    """build, validate, solve, replay, report.  returns exit code"""
    rep = rep or Report(prop, tier)
    rep.assumptions += [a for a in assumptions if a not in rep.assumptions]
    rng = random.Random(SEED)
    replay_dir = replay_dir or os.path.join(os.environ.get('VERIF_REPLAY_DIR') or os.path.join(VERIF, 'replay'), prop)
    os.makedirs(replay_dir, exist_ok=True)
    t0 = time.time()

    def prep(u):
        u.build()
        if u.validate:
            u.build_native()
        return u
    pmap(prep, units)
    val = {}
    for u in units:
        if u.validate:
            v = u.validate_translator(rng)
            val[u.tag] = {k: v[k] for k in ('vectors', 'agree', 'differ', 'skipped')}
            if v['differ']:
                rep.inconc('%s/%s translator validation' % (u.name, u.tag), 'generated C and real build disagree: %r' % (v['diffs'],))
            if v['agree'] == 0:
                rep.inconc('%s/%s translator validation' % (u.name, u.tag), 'no vector was compared')
    rep.extra['translator_validation'] = val
    rep.extra['build_wall_s'] = round(time.time() - t0, 1)
    jobs = []
    for u in units:
        for j in u.jobs():
            j.unit = u
            jobs.append(j)
    results = pmap(run_job, jobs)
    funcs = set()
    for u in units:
        funcs.update(u.functions)
    rep.extra['functions_encoded'] = [f for f in demangle(sorted(funcs)) if 'celma' in f][:400]
    rep.extra['functions_encoded_total'] = len(funcs)
    nreplay = 0
    for j, r in zip(jobs, results):
        r['engine'] = 'E1 ll2c+cbmc'
        rep.obligations.append(r)
        if r['status'] == 'inconclusive':
            rep.inconc(r['hid'], r['reason'])
            continue
        if r['status'] == 'fails':
            kinds = sorted(set(classify(f['desc']) for f in r['failed']))
            if filter_desc:
                kinds = [k for k in kinds if filter_desc(k)]
            if not kinds:
                r['status'] = 'holds'
                continue
            if kinds == ['loop bound exceeded (unwinding assertion)']:
                rep.inconc(r['hid'], 'unwinding bound %s too small' % r['unwind'])
                continue
            rp = j.unit.replay(j.function, r['vin'])
            nreplay += 1
            rfile = os.path.join(replay_dir, re.sub(r'[^A-Za-z0-9_.-]', '_', r['hid']) + '.json')
            with open(rfile, 'w') as f:
                json.dump(dict(property=prop, harness=j.function, unit=j.unit.name, tag=j.unit.tag, defines=j.defines,
                               vector=rp['vector'], failed=[f_['desc'] for f_ in r['failed']][:10], native=rp), f, indent=1)
            r['replay'] = dict(confirmed=rp['confirmed'], file=rfile)
            for k in kinds:
                if k.startswith('loop bound'):
                    continue
                key = '%s:%s|%s' % (prop, j.function, k)
                if rp['confirmed'] or k == 'invalid memory access' and not rp['skipped']:
                    # memory findings that the sanitizers do not see (e.g. out-of-bounds pointer formed or an
                    # intra-object overflow) are still reported: CBMC's object model is the stricter judge
                    rep.violation(key, '%s [%s] %s%s' % (j.function, j.unit.tag, k, '' if rp['confirmed'] else ' (solver counterexample; not visible to ASan/UBSan)'), rfile)
                else:
                    rep.inconc(r['hid'], 'counterexample for "%s" did not reproduce natively (encoder or harness problem): %s' % (k, rfile))
    rep.extra['replays'] = nreplay
    rep.samples += [dict(obligation=o['hid'], bounds=o['bounds'], verdict=o['status']) for o in rep.obligations[:8]]
    if not finish:
        return rep
    return rep.finish(rule, level_expl)
