/* Harness protocol shared by the CBMC build and the native (validation / replay) build.
 *
 *   IN(k)        k-th symbolic 64-bit input (CBMC: nondet, recorded in vin[k] so that the
 *                counterexample can be read from the trace; native: taken from the vector)
 *   ASSUME(c)    restricts the inputs (native: the vector is skipped)
 *   CHECK(c,m)   the property (CBMC: assertion; native: prints FAIL and sets the exit code)
 *   OUT(v)       observable value, printed natively only: used to diff the generated C
 *                against the real C++ build on the same vectors (translator validation)
 *   WITNESS()    end of harness; with -DWITNESS it is an assert(0) that MUST be reachable
 */
#ifndef VERIF_HARNESS_H
#define VERIF_HARNESS_H
#include <stdint.h>
#include <stddef.h>
#include <stdlib.h>
#include <string.h>
#ifndef NIN
#define NIN 64
#endif
extern uint64_t vin[NIN];
#ifdef __CPROVER__
uint64_t nondet_u64(void);
static inline uint64_t vh_in(int k) { uint64_t v = nondet_u64(); vin[k] = v; return v; }
#define IN(k) vh_in(k)
#define ASSUME(c) __CPROVER_assume(c)
#define CHECK(c, m) __CPROVER_assert(c, "PROP: " m)
#define OUT(v) ((void)0)
#define OUTS(p, n) ((void)0)
#ifdef WITNESS
#define WITNESS_END() __CPROVER_assert(0, "WITNESS: end of harness reachable")
#else
#define WITNESS_END() ((void)0)
#endif
#define HARNESS(n) void n(void)
static inline void* vh_alloc(size_t n) { void* p = malloc(n); __CPROVER_assume(p != 0); return p; }
#else
#include <stdio.h>
#include <setjmp.h>
extern jmp_buf vh_skip; extern int vh_failed; extern int vh_quiet;
#define IN(k) (vin[k])
#define ASSUME(c) do { if (!(c)) longjmp(vh_skip, 1); } while (0)
#define CHECK(c, m) do { if (!(c)) { vh_failed = 1; printf("FAIL %s\n", m); } } while (0)
#define OUT(v) do { if (!vh_quiet) printf(" %llu", (unsigned long long)(v)); } while (0)
#define OUTS(p, n) do { if (!vh_quiet) { printf(" '"); for (size_t i_ = 0; i_ < (size_t)(n); i_++) printf("%02x", ((const unsigned char*)(p))[i_]); printf("'"); } } while (0)
#define WITNESS_END() ((void)0)
void vh_register(const char* name, void (*fn)(void));
#define HARNESS(n) void n(void); __attribute__((constructor)) static void vh_reg_##n(void) { vh_register(#n, n); } void n(void)
static inline void* vh_alloc(size_t n) { void* p = malloc(n ? n : 1); if (!p) abort(); return p; }
#endif
#endif
