#!/usr/bin/env python3
"""confirm a seeded change produced by a sub-agent and run the checks against it.
usage: seeded.py <prop> <out_dir> <check command ...>
For A and B in out_dir: (1) in a scratch worktree of /repo: demo passes on the clean tree, fails with the diff;
(2) apply the diff to /repo, run the check command, undo; (3) store under /verif/seeded/<prop>_<X>/."""
import sys, os, json, subprocess, shutil, re, time
V = os.path.dirname(os.path.dirname(os.path.abspath(__file__)))


def sh(cmd, **kw):
    return subprocess.run(cmd, shell=True, executable='/bin/bash', stdout=subprocess.PIPE, stderr=subprocess.STDOUT, text=True, errors='replace', **kw)


def main():
    prop, out = sys.argv[1], sys.argv[2]
    check = sys.argv[3:]
    meta = json.load(open(os.path.join(out, 'meta.json')))
    wt = '/tmp/seedchk_%s' % prop
    sh('git -C /repo worktree remove --force %s' % wt); shutil.rmtree(wt, ignore_errors=True)
    assert sh('git -C /repo worktree add -q --detach %s HEAD' % wt).returncode == 0
    res = {}
    try:
        for X in sorted(meta['changes']):
            ch = meta['changes'][X]
            diff = os.path.join(out, X + '.diff'); demo = os.path.join(out, X + '_demo.cpp')
            orig_wt = re.search(r'/tmp/mut/wt[23]?_\w+', ch['build']).group(0)
            build = ch['build'].replace(orig_wt, wt).replace(out + '/' + X + '_demo ', '/tmp/seed_demo_%s ' % prop)
            build = re.sub(r'-o \S+', '-o /tmp/seed_demo_%s' % prop, build.split('  (')[0].split('   #')[0])
            r = dict(summary=ch['summary'], needs=ch['needs'])
            sh('git -C %s checkout -- .' % wt)
            b0 = sh(build, cwd=out); run0 = sh('/tmp/seed_demo_%s' % prop, cwd=out, timeout=300)
            r['demo_clean'] = dict(build_rc=b0.returncode, rc=run0.returncode, tail=run0.stdout[-300:])
            ap = sh('git -C %s apply %s' % (wt, diff))
            b1 = sh(build, cwd=out); run1 = sh('/tmp/seed_demo_%s' % prop, cwd=out, timeout=300)
            r['demo_changed'] = dict(apply_rc=ap.returncode, build_rc=b1.returncode, rc=run1.returncode, tail=run1.stdout[-400:])
            r['demo_confirmed'] = b0.returncode == 0 and run0.returncode == 0 and ap.returncode == 0 and b1.returncode == 0 and run1.returncode != 0
            sh('git -C %s checkout -- .' % wt)
            # run the registered check against the change
            if sh('git -C /repo status --porcelain --untracked-files=no').stdout.strip():
                raise SystemExit('/repo is dirty')
            assert sh('git -C /repo apply %s' % diff).returncode == 0
            try:
                t0 = time.time()
                # evidence / replay files of runs against a changed tree go to a scratch directory, never into /verif/evidence
                scratch = '/tmp/seeded_out_%s' % prop
                env = dict(os.environ, VERIF_EVIDENCE_DIR=scratch + '/evidence', VERIF_REPLAY_DIR=scratch + '/replay')
                os.makedirs(scratch + '/evidence', exist_ok=True); os.makedirs(scratch + '/replay', exist_ok=True)
                c = sh(' '.join(check), cwd=V, timeout=3600, env=env)
            finally:
                sh('git -C /repo checkout -- .')
            viol = [l for l in c.stdout.split('\n') if l.startswith('VIOLATION')]
            r['check'] = dict(cmd=' '.join(check), rc=c.returncode, wall=round(time.time() - t0), violations=viol[:6], tail=c.stdout[-600:] if not viol else '')
            r['detected'] = c.returncode == 1 and bool(viol)
            res[X] = r
            d = os.path.join(V, 'seeded', '%s_%s' % (prop, X)); os.makedirs(d, exist_ok=True)
            shutil.copy(diff, os.path.join(d, 'patch.diff')); shutil.copy(demo, os.path.join(d, 'demo.cpp'))
            json.dump(dict(property=prop, breaks=meta.get('property'), summary=ch['summary'], needs=ch['needs'], files=ch.get('files'),
                           demo_build=ch['build'], demo_expected_unchanged=ch.get('expected_unchanged'), demo_expected_changed=ch.get('expected_changed'),
                           confirmed=dict(demo_clean=r['demo_clean'], demo_changed=r['demo_changed'], demo_confirmed=r['demo_confirmed']),
                           existing_tests=meta.get('tests_run'), check_run=r['check'], detected=r['detected']), open(os.path.join(d, 'meta.json'), 'w'), indent=1)
            print('%s_%s demo_confirmed=%s detected=%s rc=%s  %s' % (prop, X, r['demo_confirmed'], r['detected'], r['check']['rc'], (viol or [''])[0][:200]))
    finally:
        sh('git -C /repo worktree remove --force %s' % wt); shutil.rmtree(wt, ignore_errors=True)
        try:
            os.remove('/tmp/seed_demo_%s' % prop)
        except OSError:
            pass


main()
