#!/usr/bin/env python3
"""confirm seeded changes produced by a sub-agent and run the checks against them - without touching /repo, so that several can
run side by side: the change is applied in a scratch worktree of /repo and the check is pointed at it with VERIF_REPO (its work,
evidence and replay directories go to scratch directories too).
usage: seeded2.py <prop> <out_dir> [--only X] <check command ...>
For every change X in out_dir/meta.json: (1) scratch worktree: demo passes on the clean tree, fails with the diff; (2) the check
command runs against the worktree with the diff applied; (3) result stored under /verif/seeded/<prop>_<X>/."""
import sys, os, json, subprocess, shutil, re, time
V = os.path.dirname(os.path.dirname(os.path.abspath(__file__)))


def sh(cmd, **kw):
    return subprocess.run(cmd, shell=True, executable='/bin/bash', stdout=subprocess.PIPE, stderr=subprocess.STDOUT, text=True, errors='replace', **kw)


def main():
    prop, out = sys.argv[1], sys.argv[2]
    rest = sys.argv[3:]; only = None
    if rest and rest[0] == '--only':
        only = rest[1]; rest = rest[2:]
    check = rest
    meta = json.load(open(os.path.join(out, 'meta.json')))
    for X in sorted(meta['changes']):
        if only and X != only:
            continue
        tag = '%s_%s' % (prop, X)
        wt = '/tmp/seedchk_%s' % tag; scratch = '/tmp/seeded_out_%s' % tag; demo_bin = '/tmp/seed_demo_%s' % tag
        sh('git -C /repo worktree remove --force %s' % wt); shutil.rmtree(wt, ignore_errors=True); shutil.rmtree(scratch, ignore_errors=True)
        assert sh('git -C /repo worktree add -q --detach %s HEAD' % wt).returncode == 0
        try:
            ch = meta['changes'][X]
            diff = os.path.join(out, X + '.diff'); demo = os.path.join(out, X + '_demo.cpp')
            orig_wt = re.search(r'/tmp/mut/wt\d?_\w+', ch['build']).group(0)
            build = ch['build'].replace(orig_wt, wt)
            build = re.sub(r'-o \S+', '-o ' + demo_bin, build.split('  (')[0].split('   #')[0])
            build = build[:build.index('-o ' + demo_bin) + len('-o ' + demo_bin)] + ' ' + ' '.join(w for w in build[build.index('-o ' + demo_bin) + len('-o ' + demo_bin):].split('&&')[0].split(';')[0].split() if w.startswith('-l') or w.startswith('-p'))
            r = dict(summary=ch['summary'], needs=ch['needs'])
            b0 = sh(build, cwd=out); run0 = sh(demo_bin, cwd=out, timeout=600)
            r['demo_clean'] = dict(build_rc=b0.returncode, rc=run0.returncode, tail=run0.stdout[-300:] if b0.returncode == 0 else b0.stdout[-600:])
            ap = sh('git -C %s apply %s' % (wt, diff))
            b1 = sh(build, cwd=out); run1 = sh(demo_bin, cwd=out, timeout=600)
            r['demo_changed'] = dict(apply_rc=ap.returncode, build_rc=b1.returncode, rc=run1.returncode, tail=run1.stdout[-400:])
            r['demo_confirmed'] = b0.returncode == 0 and run0.returncode == 0 and ap.returncode == 0 and b1.returncode == 0 and run1.returncode != 0
            t0 = time.time()
            env = dict(os.environ, VERIF_REPO=wt, VERIF_WORK=scratch + '/work', VERIF_EVIDENCE_DIR=scratch + '/evidence', VERIF_REPLAY_DIR=scratch + '/replay')
            for d in ('work', 'evidence', 'replay'):
                os.makedirs(os.path.join(scratch, d), exist_ok=True)
            c = sh(' '.join(check), cwd=V, timeout=7200, env=env)
            viol = [l for l in c.stdout.split('\n') if l.startswith('VIOLATION')]
            r['check'] = dict(cmd=' '.join(check), how='run against a scratch worktree of /repo with the change applied (VERIF_REPO)', rc=c.returncode, wall=round(time.time() - t0),
                              violations=[v.replace(scratch, '<scratch>') for v in viol[:6]], tail=c.stdout[-800:] if not viol else '')
            r['detected'] = c.returncode == 1 and bool(viol)
            d = os.path.join(V, 'seeded', tag); os.makedirs(d, exist_ok=True)
            shutil.copy(diff, os.path.join(d, 'patch.diff')); shutil.copy(demo, os.path.join(d, 'demo.cpp'))
            json.dump(dict(property=prop, breaks=meta.get('property'), summary=ch['summary'], needs=ch['needs'], files=ch.get('files'),
                           demo_build=ch['build'], demo_expected_unchanged=ch.get('expected_unchanged'), demo_expected_changed=ch.get('expected_changed'),
                           confirmed=dict(demo_clean=r['demo_clean'], demo_changed=r['demo_changed'], demo_confirmed=r['demo_confirmed']),
                           existing_tests=meta.get('tests_run'), check_run=r['check'], detected=r['detected']), open(os.path.join(d, 'meta.json'), 'w'), indent=1)
            print('%s demo_confirmed=%s detected=%s rc=%s wall=%ss  %s' % (tag, r['demo_confirmed'], r['detected'], r['check']['rc'], r['check']['wall'], (viol or [c.stdout[-300:].replace('\n', ' | ')])[0][:260]), flush=True)
        finally:
            sh('git -C /repo worktree remove --force %s' % wt); shutil.rmtree(wt, ignore_errors=True); shutil.rmtree(scratch, ignore_errors=True)
            try:
                os.remove(demo_bin)
            except OSError:
                pass


main()
