#!/bin/sh
# runs several registered checks (given as quoted commands); exit 1 if any reports a violation
rc=0
for c in "$@"; do sh -c "$c"; r=$?; [ $r -eq 1 ] && rc=1; [ $r -gt 1 ] && [ $rc -eq 0 ] && rc=$r; done
exit $rc
