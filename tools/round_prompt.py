#!/usr/bin/env python3
"""prints the prompt for a seeding sub-agent: round_prompt.py <prop> <round-no> <letters e.g. EF>
The agent gets the property text, its scratch worktree and one line per earlier change (to avoid repeats) - nothing about the checks."""
import sys, json, glob, os
V = os.path.dirname(os.path.dirname(os.path.abspath(__file__)))
prop, rnd, letters = sys.argv[1], sys.argv[2], sys.argv[3]
p = [json.loads(l) for l in open(V + '/properties.jsonl') if json.loads(l)['id'] == prop][0]
earlier = []
for d in sorted(glob.glob(V + '/seeded/%s_*/meta.json' % prop)):
    m = json.load(open(d)); earlier.append('- ' + ', '.join(m.get('files') or []) + ': ' + m['summary'][:300].replace('\n', ' '))
wt = '/tmp/mut/wt%s_%s' % (rnd, prop); out = '/tmp/mut/out%s_%s' % (rnd, prop)
print(f"""You are helping to evaluate a verification effort for the C++17 library Celma (Gemini67/Celma). Your job: produce {len(letters)} independent, realistic source changes (call them {' and '.join(letters)}) to the library, each of which BREAKS the semantic property below while the library still compiles and its existing test suite still passes.

Your scratch git worktree of the repository is {wt} (already created, at the current HEAD). Work ONLY there and in your output directory {out} (create it). Never touch /repo itself and do not read anything under /verif or /root (it is off limits; your work must be independent of it).

PROPERTY {p['id']}: {p['title']}
{p['statement']}
Quantified over: {p['quantifier']['text']}
Code the property is anchored in: {', '.join(p['anchors']['files'])}

What a good change looks like:
- It looks like something a maintainer could plausibly commit (an "optimisation", "simplification", refactoring slip, boundary-condition edit, copy/paste slip, wrong variable, dropped guard, reordered statements, a cache, a narrowed type...). A few lines. No comments that give it away.
- It needs something SPECIFIC to manifest: an unusual input, a boundary value, a multi-step sequence of operations, a particular interleaving / timing, a crash or restart at a particular point, or two cooperating sites that each look fine alone. Ordinary everyday use must keep working - a change that breaks the first thing anyone tries is worthless here.
- {letters[0]} and {letters[-1]} must be in different functions (preferably different files) and use different mechanisms.
- Earlier rounds already made the changes listed below. Do NOT repeat them or close variants; pick different functions, different clauses of the property and different mechanisms:
{chr(10).join(earlier) if earlier else '- (none)'}

For each change deliver in {out}:
- <X>.diff : `git diff` of the worktree with only that change applied (must apply with `git apply` to a clean checkout of HEAD).
- <X>_demo.cpp : a small stand-alone program using only the public API of the library that exits 0 and prints an OK line on the unchanged tree and exits non-zero printing what went wrong with the change applied. (For a concurrency change the demo may loop / use sleeps or ThreadSanitizer to make the problem show; say so.)
- The exact command line that builds the demo from the worktree sources, e.g. `cd {wt} && g++ -std=c++17 -w -I{wt}/src {out}/<X>_demo.cpp <the needed src/library/...cpp files> -lpthread -o {out}/<X>_demo` (compile the needed library .cpp files directly; do not depend on an installed libcelma; boost headers are installed).
And one {out}/meta.json:
{{"property": "{prop}: {p['title']}", "tests_run": "<what you built and ran of the existing tests, with results>",
  "changes": {{"{letters[0]}": {{"summary": "<what was changed and why it breaks the property>", "needs": "<what specifically is needed for it to manifest>", "files": ["src/..."], "build": "<demo build command line>", "expected_unchanged": "<demo output/exit code on clean tree>", "expected_changed": "<demo output/exit code with the change>"}}, "{letters[-1]}": {{...}} }} }}

Requirements you must verify yourself before answering:
1. With each change alone applied, the library sources still compile and the existing tests that cover the changed code still pass. The project builds with cmake (`cmake -G Ninja -S {wt} -B {wt}/_build && cmake --build {wt}/_build -j4`, tests via `ctest --test-dir {wt}/_build -j4`). Note: src/celma/celma_version.hpp is only generated when configuring with -DCMAKE_BUILD_TYPE=Debug (configure once that way to generate it, then re-configure without), and only part of the test targets build in the default configuration - build and run at least the test targets related to the changed code (both the ones in the default build and, if they build, the related test_*_c targets); if a related existing test fails with your change, the change is not acceptable - find another.
2. The demo passes on the clean worktree and fails with the change.
3. Leave the worktree clean at the end (`git -C {wt} checkout -- .`), and delete build output you created outside {out} and the worktree ({wt}/_build may stay).
Use at most 4 parallel compile jobs. Your final answer: a short description of both changes and the paths of the files you wrote.""")
