#!/usr/bin/env python3
"""re-confirm an existing seeded change with a patch that was ported to the current /repo HEAD (after a fix: commit touched
the same lines): reseed.py <tag e.g. C09_B> <ported.diff> <check command ...>"""
import sys, os, json, re, shutil, subprocess
V = os.path.dirname(os.path.dirname(os.path.abspath(__file__)))
tag, diff = sys.argv[1], sys.argv[2]; check = sys.argv[3:]
prop, X = tag.split('_')
m = json.load(open(os.path.join(V, 'seeded', tag, 'meta.json')))
out = '/tmp/mut/re_%s' % tag; shutil.rmtree(out, ignore_errors=True); os.makedirs(out)
shutil.copy(diff, os.path.join(out, X + '.diff')); shutil.copy(os.path.join(V, 'seeded', tag, 'demo.cpp'), os.path.join(out, X + '_demo.cpp'))
build = re.sub(r'/tmp/mut/out\d?_\w+/%s_demo' % X, out + '/%s_demo' % X, m['demo_build'])
json.dump(dict(property=m.get('breaks'), tests_run=(m.get('existing_tests') or '') + ' [patch ported to the /repo HEAD after later fix: commits; demo unchanged]',
               changes={X: dict(summary=m['summary'] + ' [ported to the current HEAD: same change on the code as it is after the later fix: commits]', needs=m['needs'], files=m.get('files'), build=build,
                                expected_unchanged=m.get('demo_expected_unchanged'), expected_changed=m.get('demo_expected_changed'))}), open(os.path.join(out, 'meta.json'), 'w'))
sys.exit(subprocess.call(['python3', os.path.join(V, 'tools', 'seeded2.py'), prop, out] + check))
