#!/usr/bin/env python3
"""writes MANIFEST.json from the table below (kept in one place so that it stays valid)"""
import json, os
V = os.path.dirname(os.path.dirname(os.path.abspath(__file__)))
E1 = 'symbolic execution of the real code via LLVM IR -> C translation, CBMC 6.11 SAT-based bounded model checking, counterexample replay under ASan/UBSan'
E2 = 'path-wise symbolic execution of the LLVM IR of the real code (own executor irsym), z3 decides every branch / memory access / assertion, counterexample replay under ASan/UBSan'
PA = 'python3-vt props/prog_args/check.py %s --tier %s'
checks = [
 ('C01', PA, 'E2', E2, 'bounded symbolic model checking: every legal spelling/order (enumerated shapes) of small abstract assignments on a fixed handler family, all value bytes symbolic; destinations must equal the reference conversion and unused ones keep their value', 'values 2-3 bytes; flag/int/string/optional/vector destinations; floating point not covered; handler family of w_pa.cpp', '3 C01'),
 ('C02', PA, 'E2', E2, 'bounded symbolic model checking: every rule-breaking mutation (enumerated) of valid command lines must end in a std::exception for all values that break the rule', 'checks lower/upper/range/values/min-max-length, cardinality, mandatory, excludes/requires, all_of/any_of/one_of/differ/disjoint; pattern and file-system checks not covered', '3 C02'),
 ('C03', PA, 'E2', E2, 'bounded symbolic model checking: every rule-obeying command line of the shape family is accepted and stores the reference values, for all values satisfying the rules', 'validity judged in the documented order-sensitive sense; same bounds as C02', '3 C03'),
 ('C04', PA, 'E2', E2, 'bounded symbolic model checking of memory safety: argv of up to 3 words x up to 3 arbitrary non-NUL bytes (plus grammar-aware templates), handler flag sets, environment-variable and (unopenable) argument-file sources; every access checked against its object, only std::exception may escape, every path terminates within the instruction budget', 'argument file contents not covered (ifstream is in libstdc++.so); allocation failure outside the claim', '3 C04'),
 ('C05', PA, 'E2', E2, 'bounded symbolic model checking: exact keys / all listed prefixes in all 6 definition orders with abbreviations on and off; second key specification with symbolic characters must be refused exactly when taken or contradictory', 'key family in-/in-file/in-dir/output; spec characters symbolic over printable ASCII', '3 C05'),
 ('C06', PA, 'E2', E2, 'bounded symbolic model checking: container destination equals the fold of the value lists for every cut into uses/lists/free values and option set (clear, sort, unique, unique-as-error, separator, multi-value); fixed-size destinations refuse surplus elements', 'vector/set/int[3]/std::array/bitset of int elements, <= 4 values; key-value and tuple destinations not covered', '3 C06'),
 ('C07', PA, 'E2', E2, 'bounded symbolic model checking: split(escape(words)) == words for all printable bytes and three quoting styles; command lines delivered through a string or the environment variable give the same destinations as argv, later argv value overrides', 'argument FILE source not applicable (std::ifstream/getline are in libstdc++.so); words <= 3 bytes, <= 3 words', '3 C07'),
 ('C08', PA, 'E2', E2, 'bounded symbolic model checking: the rule families of C02/C03 with their arguments split over two member handlers evaluated through Groups: same accept/reject verdict and same destination values; duplicate key across members refused', 'two member handlers; Groups singleton with std::cout/cerr as opaque sinks', '3 C08'),
 ('C10', 'python3 props/fixed_string/check.py %s --tier %s', 'E1', E1, 'bounded model checking of the real FixedString code, one inductive step per public operation from an arbitrary valid state with unconstrained 64-bit positions/counts: memory safety (exact-size objects) and representation invariant', 'capacities listed in evidence; source strings <= L+3; std::string overloads, at() message path and sprintf not in E1', '3 C10'),
 ('C11', 'python3 props/fixed_string/check.py %s --tier %s', 'E1', E1, 'differential bounded model checking: every operation of the real code vs a reference model of the std::string operation cut at the capacity, for every valid state and in-domain argument', 'oracle follows the behaviour pinned by the repository unit tests where it deviates from std::string (empty search string, backward search positions >= length, iterator replace with empty range): listed in DESIGN.md', '3 C11'),
 ('C12', 'python3-vt props/bitset/check.py --tier %.0s%s', 'E2', E2, 'bounded symbolic model checking: one operation (or 2-operation history) from an arbitrary bitset of concrete size with symbolic bits and symbolic positions vs a reference bit vector, all observers, compound==binary operators, iteration order, growth instead of out-of-object access', 'sizes 0..9 and 63..65; std::vector<bool> header code is part of the IR', '3 C12'),
 ('C13', 'python3 props/int2string/check.py --tier %.0s%s', 'E1', E1, 'bounded model checking per decade: exact digits, grouping, footprint (guard bytes), NUL, round-trip for every value of the decade and every group character', 'E1: 8/16/32-bit types (32-bit decades > 5 digits in the thorough tier, kissat); 64-bit via E2-int when available', '3 C13'),
 ('C19', 'python3 props/buffers/check.py --tier %.0s%s', 'E1', E1, 'bounded model checking: k calls from a fresh buffer with arbitrary request sizes and source chunking, plus inductive single steps from an arbitrary valid window/write position (covers histories of any length for the listed sizes)', 'buffer sizes 1..4 (8 thorough); source contract returns 1..len bytes', '3 C19'),
]
out = dict(version=1, setup_cmd='true',
           hooks=dict(guard='CELMA_VERIF', enable='-DCELMA_VERIF is passed to every IR/native build; no line of /repo needs it (IR-level access replaces source hooks)',
                      baseline_off_cmd='cmake --build /repo/_build -j 8 && ctest --test-dir /repo/_build -j8 --timeout 900', source_commits=[], add_only=True),
           engines=[dict(name='E1', path='engine/ll2c.py engine/e1.py engine/rt_impl.c', serves_properties=[c[0] for c in checks if c[2] == 'E1'], kind_free_text='real C++ -> clang-14 LLVM IR -> own IR-to-C translator -> CBMC bounded model checking'),
                    dict(name='E2', path='engine/irsym.py engine/irsym_cxx.py engine/e2.py engine/rt_support.cpp', serves_properties=[c[0] for c in checks if c[2] == 'E2'], kind_free_text='own KLEE-class symbolic executor over the LLVM IR of the real code, z3 back end')],
           checks=[], not_applicable=[])
for (pid, cmd, eng, tech, text, note, ref) in checks:
    out['checks'].append(dict(property_id=pid, quick_cmd=cmd % (pid, 'quick'), thorough_cmd=cmd % (pid, 'thorough'), evidence_file='evidence/%s.json' % pid, engine=eng,
                              level_claimed=dict(category='model_checking', text=text, design_ref='DESIGN.md ' + ref), level_note=note, technique=tech))
claimed = set(c[0] for c in checks)
NA = {
 'C09': 'not yet decided by the solver-based machinery: the per-thread event encoding (E2-mt) is not built; see DESIGN.md',
 'C14': 'pending (E2 harness not yet built)', 'C15': 'pending (file-system model harness not yet built)', 'C16': 'pending', 'C17': 'pending', 'C18': 'pending', 'C20': 'pending (E2-mt not built)',
}
for k, v in sorted(NA.items()):
    if k not in claimed:
        out['not_applicable'].append(dict(property_id=k, reason=v))
json.dump(out, open(os.path.join(V, 'MANIFEST.json'), 'w'), indent=1)
print('checks:', len(out['checks']), 'n/a:', len(out['not_applicable']))
