#!/bin/bash
# run every registered check of MANIFEST.json (tier $1 = quick|thorough) on /repo, one after the other; summary lines on stdout
cd "$(dirname "$0")/.."
tier=${1:-quick}
python3 - "$tier" <<'PY' > /tmp/run_all_cmds.txt
import json, sys
m = json.load(open('MANIFEST.json'))
for c in m['checks']:
    print(c['property_id'] + '\t' + c[sys.argv[1] + '_cmd'])
PY
rc_all=0
while IFS=$'\t' read -r id cmd; do
  start=$(date +%s)
  out=$(bash -c "$cmd" 2>&1); rc=$?
  echo "$id rc=$rc $(( $(date +%s) - start ))s :: $(echo "$out" | grep -E "^C[0-9]+ (quick|thorough):" | tail -1)"
  if [ $rc -ne 0 ]; then rc_all=1; echo "$out" | grep -E "^(VIOLATION|INCONCLUSIVE)" | head -5 | cut -c1-300; fi
done < /tmp/run_all_cmds.txt
exit $rc_all
