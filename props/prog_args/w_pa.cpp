// E2 harness family for the argument handler (C01-C08).
//
// The driver (check.py) enumerates *shapes*: a handler configuration plus a command line template
// in which the values are placeholders; this TU interprets the (concrete) template, makes the
// placeholder bytes symbolic, runs the real celma::prog_args::Handler / Groups and asserts the
// expectation stated in the template.  Everything that is a *value* (digits, characters, bytes) is
// decided by the solver; what is enumerated is the spelling / order / rule-breaking mutation.
//
// Template (global pa_tmpl, '\n' separated lines):
//   line 0: expectation:  "ok" | "throw" | "safe", then ";dest=expr" items
//             expr:  #k  integer value of slot k     $k  the bytes of slot k     1/0  flag value
//                    _   unchanged (initial value)   -   optional without value  #a,#b list of ints
//   line 1: slots "d2 s3 b2 r2:10:99 ..."   kind d digits, s string bytes, b arbitrary non-NUL bytes,
//             r digits with value in [lo,hi], z digits with value outside [lo,hi)
//   line 2..: one argv word per line; \x01<k> inserts slot k
#include "vs.h"
#include "celma/container/dynamic_bitset.hpp"
#include "celma/prog_args.hpp"
#include "celma/prog_args/groups.hpp"
#include "celma/prog_args/eval_argument_string.hpp"
#include "celma/appl/arg_string_2_array.hpp"
#include <cstring>
#include <optional>
#include <set>
#include <map>
#include <tuple>
#include <array>
#include <bitset>
#include <sstream>
#include <vector>
#include <string>
#include <deque>
#include <list>
#include <forward_list>
#include <stack>
#include <queue>
#include <unordered_set>
#include <algorithm>

using namespace celma::prog_args;
extern "C" { char pa_tmpl[1024]; unsigned char pa_env[256]; }
static unsigned pa_opt = 0;

namespace {
struct Slot { char kind; int len; long lo, hi; unsigned char b[8]; };
struct Tmpl {
   std::string expect; std::vector<std::string> items; Slot slots[10]; int nslots = 0;
   std::vector<std::string> words;
};
std::vector<std::string> split(const std::string& s, char sep) {
   std::vector<std::string> out; std::string cur;
   for (char c : s) { if (c == sep) { out.push_back(cur); cur.clear(); } else cur += c; }
   out.push_back(cur); return out;
}
long to_long(const std::string& s) { long v = 0; bool neg = false; for (char c : s) { if (c == '-') neg = true; else v = v * 10 + (c - '0'); } return neg ? -v : v; }
long slot_int(const Slot& s) { long v = 0; for (int i = (s.kind == 'i' ? 1 : 0); i < s.len; ++i) v = v * 10 + (s.b[i] - '0'); return s.kind == 'i' ? -v : v; }
void parse(Tmpl& t) {
   auto lines = split(std::string(pa_tmpl), '\n');
   auto head = split(lines[0], ';');
   t.expect = head[0];
   for (size_t i = 1; i < head.size(); ++i) if (!head[i].empty()) t.items.push_back(head[i]);
   if (lines.size() > 1 && !lines[1].empty())
      for (auto& sd : split(lines[1], ' ')) {
         if (sd.empty()) continue;
         Slot& s = t.slots[t.nslots++];
         s.kind = sd[0]; s.len = sd[1] - '0'; s.lo = s.hi = 0;
         if (s.kind == 'r' || s.kind == 'z') { auto p = split(sd, ':'); s.lo = to_long(p[1]); s.hi = to_long(p[2]); }
         vs_sym(s.b, s.len, "val");
         for (int i = 0; i < s.len; ++i) {
            unsigned char c = s.b[i];
            if (s.kind == 'i' && i == 0) vs_assume(c == '-');
            else if (s.kind == 'a') vs_assume((c >= 'a' && c <= 'z') || (c >= 'A' && c <= 'Z'));
            else if (s.kind == 's') vs_assume(c > ' ' && c < 127 && c != '-' && c != '=' && c != ',' && c != '!' && c != '[' && c != ']' && c != ';' && c != '"' && c != '\'' && c != '\\' && c != '#');
            else if (s.kind == 'b') vs_assume(c != 0);
            else vs_assume(c >= '0' && c <= '9');
         }
         if (s.kind == 'r') { long v = slot_int(s); vs_assume(v >= s.lo && v <= s.hi); }
         if (s.kind == 'z') { long v = slot_int(s); vs_assume(v < s.lo || v >= s.hi); }
      }
   // pattern checks (cfg 16): "patw+" / "patk+" = slot 0 is assumed to match the pattern of -w / -k (reference predicate below) and
   // the line must be accepted, "patw-" / "patk-" = assumed not to match, must be refused
   if (t.expect.compare(0, 3, "pat") == 0) {
      const Slot& s = t.slots[0]; bool member;
      if (t.expect[3] == 'w') {          // ^[a-c]+[0-9]$
         member = s.len >= 2 && s.b[s.len - 1] >= '0' && s.b[s.len - 1] <= '9';
         for (int i = 0; i + 1 < s.len; ++i) member = member && s.b[i] >= 'a' && s.b[i] <= 'c';
      } else if (t.expect[3] == 'm' || t.expect[3] == 'v') {   // value lists: m = "fast,faster,Slow" ignoring the case, v = "ab,cd,abc" (exact)
         static const char* const LM[] = {"fast", "faster", "slow"}; static const char* const LV[] = {"ab", "cd", "abc"};
         member = false;
         for (const char* e : (t.expect[3] == 'm' ? LM : LV)) {
            bool eq = std::strlen(e) == (size_t) s.len;
            for (int i = 0; eq && i < s.len; ++i) { unsigned char c = s.b[i]; if (t.expect[3] == 'm' && c >= 'A' && c <= 'Z') c = (unsigned char) (c + 32); eq = c == (unsigned char) e[i]; }
            member = member || eq;
         }
      } else                             // x.?y
         member = (s.len == 2 && s.b[0] == 'x' && s.b[1] == 'y') || (s.len == 3 && s.b[0] == 'x' && s.b[2] == 'y');
      if (t.expect[4] == '+') { vs_assume(member); t.expect = "ok"; } else { vs_assume(!member); t.expect = "throw"; }
   }
   for (size_t i = 2; i < lines.size(); ++i) {
      if (i + 1 == lines.size() && lines[i].empty()) break;
      std::string w;
      for (size_t k = 0; k < lines[i].size(); ++k) {
         if (lines[i][k] == '\x01') { const Slot& s = t.slots[lines[i][++k] - '0']; w.append(reinterpret_cast<const char*>(s.b), s.len); }
         else w += lines[i][k];
      }
      t.words.push_back(w);
   }
}
struct Argv {
   std::vector<char*> p;
   explicit Argv(const std::vector<std::string>& words) {
      auto dup = [](const std::string& s) { char* c = new char[s.size() + 1]; std::memcpy(c, s.c_str(), s.size() + 1); return c; };
      p.push_back(dup("prog"));
      for (auto& w : words) p.push_back(dup(w));
      p.push_back(nullptr);
   }
   ~Argv() { for (char* c : p) delete[] c; }
   int argc() const { return (int) p.size() - 1; }
   char** argv() { return p.data(); }
};

// destinations of all configurations
struct Dest {
   bool f, g, x, y, r, a, b, p, q;
   int n, m, l, u, d1, d2;
   std::string s, w, k;
   std::optional<int> o;
   std::vector<int> v, c, v1, v2, fv;
   std::set<int> st;
   int arr[3] = {0, 0, 0};
   std::array<int, 3> sa{{0, 0, 0}};
   std::bitset<8> bs; std::bitset<200> bigbs; celma::container::DynamicBitset dynbs{4};
   std::vector<bool> vb;
   std::map<int, int> kv;
   std::tuple<int, int, int> tp{0, 0, 0};
   std::vector<std::string> vs; std::tuple<std::string, std::string, std::string> ts;
   std::deque<int> dq; std::list<int> li; std::forward_list<int> fl; std::stack<int> sk; std::queue<int> qu; std::priority_queue<int> pq; std::multiset<int> ms; std::unordered_set<int> us;
   double dbl = 0.25, ratio = 0.25, quota = 0.25, weight = 0.25; float flt = 0.5f;
   int n0, m0, l0, u0, d10, d20;
   Dest() : f(false), g(false), x(false), y(false), r(false), a(false), b(false), p(false), q(false) {
      n0 = n = (int) vs_u32("init"); m0 = m = (int) vs_u32("init"); l0 = l = (int) vs_u32("init"); u0 = u = (int) vs_u32("init");
      d10 = d1 = (int) vs_u32("init"); d20 = d2 = (int) vs_u32("init");
      s = "init-s"; w = "init-w"; k = "init-k";
   }
};
// cfg 0: value kinds and spellings.  cfg 1: checks + cardinality.  cfg 2: argument constraints + mandatory.
// cfg 3: handler constraint any_of + value constraints.  cfg 7: all_of.  cfg 4: one_of.  cfg 5: long keys sharing prefixes.
void setup(Handler& ah, Dest& d, int cfg, int part /* 0 = all, 1/2 = halves for groups */) {
   auto in = [part](int k) { return part == 0 || part == k; };
   if (cfg == 0) {
      if (in(1)) { ah.addArgument("f,flag", DEST_VAR(d.f), "flag"); ah.addArgument("n,number", DEST_VAR(d.n), "number"); ah.addArgument("o,opt", DEST_VAR(d.o), "optional"); }
      if (in(2)) { ah.addArgument("g,gflag", DEST_VAR(d.g), "flag"); ah.addArgument("s,name", DEST_VAR(d.s), "name"); ah.addArgument("v,values", DEST_VAR(d.v), "values"); }
   } else if (cfg == 1) {
      if (in(1)) { ah.addArgument("l,low", DEST_VAR(d.l), "low")->addCheck(lower(10)); ah.addArgument("u,up", DEST_VAR(d.u), "up")->addCheck(upper(100));
                   ah.addArgument("m,mid", DEST_VAR(d.m), "mid")->addCheck(range(10, 100)); }
      if (in(2)) { ah.addArgument("w,word", DEST_VAR(d.w), "word")->addCheck(values("ab,cd,abc"));
                   ah.addArgument("k,key", DEST_VAR(d.k), "key")->addCheck(minLength(2))->addCheck(maxLength(3));
                   ah.addArgument("c,card", DEST_VAR(d.c), "card")->setCardinality(cardinality_max(2)); }
   } else if (cfg == 2) {
      if (in(1)) { ah.addArgument("m,mand", DEST_VAR(d.m), "mandatory")->setIsMandatory(); ah.addArgument("x", DEST_VAR(d.x), "x")->addConstraint(excludes("y"));
                   ah.addArgument("y", DEST_VAR(d.y), "y"); }
      if (in(2)) { ah.addArgument("r", DEST_VAR(d.r), "r")->addConstraint(requiresArg("n,number")); ah.addArgument("n,number", DEST_VAR(d.n), "number"); ah.addArgument("f,flag", DEST_VAR(d.f), "flag"); }
   } else if (cfg == 3) {
      if (in(1)) { ah.addArgument("a", DEST_VAR(d.a), "a"); ah.addArgument("b", DEST_VAR(d.b), "b"); ah.addArgument("p", DEST_VAR(d.p), "p"); ah.addArgument("q", DEST_VAR(d.q), "q");
                   ah.addConstraint(any_of("p;q")); }
      if (in(2)) { ah.addArgument("d", DEST_VAR(d.d1), "d1"); ah.addArgument("e", DEST_VAR(d.d2), "d2"); ah.addArgument("v", DEST_VAR(d.v1), "v1"); ah.addArgument("w", DEST_VAR(d.v2), "v2");
                   ah.addConstraint(differ("d;e")); ah.addConstraint(disjoint("v;w")); }
   } else if (cfg == 7) {
      // all_of: "All of the specified arguments must be used" (class documentation)
      if (in(1)) { ah.addArgument("a", DEST_VAR(d.a), "a"); ah.addArgument("b", DEST_VAR(d.b), "b"); ah.addConstraint(all_of("a;b")); }
      if (in(2)) { ah.addArgument("n,number", DEST_VAR(d.n), "number"); }
   } else if (cfg == 8) {
      // handler constraints over arguments with short AND long keys (spelled in every way by the driver)
      if (in(1)) { ah.addArgument("i,input", DEST_VAR(d.n), "input"); ah.addArgument("o,output", DEST_VAR(d.m), "output"); ah.addConstraint(one_of("input;output")); }
      if (in(2)) { ah.addArgument("p,print", DEST_VAR(d.p), "print"); ah.addArgument("q,quiet", DEST_VAR(d.q), "quiet"); ah.addConstraint(any_of("p;quiet"));
                   ah.addArgument("a,alpha", DEST_VAR(d.a), "alpha"); ah.addArgument("b,beta", DEST_VAR(d.b), "beta"); ah.addConstraint(all_of("alpha;b")); }
   } else if (cfg == 19) {
      // cfg 8 with the constraint lists written with dashes / in the normalised "-s,--long" form
      if (in(1)) { ah.addArgument("i,input", DEST_VAR(d.n), "input"); ah.addArgument("o,output", DEST_VAR(d.m), "output"); ah.addConstraint(one_of("-i,--input;--output")); }
      if (in(2)) { ah.addArgument("p,print", DEST_VAR(d.p), "print"); ah.addArgument("q,quiet", DEST_VAR(d.q), "quiet"); ah.addConstraint(any_of("-p;--quiet"));
                   ah.addArgument("a,alpha", DEST_VAR(d.a), "alpha"); ah.addArgument("b,beta", DEST_VAR(d.b), "beta"); ah.addConstraint(all_of("-a,--alpha;-b")); }
   } else if (cfg == 20) {
      // constraints over short-only keys written with their dash
      if (part == 2) { ah.addArgument("f,flag", DEST_VAR(d.f), "flag"); return; }
      ah.addArgument("a", DEST_VAR(d.a), "a"); ah.addArgument("b", DEST_VAR(d.b), "b"); ah.addConstraint(all_of("-a;-b"));
      ah.addArgument("p", DEST_VAR(d.p), "p"); ah.addArgument("q", DEST_VAR(d.q), "q"); ah.addConstraint(any_of("-p;-q"));
      ah.addArgument("x", DEST_VAR(d.x), "x"); ah.addArgument("y", DEST_VAR(d.y), "y"); ah.addConstraint(one_of("-x;-y"));
      ah.addArgument("r", DEST_VAR(d.r), "r")->addConstraint(requiresArg("-a")); ah.addArgument("g", DEST_VAR(d.g), "g")->addConstraint(excludes("-p"));
   } else if (cfg == 21) {
      // argument constraints whose partner arguments are spelled in every way on the command line
      if (in(1)) { ah.addArgument("s,name", DEST_VAR(d.s), "name")->addConstraint(requiresArg("n,number")); ah.addArgument("n,number", DEST_VAR(d.n), "number");
                   ah.addArgument("q,quiet", DEST_VAR(d.q), "quiet")->addConstraint(excludes("v,verbose")); ah.addArgument("v,verbose", DEST_VAR(d.f), "verbose"); }
      if (in(2)) { ah.addArgument("g,gflag", DEST_VAR(d.g), "flag"); }
   } else if (cfg == 22) {
      if (in(1)) { ah.addArgument("a", DEST_VAR(d.a), "a")->addConstraint(requiresArg("x")); ah.addArgument("b", DEST_VAR(d.b), "b")->addConstraint(requiresArg("extra"));
                   ah.addArgument("x,extra", DEST_VAR(d.x), "x"); }
      if (in(2)) { ah.addArgument("g,gflag", DEST_VAR(d.g), "g"); }
   } else if (cfg == 9) {
      // the same argument required by one argument and excluded by another
      if (in(1)) { ah.addArgument("a", DEST_VAR(d.a), "a")->addConstraint(requiresArg("c")); ah.addArgument("b", DEST_VAR(d.b), "b")->addConstraint(excludes("c"));
                   ah.addArgument("c", DEST_VAR(d.f), "c"); ah.addArgument("x,extra", DEST_VAR(d.x), "x")->addConstraint(requiresArg("c;a"))->addConstraint(excludes("b")); }
      if (in(2)) { ah.addArgument("g,gflag", DEST_VAR(d.g), "g"); }
   } else if (cfg == 10) {
      if (in(1)) { ah.addArgument("l,list", DEST_VAR(d.v), "list")->setTakesMultiValue(); ah.addArgument("s,name", DEST_VAR(d.s), "name"); ah.addConstraint(one_of("l;name")); }
      if (in(2)) { ah.addArgument("n,number", DEST_VAR(d.n), "number"); ah.addArgument("f,flag", DEST_VAR(d.f), "flag"); ah.addArgument("-", DEST_VAR(d.fv), "free values"); }
   } else if (cfg == 11) {
      // key-value and tuple destinations
      d.kv[1] = 5;
      auto* k = ah.addArgument("m,map", DEST_VAR(d.kv), "key-value pairs (pairs separated by ';', key and value by ',')");
      if (pa_opt & 1) k->setClearBeforeAssign();
      if (pa_opt & 4) k->setUniqueData(false);
      if (pa_opt & 8) k->setUniqueData(true);
      if (pa_opt & 256) k->setPairFormat("=||");          // pair "|key=value|"
      if (pa_opt & 512) k->setPairFormat(":{}");          // pair "{key:value}"
      if (pa_opt & 16384) k->addCheck(maxLength(6));      // every single pair is checked (at most 6 characters)
      auto* tpa = ah.addArgument("t,tuple", DEST_VAR(d.tp), "tuple of three ints");
      if (pa_opt & 32768) tpa->setCardinality();         // the cardinality check of the tuple is removed
      ah.addArgument("f,flag", DEST_VAR(d.f), "flag");
   } else if (cfg == 14) {
      // the other standard containers (deque and list with previous content 7), and a vector whose elements are range-checked
      d.dq.push_back(7); d.li.push_back(7);
      celma::prog_args::detail::TypedArgBase* as[8] = { ah.addArgument("d,deque", DEST_VAR(d.dq), "deque"), ah.addArgument("l,list", DEST_VAR(d.li), "list"), ah.addArgument("w,fwd", DEST_VAR(d.fl), "forward list"),
                              ah.addArgument("k,stack", DEST_VAR(d.sk), "stack"), ah.addArgument("q,queue", DEST_VAR(d.qu), "queue"), ah.addArgument("p,prio", DEST_VAR(d.pq), "priority queue"),
                              ah.addArgument("m,mset", DEST_VAR(d.ms), "multiset"), ah.addArgument("u,uset", DEST_VAR(d.us), "unordered set") };
      for (auto* a : as) { if (pa_opt & 16) a->setListSep(';'); if (pa_opt & 32) a->setTakesMultiValue(); }
      if (pa_opt & 1) { as[0]->setClearBeforeAssign(); as[1]->setClearBeforeAssign(); }
      if (pa_opt & 2) { as[0]->setSortData(); as[1]->setSortData(); }
      ah.addArgument("e,elems", DEST_VAR(d.v), "checked elements")->addCheck(range(10, 100));
      ah.addArgument("f,flag", DEST_VAR(d.f), "flag");
   } else if (cfg == 13) {
      // formatters: general format on a string and on a vector of strings, per-position formats on a vector and on a tuple
      ah.addArgument("s,name", DEST_VAR(d.s), "name")->addFormat(lowercase());
      auto* wv = ah.addArgument("w,words", DEST_VAR(d.vs), "words");
      if (pa_opt & 2) { wv->addFormatPos(1, lowercase()); wv->addFormatPos(3, lowercase()); } else wv->addFormat(uppercase());
      if (pa_opt & 32) wv->setTakesMultiValue();
      auto* tv = ah.addArgument("t,triple", DEST_VAR(d.ts), "triple");
      tv->addFormatPos(0, lowercase()); tv->addFormatPos(1, uppercase()); tv->addFormatPos(2, anycase("Ul"));
      if (pa_opt & 32) tv->setTakesMultiValue();
      ah.addArgument("f,flag", DEST_VAR(d.f), "flag");
   } else if (cfg == 15) {
      // floating point destinations
      ah.addArgument("d,double", DEST_VAR(d.dbl), "double"); ah.addArgument("x,float", DEST_VAR(d.flt), "float"); ah.addArgument("f,flag", DEST_VAR(d.f), "flag"); ah.addArgument("n,number", DEST_VAR(d.n), "number");
      ah.addArgument("r,ratio", DEST_VAR(d.ratio), "checked double")->addCheck(range(0.5, 2.5)); ah.addArgument("q,quota", DEST_VAR(d.quota), "checked double")->addCheck(lower(1.5))->addCheck(upper(7.5));
      ah.addArgument("w,weight", DEST_VAR(d.weight), "double with integer limits")->addCheck(range(1, 10));
   } else if (cfg == 16) {
      // pattern check (std::regex, header code of libstdc++ in the IR)
      ah.addArgument("w,word", DEST_VAR(d.w), "word")->addCheck(pattern("^[a-c]+[0-9]$")); ah.addArgument("k,key", DEST_VAR(d.k), "key")->addCheck(pattern("x.?y"));
      ah.addArgument("m,mode", DEST_VAR(d.s), "mode")->addCheck(values("fast,faster,Slow", true));
      ah.addArgument("f,flag", DEST_VAR(d.f), "flag");
   } else if (cfg == 17) {
      // an argument with value mode 'command': the rest of the command line is its value
      ah.addArgument("x,exec", DEST_VAR(d.k), "command")->setValueMode(Handler::ValueMode::command);
      ah.addArgument("f,flag", DEST_VAR(d.f), "flag"); ah.addArgument("n,number", DEST_VAR(d.n), "number"); ah.addArgument("s,name", DEST_VAR(d.s), "name");
   } else if (cfg == 18) {
      // exact / range cardinalities, a flag whose variable is initially set, deprecated and replaced arguments, value+constant pair
      if (in(1)) { ah.addArgument("c,count", DEST_VAR(d.c), "exactly two")->setCardinality(cardinality_exact(2)); ah.addArgument("v,values", DEST_VAR(d.v), "two or three")->setCardinality(cardinality_range(2, 3));
                   d.g = true; ah.addArgument("u,unset", DEST_VAR(d.g), "clears the flag"); }
      if (in(2)) { ah.addArgument("d,dep", DEST_VAR(d.m), "deprecated")->setIsDeprecated(); ah.addArgument("r,repl", DEST_VAR(d.l), "replaced")->setReplacedBy("--new");
                   ah.addArgument("p,pair", DEST_PAIR(d.s, d.u, 7), "value and constant"); ah.addArgument("f,flag", DEST_VAR(d.f), "flag"); }
   } else if (cfg == 12) {
      // value constraints over three arguments
      if (in(1)) { ah.addArgument("x", DEST_VAR(d.n), "x"); ah.addArgument("y", DEST_VAR(d.m), "y"); ah.addArgument("z", DEST_VAR(d.l), "z"); ah.addConstraint(differ("x;y;z")); }
      if (in(2)) { ah.addArgument("f,flag", DEST_VAR(d.f), "flag"); }
   } else if (cfg == 4) {
      ah.addArgument("a", DEST_VAR(d.a), "a"); ah.addArgument("b", DEST_VAR(d.b), "b"); ah.addArgument("n,number", DEST_VAR(d.n), "number");
      ah.addConstraint(one_of("a;b"));
   } else if (cfg == 6) {
      // containers.  opt bits (global pa_opt): 1 clear-before-assign, 2 sort, 4 unique, 8 unique+errors, 16 list separator ';', 32 multi-value
      if (part == 2) goto cfg6_second;
      d.v.push_back(7);
      {
      auto* a = ah.addArgument("v,values", DEST_VAR(d.v), "values");
      if (pa_opt & 1) a->setClearBeforeAssign();
      if (pa_opt & 2) a->setSortData();
      if (pa_opt & 4) a->setUniqueData(false);
      if (pa_opt & 8) a->setUniqueData(true);
      if (pa_opt & 16) a->setListSep(';');
      if (pa_opt & 32) a->setTakesMultiValue();
      if (pa_opt & 8192) a->setCardinality(cardinality_max(2));       // at most two values from the command line
      // the same options on a container WITHOUT previous content
      auto* e = ah.addArgument("e,empty", DEST_VAR(d.c), "values, initially empty");
      if (pa_opt & 1) e->setClearBeforeAssign();
      if (pa_opt & 2) e->setSortData();
      if (pa_opt & 4) e->setUniqueData(false);
      if (pa_opt & 8) e->setUniqueData(true);
      if (pa_opt & 16) e->setListSep(';');
      if (pa_opt & 32) e->setTakesMultiValue();
      }
      if (part == 1) return;
   cfg6_second:
      {
      celma::prog_args::detail::TypedArgBase* cs[3] = { ah.addArgument("t,set", DEST_VAR(d.st), "set"), ah.addArgument("a,arr", DEST_VAR(d.arr), "array"), ah.addArgument("y,stdarr", DEST_VAR(d.sa), "std::array") };
      if (pa_opt & 1024) for (auto* a : cs) a->addCheck(range(10, 100));        // every element is checked
      if (pa_opt & 65536) cs[1]->setIsMandatory();                               // the C array must be given (any number of values up to its size)
      }
      {
      auto* b = ah.addArgument("b,bits", DEST_VAR(d.bs), "bitset");
      if (pa_opt & 2048) { d.bs.set(); b->unsetFlag(); }                           // all bits set before, the argument clears the positions
      if (pa_opt & 4096) b->addFormat(lowercase());                               // a (here: neutral) value formatter
      } ah.addArgument("B,bigbits", DEST_VAR(d.bigbs), "bitset of several words"); ah.addArgument("D,dynbits", DEST_VAR(d.dynbs), "dynamic bitset (grows)");
      d.vb.resize((pa_opt >> 7) & 3);          // a destination that already has 0..3 (cleared) positions
      ah.addArgument("z,vbool", DEST_VAR(d.vb), "vector<bool>");
      ah.addArgument("f,flag", DEST_VAR(d.f), "flag");
      if (pa_opt & 64) ah.addArgument("-", DEST_VAR(d.fv), "free values");
   } else if (cfg == 5) {
      ah.addArgument("in", DEST_VAR(d.n), "in"); ah.addArgument("in-file", DEST_VAR(d.m), "in-file"); ah.addArgument("in-dir", DEST_VAR(d.l), "in-dir");
      ah.addArgument("output", DEST_VAR(d.u), "output"); ah.addArgument("f,flag", DEST_VAR(d.f), "flag");
   }
}
bool check_int(const Tmpl& t, const std::string& e, int got, int init, const char* msg) {
   if (e == "_") { vs_assert(got == init, msg); return true; }
   if (e[0] == '#') { vs_assert((long) got == slot_int(t.slots[e[1] - '0']), msg); return true; }
   vs_assert(got == (int) to_long(e), msg); return true;
}
void check_str(const Tmpl& t, const std::string& e, const std::string& got, const char* init, const char* msg) {
   if (e == "_") { vs_assert(got == init, msg); return; }
   // expression: literal characters and $<k> (the bytes of slot k), concatenated
   std::string want;
   for (size_t i = 0; i < e.size(); ++i) {
      if (e[i] == '$' && i + 1 < e.size()) { const Slot& s = t.slots[e[++i] - '0']; want.append(reinterpret_cast<const char*>(s.b), s.len); }
      else want += e[i];
   }
   vs_assert(got.size() == want.size() && std::memcmp(got.data(), want.data(), want.size()) == 0, msg);
}
void check_vec(const Tmpl& t, const std::string& e, const std::vector<int>& got, const char* msg) {
   if (e == "_") { vs_assert(got.empty(), msg); return; }
   auto parts = split(e, ',');
   vs_assert(got.size() == parts.size(), msg);
   if (got.size() != parts.size()) return;
   for (size_t i = 0; i < parts.size(); ++i)
      vs_assert((long) got[i] == (parts[i][0] == '#' ? slot_int(t.slots[parts[i][1] - '0']) : to_long(parts[i])), msg);
}
// floating point: [-]X.Y with X, Y = #<slot> or literal digits: the value is the correctly rounded quotient (X*10^|Y| + Y) / 10^|Y|,
// i.e. exactly what a correctly rounding decimal-to-binary conversion of the text gives
void check_fp(const Tmpl& t, std::string e, double got, double init, bool is_float, const char* msg) {
   if (e == "_") { vs_assert(got == init, msg); return; }
   bool neg = false; if (e[0] == '-') { neg = true; e = e.substr(1); }
   auto parts = split(e, '.');
   long num = 0, den = 1;
   for (size_t i = 0; i < parts.size() && i < 2; ++i) {
      const std::string& p = parts[i];
      if (p.empty()) continue;
      for (size_t q = 0; q < p.size(); ++q) {
         if (p[q] == '#') { const Slot& s = t.slots[p[++q] - '0']; for (int k = 0; k < s.len; ++k) { num = num * 10 + (s.b[k] - '0'); if (i == 1) den *= 10; } }
         else { num = num * 10 + (p[q] - '0'); if (i == 1) den *= 10; }
      }
   }
   if (neg) num = -num;
   if (is_float) { float want = (float) num / (float) den; vs_assert((float) got == want, msg); }
   else { double want = (double) num / (double) den; vs_assert(got == want, msg); }
}
// list of strings: parts separated by ','; part = [lc|uc|Ul] followed by $<slot> or literal text
void check_strs(const Tmpl& t, const std::string& e, const std::vector<std::string>& got, const char* msg) {
   if (e == "_") { vs_assert(got.empty(), msg); return; }
   auto parts = split(e, ',');
   vs_assert(got.size() == parts.size(), msg);
   if (got.size() != parts.size()) return;
   for (size_t i = 0; i < parts.size(); ++i) {
      std::string p = parts[i], mode;
      if (p.size() > 2 && (p.compare(0, 2, "lc") == 0 || p.compare(0, 2, "uc") == 0 || p.compare(0, 2, "Ul") == 0)) { mode = p.substr(0, 2); p = p.substr(2); }
      std::string want = p;
      if (p[0] == '$') { const Slot& s = t.slots[p[1] - '0']; want.assign(reinterpret_cast<const char*>(s.b), s.len); }
      for (size_t k = 0; k < want.size(); ++k) {
         char c = want[k]; bool up = mode == "uc" || (mode == "Ul" && k == 0), lo = mode == "lc" || (mode == "Ul" && k > 0);
         if (up && c >= 'a' && c <= 'z') c = (char) (c - 32);
         if (lo && c >= 'A' && c <= 'Z') c = (char) (c + 32);
         want[k] = c;
      }
      vs_assert(got[i] == want, msg);
   }
}
void check_dests(const Tmpl& t, const Dest& d) {
   for (auto& it : t.items) {
      const size_t eqpos = it.find('='); const std::string k = it.substr(0, eqpos), e = it.substr(eqpos + 1);
      if (k == "f") vs_assert(d.f == (e == "1"), "destination f (flag)");
      else if (k == "g") vs_assert(d.g == (e == "1"), "destination g (flag)");
      else if (k == "x") vs_assert(d.x == (e == "1"), "destination x (flag)");
      else if (k == "y") vs_assert(d.y == (e == "1"), "destination y (flag)");
      else if (k == "r") vs_assert(d.r == (e == "1"), "destination r (flag)");
      else if (k == "a") vs_assert(d.a == (e == "1"), "destination a (flag)");
      else if (k == "b") vs_assert(d.b == (e == "1"), "destination b (flag)");
      else if (k == "p") vs_assert(d.p == (e == "1"), "destination p (flag)");
      else if (k == "q") vs_assert(d.q == (e == "1"), "destination q (flag)");
      else if (k == "n") check_int(t, e, d.n, d.n0, "destination n (int)");
      else if (k == "m") check_int(t, e, d.m, d.m0, "destination m (int)");
      else if (k == "l") check_int(t, e, d.l, d.l0, "destination l (int)");
      else if (k == "u") check_int(t, e, d.u, d.u0, "destination u (int)");
      else if (k == "d1") check_int(t, e, d.d1, d.d10, "destination d1 (int)");
      else if (k == "d2") check_int(t, e, d.d2, d.d20, "destination d2 (int)");
      else if (k == "s") check_str(t, e, d.s, "init-s", "destination s (string)");
      else if (k == "w") check_str(t, e, d.w, "init-w", "destination w (string)");
      else if (k == "k") check_str(t, e, d.k, "init-k", "destination k (string)");
      else if (k == "o") { if (e == "-") vs_assert(!d.o.has_value(), "destination o (optional) stays empty"); else { vs_assert(d.o.has_value(), "destination o (optional) has a value"); if (d.o.has_value()) check_int(t, e, *d.o, 0, "destination o (optional int)"); } }
      else if (k == "v") check_vec(t, e, d.v, "destination v (vector)");
      else if (k == "c") check_vec(t, e, d.c, "destination c (vector)");
      else if (k == "v1") check_vec(t, e, d.v1, "destination v1 (vector)");
      else if (k == "v2") check_vec(t, e, d.v2, "destination v2 (vector)");
      else if (k == "fv") check_vec(t, e, d.fv, "destination fv (free values)");
      else if (k == "st") check_vec(t, e, std::vector<int>(d.st.begin(), d.st.end()), "destination st (set)");
      else if (k == "arr") check_vec(t, e, std::vector<int>(d.arr, d.arr + 3), "destination arr (int[3])");
      else if (k == "sa") check_vec(t, e, std::vector<int>(d.sa.begin(), d.sa.end()), "destination sa (std::array)");
      else if (k == "vb") { for (auto& part : split(e, ',')) { long pos = part[0] == '#' ? slot_int(t.slots[part[1] - '0']) : to_long(part); vs_assert((long) d.vb.size() > pos, "destination vb (vector<bool>) grew to hold the position"); if ((long) d.vb.size() > pos) vs_assert(d.vb[pos], "destination vb (vector<bool>) has the position set"); } }
      else if (k == "kv") {        // "key:value" items joined by '+', in key order
         auto parts = e == "_" ? std::vector<std::string>() : split(e, '+');
         vs_assert(d.kv.size() == parts.size(), "destination kv (map) holds exactly the given pairs");
         auto it = d.kv.begin();
         for (size_t i = 0; i < parts.size() && it != d.kv.end(); ++i, ++it) {
            auto kvp = split(parts[i], ':');
            long ek = kvp[0][0] == '#' ? slot_int(t.slots[kvp[0][1] - '0']) : to_long(kvp[0]), ev = kvp[1][0] == '#' ? slot_int(t.slots[kvp[1][1] - '0']) : to_long(kvp[1]);
            vs_assert((long) it->first == ek && (long) it->second == ev, "destination kv (map) key and value");
         }
      }
      else if (k == "tp") check_vec(t, e, std::vector<int>{std::get<0>(d.tp), std::get<1>(d.tp), std::get<2>(d.tp)}, "destination tp (tuple)");
      else if (k == "dq") check_vec(t, e, std::vector<int>(d.dq.begin(), d.dq.end()), "destination dq (deque): previous content, then the values in order");
      else if (k == "li") check_vec(t, e, std::vector<int>(d.li.begin(), d.li.end()), "destination li (list): previous content, then the values in order");
      else if (k == "fl") { std::vector<int> v(d.fl.begin(), d.fl.end()); std::sort(v.begin(), v.end()); check_vec(t, e, v, "destination fl (forward_list) holds exactly the given values"); }
      else if (k == "sk") { std::vector<int> v; auto c = d.sk; while (!c.empty()) { v.insert(v.begin(), c.top()); c.pop(); } check_vec(t, e, v, "destination sk (stack): values pushed in order"); }
      else if (k == "qu") { std::vector<int> v; auto c = d.qu; while (!c.empty()) { v.push_back(c.front()); c.pop(); } check_vec(t, e, v, "destination qu (queue): values in order"); }
      else if (k == "pq") { std::vector<int> v; auto c = d.pq; while (!c.empty()) { v.insert(v.begin(), c.top()); c.pop(); } check_vec(t, e, v, "destination pq (priority_queue) holds exactly the given values"); }
      else if (k == "ms") check_vec(t, e, std::vector<int>(d.ms.begin(), d.ms.end()), "destination ms (multiset) holds exactly the given values");
      else if (k == "us") { std::vector<int> v(d.us.begin(), d.us.end()); std::sort(v.begin(), v.end()); check_vec(t, e, v, "destination us (unordered_set) holds exactly the given values"); }
      else if (k == "ws") check_strs(t, e, d.vs, "destination ws (vector<string>, formatted)");
      else if (k == "ts") check_strs(t, e, std::vector<std::string>{std::get<0>(d.ts), std::get<1>(d.ts), std::get<2>(d.ts)}, "destination ts (tuple of strings, formatted per position)");
      else if (k == "ls") check_strs(t, e, std::vector<std::string>{d.s}, "destination s (string, formatted)");
      else if (k == "dbl") check_fp(t, e, d.dbl, 0.25, false, "destination dbl (double)");
      else if (k == "ratio") check_fp(t, e, d.ratio, 0.25, false, "destination ratio (double, range-checked)");
      else if (k == "weight") check_fp(t, e, d.weight, 0.25, false, "destination weight (double, integer range limits)");
      else if (k == "quota") check_fp(t, e, d.quota, 0.25, false, "destination quota (double, lower/upper-checked)");
      else if (k == "flt") check_fp(t, e, (double) d.flt, 0.5, true, "destination flt (float)");
      else if (k == "dynbs") { size_t want = 0; for (auto& part : split(e, ',')) { long pos = part[0] == '#' ? slot_int(t.slots[part[1] - '0']) : to_long(part); vs_assert(pos >= 0 && (size_t) pos < d.dynbs.size() && d.dynbs.test((size_t) pos), "destination dynbs (DynamicBitset) grew and has the position set"); ++want; } vs_assert(d.dynbs.count() <= want, "destination dynbs (DynamicBitset) has no other position set"); }
      else if (k == "bigbs") { size_t want = 0; for (auto& part : split(e, ',')) { long pos = part[0] == '#' ? slot_int(t.slots[part[1] - '0']) : to_long(part); vs_assert(pos >= 0 && pos < 200 && d.bigbs.test((size_t) pos), "destination bigbs (bitset<200>) has the position set"); ++want; } vs_assert(d.bigbs.count() <= want, "destination bigbs (bitset<200>) has no other position set"); }
      else if (k == "bsc" || k == "bss") {      // bitset<8>: exactly the listed positions are cleared (bsc) / set (bss), all others the opposite
         bool listed[8] = {false, false, false, false, false, false, false, false};
         if (e != "_") for (auto& part : split(e, ',')) { long pos = part[0] == '#' ? slot_int(t.slots[part[1] - '0']) : to_long(part); for (long i = 0; i < 8; ++i) if (i == pos) listed[i] = true; }
         for (size_t i = 0; i < 8; ++i) vs_assert(d.bs.test(i) == (k == "bss" ? listed[i] : !listed[i]), "destination bs (bitset): exactly the given positions are set / cleared");
      }
      else if (k == "bs") check_int(t, e, (int) d.bs.to_ulong(), 0, "destination bs (bitset)");
   }
}
// outcome: 0 return, 1 std::exception, 2 other exception
template <typename F> int guarded(F f) { try { f(); return 0; } catch (const std::exception&) { return 1; } catch (...) { return 2; } }
void judge(const Tmpl& t, int rc, const Dest& d) {
   vs_note("rc", rc);
   vs_assert(rc != 2, "only exceptions derived from std::exception may leave evalArguments()");
   if (t.expect == "ok") { vs_assert(rc == 0, "rule-obeying command line is accepted"); if (rc == 0) check_dests(t, d); }
   else if (t.expect == "throw") vs_assert(rc == 1, "rule-breaking command line is rejected with an exception");
}
std::ostringstream* sink() { static std::ostringstream* s = nullptr; if (!s) s = new std::ostringstream; return s; }
} // namespace

// plain handler.  flags: bit0 hfNoAbbr, bit1 hfEndValues
HX void hx_pa(uint64_t cfg, uint64_t flags) {
   Tmpl t; parse(t);
   Dest d;
   int hf = 0; if (flags & 1) hf |= Handler::hfNoAbbr; if (flags & 2) hf |= Handler::hfEndValues;
   pa_opt = (unsigned) (flags >> 8);
   Handler ah(hf);
   setup(ah, d, (int) cfg, 0);
   Argv av(t.words);
   int rc = guarded([&] { ah.evalArguments(av.argc(), av.argv()); });
   judge(t, rc, d);
}
// the same Handler object evaluates two command lines one after the other (words before "\x04" = first line).  The expectation
// is judged after the second evaluation; mode bit 0: the first evaluation is expected to fail (and its failure is ignored)
HX void hx_pa_twice(uint64_t cfg, uint64_t flags) {
   Tmpl t; parse(t);
   Dest d;
   pa_opt = (unsigned) (flags >> 8);
   Handler ah(0);
   setup(ah, d, (int) cfg, 0);
   std::vector<std::string> first, second; bool in_first = true;
   for (auto& w : t.words) { if (w == "\x04") { in_first = false; continue; } (in_first ? first : second).push_back(w); }
   Argv av1(first), av2(second);
   int rc1 = guarded([&] { ah.evalArguments(av1.argc(), av1.argv()); });
   vs_assert(rc1 != 2 && (rc1 == 1) == ((flags & 1) != 0), "first evaluation: accepted / refused as expected");
   int rc = guarded([&] { ah.evalArguments(av2.argc(), av2.argv()); });
   judge(t, rc, d);
}
// C07: the same words delivered through a command line *string* (evalArgumentString)
HX void hx_pa_string(uint64_t cfg, uint64_t flags) {
   Tmpl t; parse(t);
   Dest d;
   Handler ah(0);
   setup(ah, d, (int) cfg, 0);
   std::string line;
   for (auto& w : t.words) { if (!line.empty()) line += ' '; line += w; }
   int rc = guarded([&] { evalArgumentString(ah, line, "prog"); });
   judge(t, rc, d);
}
// C08: the arguments distributed over two handlers of a group (part 1 / part 2) vs expectation
HX void hx_pa_group(uint64_t cfg, uint64_t flags) {
   Tmpl t; parse(t);
   Dest d;
   pa_opt = (unsigned) (flags >> 8);
   int rc = guarded([&] {
      auto h1 = Groups::instance().getArgHandler("first", 0);
      auto h2 = Groups::instance().getArgHandler("second", 0);
      setup(*h1, d, (int) cfg, 1);
      setup(*h2, d, (int) cfg, 2);
      Argv av(t.words);
      Groups::instance().evalArguments(av.argc(), av.argv());
   });
   judge(t, rc, d);
}

// C05: definition order.  perm selects the order in which the five arguments of cfg 5 are added.
HX void hx_pa_order(uint64_t perm, uint64_t flags) {
   Tmpl t; parse(t);
   Dest d;
   Handler ah((flags & 1) ? Handler::hfNoAbbr : 0);
   static const int P[6][3] = {{0, 1, 2}, {0, 2, 1}, {1, 0, 2}, {1, 2, 0}, {2, 0, 1}, {2, 1, 0}};
   int rc0 = guarded([&] {
      for (int i = 0; i < 3; ++i) {
         int k = P[perm % 6][i];
         if (k == 0) ah.addArgument("in", DEST_VAR(d.n), "in");
         else if (k == 1) ah.addArgument("in-file", DEST_VAR(d.m), "in-file");
         else ah.addArgument("in-dir", DEST_VAR(d.l), "in-dir");
      }
      ah.addArgument("output", DEST_VAR(d.u), "output"); ah.addArgument("f,flag", DEST_VAR(d.f), "flag");
   });
   vs_assert(rc0 == 0, "distinct keys can be defined in any order");
   Argv av(t.words);
   int rc = guarded([&] { ah.evalArguments(av.argc(), av.argv()); });
   judge(t, rc, d);
}
// C05: second definition with a (partly symbolic) key specification after "n,number" and "o,output".
//   mode 0: spec = one symbolic character          (refused iff it is 'n' or 'o'; invalid specs throw as well)
//   mode 1: spec = "<c>,number"                     (always refused: long key taken, or both taken)
//   mode 2: spec = "<c>,other"                      (refused iff c is 'n' or 'o': contradicts the existing pair)
//   mode 3: spec = "n,<w1><w2>"                     (always refused: short key taken)
//   mode 4: spec = "<c>,<w1><w2>" with c not n/o/k  (accepted)
//   mode 5..9: keys of the long-only 'alpha' / short-only 'k' arguments reused in other forms (refused); mode 10: "--<w1><w2>,-<c>" (accepted)
HX void hx_pa_keys(uint64_t mode, uint64_t) {
   Handler ah(0); int x = 0, y = 0, z = 0;
   int u = 0, v = 0;
   ah.addArgument("n,number", DEST_VAR(x), "first"); ah.addArgument("o,output", DEST_VAR(y), "second");
   ah.addArgument("alpha", DEST_VAR(u), "long only"); ah.addArgument("k", DEST_VAR(v), "short only");
   unsigned char c = vs_u8("key"), w1 = vs_u8("key"), w2 = vs_u8("key");
   auto plain = [](unsigned char ch) { return ch > ' ' && ch < 127 && ch != '-' && ch != ',' && ch != '!' ; };
   vs_assume(plain(c) && plain(w1) && plain(w2));
   std::string spec;
   if (mode == 0) spec = std::string(1, (char) c);
   else if (mode == 1) spec = std::string(1, (char) c) + ",number";
   else if (mode == 2) spec = std::string(1, (char) c) + ",other";
   else if (mode == 3) spec = std::string("n,") + (char) w1 + (char) w2;
   else if (mode == 5) { vs_assume(c != 'n' && c != 'o' && c != 'k'); spec = std::string(1, (char) c) + ",alpha"; }     // long key of a long-only argument
   else if (mode == 6) spec = std::string("k,") + (char) w1 + (char) w2;                                                     // short key of a short-only argument
   else if (mode == 7) spec = "number";
   else if (mode == 8) spec = "--alpha";
   else if (mode == 9) spec = "-k";
   else if (mode == 10) { spec = std::string("--") + (char) w1 + (char) w2 + ",-" + (char) c; vs_assume(c != 'n' && c != 'o' && c != 'k'); }   // long first, dashes: accepted
   else { vs_assume(c != 'n' && c != 'o' && c != 'k'); spec = std::string(1, (char) c) + "," + (char) w1 + (char) w2; }
   int rc = guarded([&] { ah.addArgument(spec, DEST_VAR(z), "third"); });
   vs_assert(rc != 2, "only std::exception from addArgument()");
   bool refuse = mode == 0 ? (c == 'n' || c == 'o' || c == 'k') : mode == 1 ? true : mode == 2 ? (c == 'n' || c == 'o' || c == 'k') : mode == 3 ? true : (mode >= 5 && mode <= 9) ? true : false;
   vs_assert((rc == 1) == refuse, "addArgument() refuses exactly the keys that are taken or contradict an existing pair");
   if (rc == 0) {
      // the new key must not have hijacked the old ones
      char a0[] = "prog", a1[] = "-n", a2[] = "5"; char* argv[] = {a0, a1, a2, nullptr};
      int rc2 = guarded([&] { ah.evalArguments(3, argv); });
      vs_assert(rc2 == 0 && x == 5 && z == 0, "existing key still designates its own argument");
   }
}
// C07: split(escape(words)) == words.  Words: nw words of wl symbolic bytes (printable incl. space, both quotes, backslash).
HX void hx_split(uint64_t nw, uint64_t wl, uint64_t quoting) {
   std::vector<std::string> words; std::string line;
   for (uint64_t i = 0; i < nw; ++i) {
      unsigned char b[4]; vs_sym(b, wl, "val");
      std::string w, esc;
      for (uint64_t k = 0; k < wl; ++k) { unsigned char c = b[k]; vs_assume(c >= ' ' && c < 127); w += (char) c; }
      if (quoting == 0) { for (char c : w) { if (c == ' ' || c == '"' || c == '\'' || c == '\\') esc += '\\'; esc += c; } }
      else if (quoting == 1) { for (char c : w) vs_assume(c != '"' && c != '\\'); esc = "\"" + w + "\""; }
      else if (quoting == 2) { for (char c : w) vs_assume(c != '\'' && c != '\\'); esc = "'" + w + "'"; }
      else if (quoting == 3) {          // quoting in parts: only the characters that need it are wrapped in double quotes / escaped
         for (char c : w) { if (c == ' ' || c == '\'') { esc += '"'; esc += c; esc += '"'; } else if (c == '"' || c == '\\') { esc += '\\'; esc += c; } else esc += c; }
      } else {                            // the first character in single quotes, the rest of the word behind the closing quote
         vs_assume(w[0] != '\'' && w[0] != '\\');
         esc = std::string("'") + w[0] + "'";
         for (size_t k = 1; k < w.size(); ++k) { char c = w[k]; if (c == ' ' || c == '"' || c == '\'' || c == '\\') esc += '\\'; esc += c; }
      }
      words.push_back(w);
      if (i) line += ' ';
      line += esc;
   }
   celma::appl::ArgString2Array as(line, "prog");
   vs_assert(as.mArgC == (int) nw + 1, "splitting yields as many words as were joined");
   if (as.mArgC == (int) nw + 1)
      for (uint64_t i = 0; i < nw; ++i) vs_assert(words[i] == as.mpArgV[i + 1], "splitting inverts the quoting of every word");
}
// C04: ArgString2Array on an arbitrary string (memory safety of constructor, accessors, destructor)
HX void hx_split_any(uint64_t len, uint64_t) {
   char b[8]; vs_sym(b, len, "val"); b[len] = 0;
   for (uint64_t k = 0; k < len; ++k) vs_assume(b[k] != 0);
   int rc = guarded([&] { celma::appl::ArgString2Array as(std::string(b), nullptr); for (int i = 0; i < as.mArgC; ++i) vs_assert(as.mpArgV[i] != nullptr, "argv entries are valid strings"); });
   vs_assert(rc != 2, "only std::exception");
}
// C07: arguments from the environment variable PROG (hfEnvVarArgs); later command line value overrides
HX void hx_pa_env(uint64_t cfg, uint64_t mode) {
   Tmpl t; parse(t);
   Dest d;
   pa_opt = (unsigned) (mode >> 8);
   // mode bit 1: the name of the variable is given by the application (mixed case) instead of being derived from the program name
   Handler ah((mode & 2) ? 0 : Handler::hfEnvVarArgs);
   if (mode & 2) ah.checkEnvVarArgs("my_App_Args");
   setup(ah, d, (int) cfg, 0);
   // words before the marker word "\x02" are delivered through the environment variable PROG, the rest on argv
   std::string env; std::vector<std::string> cmd; bool in_env = true;
   for (auto& w : t.words) {
      if (w == "\x02") { in_env = false; continue; }
      if (in_env) { if (!env.empty()) env += ' '; env += w; } else cmd.push_back(w);
   }
   if (mode & 1) env = " " + env;            // the value of the variable begins with a blank
   vs_setenv((mode & 2) ? "my_App_Args" : "PROG", env.c_str());
   if (mode & 2) vs_setenv("MY_APP_ARGS", "--no-such-argument");
   Argv av(cmd);
   int rc = guarded([&] { ah.evalArguments(av.argc(), av.argv()); });
   judge(t, rc, d);
}

// C04/C07: program names (argv[0]) of any length when the name of the environment variable is derived from it
HX void hx_pa_env_name(uint64_t namelen, uint64_t slashes) {
   Dest d;
   Handler ah(Handler::hfEnvVarArgs);
   setup(ah, d, 0, 0);
   std::string name(namelen, 'p');
   if (slashes && namelen > 4) { name[0] = '/'; name[namelen / 2] = '/'; }
   if (namelen > 2) { unsigned char c = vs_u8("namechar"); vs_assume(c != 0); name[namelen - 2] = (char) c; }
   char* a0 = new char[name.size() + 1]; std::memcpy(a0, name.c_str(), name.size() + 1);
   char a1[] = "-f"; char* argv[] = {a0, a1, nullptr};
   int rc = guarded([&] { ah.evalArguments(2, argv); });
   delete[] a0;
   vs_assert(rc == 0 && d.f, "the length of the program name does not matter: the command line is evaluated");
}

// C07: the words delivered through the program-argument file $HOME/.progargs/prog.pa.  Words before the marker "\x02" go into
// the file (a word "\x03" ends a file line), the rest on argv.  mode bit 0: the last file line has no trailing newline;
// bit 1: a comment line and an empty line are put in front.
HX void hx_pa_file(uint64_t cfg, uint64_t mode) {
   Tmpl t; parse(t);
   Dest d;
   pa_opt = (unsigned) (mode >> 8);
   Handler ah(Handler::hfReadProgArg);
   setup(ah, d, (int) cfg, 0);
   std::string content = (mode & 2) ? "# a comment line\n\n" : ""; std::vector<std::string> cmd; bool in_file = true, line_open = false;
   for (auto& w : t.words) {
      if (w == "\x02") { in_file = false; continue; }
      if (!in_file) { cmd.push_back(w); continue; }
      if (w == "\x03") { content += '\n'; line_open = false; continue; }
      if (line_open) content += ' ';
      content += w; line_open = true;
   }
   if (line_open && !(mode & 1)) content += '\n';
   vs_setenv("HOME", "/tmp/vs_home");
   vs_file("/tmp/vs_home/.progargs/prog.pa", content.data(), content.size());
   Argv av(cmd);
   int rc = guarded([&] { ah.evalArguments(av.argc(), av.argv()); });
   judge(t, rc, d);
}

// C08: the same key in two member handlers is refused
HX void hx_pa_group_dup(uint64_t mode, uint64_t) {
   int x = 0, y = 0;
   int rc = guarded([&] {
      auto h1 = Groups::instance().getArgHandler("first", 0);
      auto h2 = Groups::instance().getArgHandler("second", 0);
      if (mode >= 3) {
         // the later-created handler defines the key first, then the earlier-created one re-defines it
         auto h3 = Groups::instance().getArgHandler("third", 0);
         if (mode == 3) { h3->addArgument("k,key", DEST_VAR(x), "x"); h1->addArgument("k", DEST_VAR(y), "y"); }
         else if (mode == 4) { h2->addArgument("k,key", DEST_VAR(x), "x"); h1->addArgument("key", DEST_VAR(y), "y"); }
         else { h3->addArgument("key", DEST_VAR(x), "x"); h2->addArgument("q,key", DEST_VAR(y), "y"); }
      } else
      h1->addArgument("n,number", DEST_VAR(x), "x");
      if (mode >= 3) { }
      else if (mode == 0) h2->addArgument("n", DEST_VAR(y), "y");
      else if (mode == 1) h2->addArgument("number", DEST_VAR(y), "y");
      else if (mode == 2) h2->addArgument("m,mumber", DEST_VAR(y), "y");
      char a0[] = "prog"; char* argv[] = {a0, nullptr};
      Groups::instance().evalArguments(1, argv);
   });
   vs_assert(rc != 2, "only std::exception");
   vs_assert((rc == 1) == (mode != 2), "the same key in two member handlers is refused (at definition or at evaluation)");
}
// C08: every combination of key forms in two member handlers: refused iff they share a short or a long key
HX void hx_pa_group_keys(uint64_t first, uint64_t second, uint64_t gmode) {
   static const char* const FIRST[] = {"q", "quiet", "q,quiet"};
   static const char* const SECOND[] = {"q", "quiet", "q,quiet", "x,quiet", "q,other", "x", "other", "x,other", "quiet,x", "other,q"};
   static const bool CLASH[3][10] = { {true, false, true, false, true, false, false, false, false, true},
                                      {false, true, true, true, false, false, false, false, true, false},
                                      {true, true, true, true, true, false, false, false, true, true} };
   int x = 0, y = 0, z = 0;
   int rc = guarded([&] {
      // gmode: flags the group object passes on to its member handlers (1: 'list argument groups', 2: + usage arguments);
      // bit 2: a third handler is created between the two and gets an argument of its own
      if (gmode & 3) Groups::instance(*sink(), *sink(), (gmode & 3) == 1 ? Handler::hfListArgGroups : (Handler::hfListArgGroups | Handler::hfHelpShort | Handler::hfUsageCont));
      auto h1 = Groups::instance().getArgHandler("first", 0);
      if (gmode & 4) { auto h3 = Groups::instance().getArgHandler("between", 0); h3->addArgument("z,zeta", DEST_VAR(z), "z"); }
      auto h2 = Groups::instance().getArgHandler("second", 0);
      h1->addArgument(FIRST[first], DEST_VAR(x), "x");
      h2->addArgument(SECOND[second], DEST_VAR(y), "y");
      char a0[] = "prog"; char* argv[] = {a0, nullptr};
      Groups::instance().evalArguments(1, argv);
   });
   vs_assert(rc != 2, "only std::exception");
   vs_assert((rc == 1) == CLASH[first][second], "a key (short or long) defined in one member handler is refused in another member handler, other keys are accepted");
}
// C04: program-argument file source: $HOME/.progargs/<prog>.pa cannot be opened (argv[0] of symbolic length)
HX void hx_pa_progfile(uint64_t, uint64_t) {
   Dest d;
   Handler ah(Handler::hfReadProgArg);
   setup(ah, d, 0, 0);
   unsigned len = vs_u8("len") % 6;
   char* a0 = new char[len + 1];
   for (unsigned i = 0; i < len; ++i) { unsigned char c = vs_u8("val"); vs_assume(c != 0); a0[i] = (char) c; }
   a0[len] = 0;
   char a1[] = "-f"; char* argv[] = {a0, a1, nullptr};
   int rc = guarded([&] { ah.evalArguments(2, argv); });
   vs_assert(rc != 2, "only std::exception");
   delete[] a0;
}

// C05: every way of writing a short+long key pair in the specification designates the same two keys
HX void hx_pa_keyspec(uint64_t form, uint64_t) {
   static const char* const FORMS[] = {"n,number", "-n,--number", "--number,-n", "number,n", "n,-number", "-n,-number", "-number,n", "-number,-n", "n,--number", "--number,n", "-n,number", "number,-n"};
   Handler ah(0); int x = 0, y = 0;
   int rc0 = guarded([&] { ah.addArgument(FORMS[form], DEST_VAR(x), "first"); ah.addArgument("f,flag", DEST_VAR(y), "second"); });
   vs_assert(rc0 == 0, "a short+long key pair can be specified in either order, with or without leading dashes");
   if (rc0 != 0) return;
   unsigned char d0 = vs_u8("val"), d1 = vs_u8("val"); vs_assume(d0 >= '1' && d0 <= '9' && d1 >= '0' && d1 <= '9');
   char val[3] = {(char) d0, (char) d1, 0};
   int want = (d0 - '0') * 10 + (d1 - '0');
   unsigned which = vs_choose(6);
   char a0[] = "prog"; char k_n[] = "-n", k_number[] = "--number", k_umber[] = "--umber", k_u[] = "-u";
   if (which == 0) { char* argv[] = {a0, k_n, val, nullptr}; int rc = guarded([&] { ah.evalArguments(3, argv); }); vs_assert(rc == 0 && x == want, "the short key of the pair selects the argument"); }
   else if (which == 1) { char* argv[] = {a0, k_number, val, nullptr}; int rc = guarded([&] { ah.evalArguments(3, argv); }); vs_assert(rc == 0 && x == want, "the long key of the pair selects the argument"); }
   else if (which == 2) { char* argv[] = {a0, k_umber, val, nullptr}; int rc = guarded([&] { ah.evalArguments(3, argv); }); vs_assert(rc == 1 && x == 0, "a key that was never defined is unknown"); }
   else if (which == 3) { char* argv[] = {a0, k_u, val, nullptr}; int rc = guarded([&] { ah.evalArguments(3, argv); }); vs_assert(rc == 1 && x == 0, "a key that was never defined is unknown"); }
   else if (which == 4) { int z = 0; int rc = guarded([&] { ah.addArgument("x,number", DEST_VAR(z), "third"); }); vs_assert(rc == 1, "a long key that is taken is refused"); }
   else { int z = 0; int rc = guarded([&] { ah.addArgument("n,other", DEST_VAR(z), "third"); }); vs_assert(rc == 1, "a short key that is taken is refused"); }
}
// C05/C01: arguments that open a sub-group (their destination is another handler).  line: 0 "--output -f V", 1 "--outp -f V",
// 2 "-o -f V", 3 "-of V", 4 "--output --file V", 5 "--output --fi V", 6 "-i -f V"
HX void hx_pa_subgroup(uint64_t noabbr, uint64_t line) {
   Handler master((noabbr & 1) ? Handler::hfNoAbbr : 0), sub_out((noabbr & 1) ? Handler::hfNoAbbr : 0), sub_in((noabbr & 1) ? Handler::hfNoAbbr : 0);
   int out_file = 0, in_file = 0, out_cache = 0; bool q = false;
   sub_out.addArgument("f,file", DEST_VAR(out_file), "output file"); sub_out.addArgument("c,cache", DEST_VAR(out_cache), "output cache");
   sub_in.addArgument("f,file", DEST_VAR(in_file), "input file");
   const bool mandatory = (noabbr & 2) != 0; noabbr &= 1;          // bit 1: the sub-group argument -o,--output is mandatory
   auto* so = master.addArgument("o,output", sub_out, "output arguments"); master.addArgument("i,input", sub_in, "input arguments"); master.addArgument("q,quiet", DEST_VAR(q), "quiet");
   if (mandatory) so->setIsMandatory();
   if (line == 7) {            // only "-q": a mandatory sub-group argument that is not used must be reported
      std::vector<std::string> w1; w1.push_back("-q"); Argv av1(w1);
      int rc1 = guarded([&] { master.evalArguments(av1.argc(), av1.argv()); });
      vs_assert(rc1 != 2 && (rc1 == 1) == mandatory, "a missing mandatory argument is reported - also when it is an argument that opens a sub-group");
      return;
   }
   unsigned char d0 = vs_u8("val"), d1 = vs_u8("val"); vs_assume(d0 >= '1' && d0 <= '9' && d1 >= '0' && d1 <= '9');
   char val[3] = {(char) d0, (char) d1, 0}; int want = (d0 - '0') * 10 + (d1 - '0');
   static const char* const L[][3] = {{"--output", "-f", nullptr}, {"--outp", "-f", nullptr}, {"-o", "-f", nullptr}, {"-of", nullptr, nullptr}, {"--output", "--file", nullptr}, {"--output", "--fi", nullptr}, {"-i", "-f", nullptr}};
   std::vector<std::string> words; for (int i = 0; i < 3 && L[line][i]; ++i) words.push_back(L[line][i]);
   words.push_back(val); words.push_back("-q");
   Argv av(words);
   int rc = guarded([&] { master.evalArguments(av.argc(), av.argv()); });
   vs_assert(rc != 2, "only std::exception");
   const bool abbreviated = line == 1 || line == 5;
   if (abbreviated && noabbr) { vs_assert(rc == 1, "a proper prefix of a long key is rejected when abbreviations are disabled (sub-group arguments included)"); return; }
   vs_assert(rc == 0, "rule-obeying command line is accepted");
   if (rc != 0) return;
   if (line == 6) vs_assert(in_file == want && out_file == 0, "the value reaches the argument of the sub-group that was opened");
   else vs_assert(out_file == want && in_file == 0, "the value reaches the argument of the sub-group that was opened");
   vs_assert(q && out_cache == 0, "other arguments are evaluated as usual / unused ones keep their value");
}
// C07: program-argument file AND environment variable enabled: both sources are evaluated, then argv.  Words before "\x02" go
// into the environment variable, words between "\x02" and "\x03" into the file (if the file exists), the rest on argv.
// mode bit 0: the file does not exist
HX void hx_pa_file_env(uint64_t cfg, uint64_t mode) {
   Tmpl t; parse(t);
   Dest d;
   Handler ah(Handler::hfReadProgArg | Handler::hfEnvVarArgs);
   setup(ah, d, (int) cfg, 0);
   std::string env, content; std::vector<std::string> cmd; int where = 0;
   for (auto& w : t.words) {
      if (w == "\x02") { where = 1; continue; }
      if (w == "\x03") { where = 2; continue; }
      if (where == 0) { if (!env.empty()) env += ' '; env += w; }
      else if (where == 1) { if (!content.empty()) content += ' '; content += w; }
      else cmd.push_back(w);
   }
   content += '\n';
   vs_setenv("HOME", "/tmp/vs_home"); vs_setenv("PROG", env.c_str());
   if (!(mode & 1)) vs_file("/tmp/vs_home/.progargs/prog.pa", content.data(), content.size());
   Argv av(cmd);
   int rc = guarded([&] { ah.evalArguments(av.argc(), av.argv()); });
   judge(t, rc, d);
}
// C07/C03: an argument file named on the command line (addArgumentFile): its lines are evaluated like command line words at that
// position, and a value from the file can be overridden by a later value on the command line.  Words before "\x02" are the file.
HX void hx_pa_argfile(uint64_t cfg, uint64_t mode) {
   Tmpl t; parse(t);
   Dest d;
   pa_opt = (unsigned) (mode >> 8);
   Handler ah(0);
   setup(ah, d, (int) cfg, 0);
   ah.addArgumentFile("arg-file");
   std::string content; std::vector<std::string> cmd; bool in_file = true, line_open = false;
   cmd.push_back("--arg-file"); cmd.push_back("/tmp/vs_home/args.txt");
   for (auto& w : t.words) {
      if (w == "\x02") { in_file = false; continue; }
      if (!in_file) { cmd.push_back(w); continue; }
      if (w == "\x03") { content += '\n'; line_open = false; continue; }
      if (line_open) content += ' ';
      content += w; line_open = true;
   }
   if (line_open) content += '\n';
   if (mode & 1) { std::vector<std::string> c2(cmd.begin() + 2, cmd.end()); c2.push_back("--arg-file"); c2.push_back("/tmp/vs_home/args.txt"); cmd = c2; }     // the file is named last
   vs_file("/tmp/vs_home/args.txt", content.data(), content.size());
   if (mode & 2) { static const char other[] = "-g\n--arg-file /tmp/vs_home/args.txt\n"; vs_file("/tmp/vs_home/args2.txt", other, sizeof other - 1); }   // a second file that names the first one
   Argv av(cmd);
   int rc = guarded([&] { ah.evalArguments(av.argc(), av.argv()); });
   judge(t, rc, d);
}

// C04/C18: help for a single argument (--help-arg / --help-arg-full) with an arbitrary key text, known and unknown keys
HX void hx_pa_help(uint64_t full, uint64_t) {
   Tmpl t; parse(t);
   Dest d;
   Handler ah(*sink(), *sink(), Handler::hfHelpArg | Handler::hfHelpArgFull | Handler::hfUsageCont);
   setup(ah, d, 0, 0);
   Argv av(t.words);
   int rc = guarded([&] { ah.evalArguments(av.argc(), av.argv()); });
   judge(t, rc, d);
}

// C05: a key designates at most one argument of a handler - also when one of the two arguments opens a sub-group.
// mode: 0 second sub-group "o,other", 1 second sub-group "x,output", 2 plain "o" after the sub-group "o,output", 3 plain "output",
// 4 plain "x,output", 5 sub-group "q,quiet" after the plain "q", 6 sub-group "quiet" after plain "q,quiet", 7/8 distinct keys (accepted)
HX void hx_pa_subgroup_dup(uint64_t mode, uint64_t) {
   Handler master(0), s1(0), s2(0); int a = 0, b = 0, x = 0;
   s1.addArgument("f,file", DEST_VAR(a), "file"); s2.addArgument("f,file", DEST_VAR(b), "file");
   int rc = guarded([&] {
      if (mode == 5) master.addArgument("q", DEST_VAR(x), "plain");
      if (mode == 6) master.addArgument("q,quiet", DEST_VAR(x), "plain");
      master.addArgument("o,output", s1, "output arguments");
      switch (mode) {
      case 0: master.addArgument("o,other", s2, "second sub-group"); break;
      case 1: master.addArgument("x,output", s2, "second sub-group"); break;
      case 2: master.addArgument("o", DEST_VAR(x), "plain"); break;
      case 3: master.addArgument("output", DEST_VAR(x), "plain"); break;
      case 4: master.addArgument("x,output", DEST_VAR(x), "plain"); break;
      case 5: master.addArgument("q,quiet", s2, "second sub-group"); break;
      case 6: master.addArgument("quiet", s2, "second sub-group"); break;
      case 7: master.addArgument("i,input", s2, "second sub-group"); break;
      default: master.addArgument("x,extra", DEST_VAR(x), "plain"); break;
      }
   });
   vs_assert(rc != 2, "only std::exception");
   vs_assert((rc == 1) == (mode <= 6), "a key that is taken by another argument of the handler (plain or sub-group) is refused, other keys are accepted");
}

// C08: a key that opens a sub-group in one member handler cannot be defined again in another member handler (and the other way round)
// mode: 0 "i" / 1 "o,output" / 2 "output" as normal argument in the second handler; 3: sub-group key "q" after the normal "q,quiet" of the
// first handler; 4: distinct keys (accepted); bit 3 (8): the second handler owns a sub-group argument of its own
HX void hx_pa_group_subkey(uint64_t mode, uint64_t) {
   int x = 0, y = 0, z = 0, w = 0; bool q = false;
   Handler sub_in(0), sub_out(0), sub_extra(0);
   sub_in.addArgument("f,file", DEST_VAR(x), "file"); sub_out.addArgument("f,file", DEST_VAR(y), "file"); sub_extra.addArgument("f,file", DEST_VAR(w), "file");
   int rc = guarded([&] {
      auto h1 = Groups::instance().getArgHandler("first", 0);
      auto h2 = Groups::instance().getArgHandler("second", 0);
      h1->addArgument("i", sub_in, "input arguments"); h1->addArgument("o,output", sub_out, "output arguments"); h1->addArgument("q,quiet", DEST_VAR(q), "quiet");
      if (mode & 8) h2->addArgument("e,extra", sub_extra, "extra arguments");
      if ((mode & 7) == 5) {      // a mandatory sub-group argument of a member handler that is not used must be reported by the group
         h2->addArgument("m,mand", sub_extra, "mandatory sub-group")->setIsMandatory();
         char b0[] = "prog", b1[] = "-q"; char* bargv[] = {b0, b1, nullptr};
         Groups::instance().evalArguments(2, bargv);
         return;
      }
      switch (mode & 7) {
      case 0: h2->addArgument("i", DEST_VAR(z), "z"); break;
      case 1: h2->addArgument("o,output", DEST_VAR(z), "z"); break;
      case 2: h2->addArgument("output", DEST_VAR(z), "z"); break;
      case 3: h2->addArgument("q", sub_extra, "sub-group with the key of a normal argument of the other handler"); break;
      default: h2->addArgument("z,zeta", DEST_VAR(z), "z"); break;
      }
      char a0[] = "prog"; char* argv[] = {a0, nullptr};
      Groups::instance().evalArguments(1, argv);
   });
   vs_assert(rc != 2, "only std::exception");
   if ((mode & 7) == 5) { vs_assert(rc == 1, "a missing mandatory sub-group argument of a member handler is reported when evaluating through the group"); return; }
   vs_assert((rc == 1) == ((mode & 7) <= 3), "a key (normal or sub-group) defined in one member handler is refused in another member handler, other keys are accepted");
}

// C05/C03: long keys that contain dashes - also as their second character ("x-ray", "e-mail") - are ordinary long keys
HX void hx_pa_dashkey(uint64_t form, uint64_t) {
   static const char* const FORMS[] = {"x-ray", "--x-ray", "x,x-ray", "-x,--x-ray", "x-ray,x", "e-mail", "a-b-c", "in-file"};
   static const char* const LONG[] = {"--x-ray", "--x-ray", "--x-ray", "--x-ray", "--x-ray", "--e-mail", "--a-b-c", "--in-file"};
   static const char* const ABBR[] = {"--x-r", "--x-", "--x-ra", "--x-r", "--x-r", "--e-m", "--a-b", "--in-"};
   Handler ah(0); int x = 0; bool f = false;
   int rc0 = guarded([&] { ah.addArgument(FORMS[form], DEST_VAR(x), "value"); ah.addArgument("f,flag", DEST_VAR(f), "flag"); });
   vs_assert(rc0 == 0, "a long key may contain dashes, also as its second character");
   if (rc0 != 0) return;
   unsigned char d0 = vs_u8("val"), d1 = vs_u8("val"); vs_assume(d0 >= '1' && d0 <= '9' && d1 >= '0' && d1 <= '9');
   char val[3] = {(char) d0, (char) d1, 0}; const int want = (d0 - '0') * 10 + (d1 - '0');
   unsigned which = vs_choose(3);
   std::vector<std::string> words;
   if (which == 0) { words.push_back(LONG[form]); words.push_back(val); }
   else if (which == 1) { words.push_back(std::string(LONG[form]) + "=" + val); words.push_back("-f"); }
   else { words.push_back(ABBR[form]); words.push_back(val); }
   Argv av(words);
   int rc = guarded([&] { ah.evalArguments(av.argc(), av.argv()); });
   vs_assert(rc == 0 && x == want && f == (which == 1), "the long key (exact or abbreviated) selects the argument and the value reaches the destination");
}
