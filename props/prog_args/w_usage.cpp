// E2 harness for C18: the usage printed by the real Handler lists exactly the visible arguments, each once,
// under the right caption; single-argument help.  Argument properties are symbolic flags.
#include "vs.h"
#include "celma/prog_args.hpp"
#include <sstream>
#include <string>
#include <vector>
using namespace celma::prog_args;
namespace {
struct Spec { const char* spec; const char* shown_all; const char* shown_short; const char* shown_long; const char* desc; };
// key forms: short+long, short only, long only
const Spec SPECS[3] = { {"a,alpha", "-a,--alpha", "-a", "--alpha", "first-description"}, {"b", "-b", "-b", nullptr, "second-description"}, {"gamma", "--gamma", nullptr, "--gamma", "third-description"} };
size_t count(const std::string& hay, const std::string& needle) { size_t n = 0, p = 0; while ((p = hay.find(needle, p)) != std::string::npos) { ++n; p += needle.size(); } return n; }
// the key as it stands at the start of a usage line: "   <key>" followed by blanks or end of line
size_t count_key_lines(const std::string& out, const std::string& key) {
   size_t n = 0, start = 0;
   while (start <= out.size()) {
      size_t end = out.find('\n', start); if (end == std::string::npos) end = out.size();
      std::string line = out.substr(start, end - start);
      if (line.size() >= 3 + key.size() && line.compare(0, 3, "   ") == 0 && line.compare(3, key.size(), key) == 0 && (line.size() == 3 + key.size() || line[3 + key.size()] == ' ')) ++n;
      if (end == out.size()) break;
      start = end + 1;
   }
   return n;
}
}
// nargs arguments (1..3) with symbolic mandatory / hidden / deprecated flags; display: bit0 hidden requested, bit1 deprecated requested, bits 2-3: 0 all, 1 short only, 2 long only
HX void hx_usage(uint64_t nargs, uint64_t display) {
   std::ostringstream os, es;
   int hf = Handler::hfHelpShort | Handler::hfUsageCont;
   if (display & 1) hf |= Handler::hfUsageHidden;
   if (display & 2) hf |= Handler::hfUsageDeprecated;
   int contents = (int) ((display >> 2) & 3);
   if (contents == 1) hf |= Handler::hfUsageShort;
   if (contents == 2) hf |= Handler::hfUsageLong;
   Handler ah(os, es, hf);
   int dst[3] = {0, 0, 0}; bool mand[3], hid[3], depr[3];
   for (uint64_t i = 0; i < nargs; ++i) {
      unsigned char fl = vs_u8("flags"); vs_assume(fl < 8);
      mand[i] = fl & 1; hid[i] = fl & 2; depr[i] = fl & 4;
      vs_assume(!(mand[i] && depr[i]));                  // documented: a deprecated argument cannot be mandatory
      auto* a = ah.addArgument(SPECS[i].spec, DEST_VAR(dst[i]), SPECS[i].desc);
      if (mand[i]) a->setIsMandatory();
      if (hid[i]) a->setIsHidden();
      if (depr[i]) a->setIsDeprecated();
   }
   // display bit 4: the usage was already printed once (with all keys) before - the second output must not depend on it
   if (display & 16) { std::ostringstream first; first << ah; vs_assert(count(first.str(), "Usage:") >= 1 || true, "first print"); }
   display &= 15;
   // short-only / long-only display is selected by the arguments that hfUsageShort / hfUsageLong add
   char a0[] = "prog", a1[] = "-h", as[] = "--help-short", al[] = "--help-long";
   char* argv[] = {a0, contents == 1 ? as : contents == 2 ? al : a1, a1, nullptr};
   int rc = 0;
   try { ah.evalArguments(contents ? 3 : 2, argv); } catch (const std::exception&) { rc = 1; } catch (...) { rc = 2; }
   const std::string out = os.str();
   vs_assert(rc != 2, "only std::exception");
   size_t pos_mand = out.find("Mandatory arguments:"), pos_opt = out.find("Optional arguments:");
   bool any_mand = false;
   for (uint64_t i = 0; i < nargs; ++i) {
      const char* shown = contents == 0 ? SPECS[i].shown_all : contents == 1 ? SPECS[i].shown_short : SPECS[i].shown_long;
      bool visible = shown != nullptr && ((display & 1) || !hid[i]) && ((display & 2) || !depr[i]);
      // every spelling of the key that may appear in this display mode
      size_t lines = 0;
      for (const char* k : {SPECS[i].shown_all, SPECS[i].shown_short, SPECS[i].shown_long}) if (k != nullptr && (k == shown || std::string(k) != (shown ? shown : ""))) lines += count_key_lines(out, k);
      if (visible) {
         vs_assert(count_key_lines(out, shown) == 1, "a visible argument is listed exactly once, with its key(s)");
         vs_assert(count(out, SPECS[i].desc) == 1, "a visible argument is listed with its description, once");
         size_t kp = out.find(std::string("   ") + shown);
         if (mand[i]) { any_mand = true; vs_assert(pos_mand != std::string::npos && kp > pos_mand && (pos_opt == std::string::npos || kp < pos_opt), "a mandatory argument is listed under the mandatory caption"); }
         else vs_assert(pos_opt != std::string::npos && kp > pos_opt, "an optional argument is listed under the optional caption");
         if (depr[i]) vs_assert(count(out, "[deprecated]") >= 1, "a displayed deprecated argument is marked");
         if (hid[i]) vs_assert(count(out, "[hidden]") >= 1, "a displayed hidden argument is marked");
      } else {
         vs_assert(count(out, SPECS[i].desc) == 0, "a hidden / deprecated / filtered argument is not listed");
      }
   }
   if (!any_mand) vs_assert(pos_mand == std::string::npos, "no mandatory caption without a visible mandatory argument");
   vs_note("rc", rc);
}
// two-line layout: a key of 40 or more characters switches the usage to "key on its own line"; the same visibility rules apply
HX void hx_usage_long(uint64_t display, uint64_t) {
   std::ostringstream os, es;
   int hf = Handler::hfHelpShort | Handler::hfUsageCont;
   if (display & 1) hf |= Handler::hfUsageHidden;
   if (display & 2) hf |= Handler::hfUsageDeprecated;
   Handler ah(os, es, hf);
   static const char* const LONGKEY = "an-argument-with-a-very-long-name-for-the-two-line-layout";
   int dst[2] = {0, 0};
   unsigned char fl = vs_u8("flags"); vs_assume(fl < 8); vs_assume(!((fl & 1) && (fl & 4)));
   unsigned char fl2 = vs_u8("flags"); vs_assume(fl2 < 2);
   auto* a = ah.addArgument(LONGKEY, DEST_VAR(dst[0]), "long-key-description");
   if (fl & 1) a->setIsMandatory(); if (fl & 2) a->setIsHidden(); if (fl & 4) a->setIsDeprecated();
   auto* b = ah.addArgument("b,beta", DEST_VAR(dst[1]), "second-description");
   if (fl2 & 1) b->setIsMandatory();
   char a0[] = "prog", a1[] = "-h"; char* argv[] = {a0, a1, nullptr};
   int rc = 0;
   try { ah.evalArguments(2, argv); } catch (const std::exception&) { rc = 1; } catch (...) { rc = 2; }
   const std::string out = os.str();
   vs_assert(rc != 2, "only std::exception");
   bool vis = ((display & 1) || !(fl & 2)) && ((display & 2) || !(fl & 4));
   vs_assert(count(out, "long-key-description") == (vis ? 1u : 0u), "two-line layout: a visible argument is listed exactly once, an invisible one not at all");
   vs_assert(count(out, std::string("--") + LONGKEY) == (vis ? 1u : 0u), "two-line layout: the key of a visible argument is printed exactly once");
   vs_assert(count(out, "second-description") == 1, "two-line layout: the other arguments are still listed exactly once");
   vs_assert(count(out, "Prints the program usage") == 1, "two-line layout: the standard help argument is listed exactly once");
   size_t pos_mand = out.find("Mandatory arguments:"), pos_opt = out.find("Optional arguments:"), kb = out.find("second-description");
   if (fl2 & 1) vs_assert(pos_mand != std::string::npos && kb > pos_mand && (pos_opt == std::string::npos || kb < pos_opt), "two-line layout: mandatory argument under the mandatory caption");
   else vs_assert(pos_opt != std::string::npos && kb > pos_opt, "two-line layout: optional argument under the optional caption");
}
// help for a single argument: prints that argument's description, or reports it as unknown
HX void hx_help_arg(uint64_t which, uint64_t) {
   std::ostringstream os, es;
   Handler ah(os, es, Handler::hfHelpArg | Handler::hfUsageCont);
   int dst[3] = {0, 0, 0};
   for (int i = 0; i < 3; ++i) ah.addArgument(SPECS[i].spec, DEST_VAR(dst[i]), SPECS[i].desc);
   static const char* const KEYS[] = {"a", "alpha", "b", "gamma", "x", "delta", "-a", "--gamma"};
   static const int OWNER[] = {0, 0, 1, 2, -1, -1, 0, 2};
   std::string key = KEYS[which];
   char a0[] = "prog", a1[] = "--help-arg"; char* kbuf = new char[key.size() + 1]; std::strcpy(kbuf, key.c_str());
   char* argv[] = {a0, a1, kbuf, nullptr};
   int rc = 0;
   try { ah.evalArguments(3, argv); } catch (const std::exception&) { rc = 1; } catch (...) { rc = 2; }
   delete[] kbuf;
   vs_assert(rc == 0, "asking for the help of an argument does not fail");
   for (int i = 0; i < 3; ++i)
      vs_assert(count(os.str(), SPECS[i].desc) == (OWNER[which] == i ? 1u : 0u), "help for one argument prints exactly that argument's description");
   vs_assert((count(es.str(), "unknown") >= 1) == (OWNER[which] < 0), "an unknown key is reported as unknown");
}

namespace {
std::string collapse(const std::string& s) {
   std::string r; bool sp = false;
   for (char c : s) { if (c == ' ' || c == '\n' || c == '\t') { sp = !r.empty(); continue; } if (sp) r += ' '; sp = false; r += c; }
   return r;
}
}
// descriptions that have to be wrapped: every word of the description is printed, in order, whatever the line length
// (symbolic, 8 consecutive values from `base`), also when a word is wider than the description column
HX void hx_usage_wrap(uint64_t base, uint64_t variant) {
   std::ostringstream os, es;
   Handler ah(os, es, Handler::hfHelpShort | Handler::hfUsageCont);
   unsigned len = vs_u8("linelen"); vs_assume(len < 8);
   ah.setUsageLineLength((int) (base + len));
   static const char* const KEY1[] = {"c,configuration-directory-override", "c,conf"};
   static const char* const SHOWN1[] = {"-c,--configuration-directory-override", "-c,--conf"};
   static const char* const D1[] = {"/etc/application/conf.d holds the configuration files that are read at start",
                                    "a-first-word-that-is-much-too-long-for-any-description-column-of-this-usage-because-it-is-long and then some short words"};
   static const char* const D2 = "several short words that have to be wrapped over more than one line because the text is long enough for that";
   int dst[2] = {0, 0};
   ah.addArgument(KEY1[variant & 1], DEST_VAR(dst[0]), D1[(variant >> 1) & 1]);
   ah.addArgument("b", DEST_VAR(dst[1]), D2);
   char a0[] = "prog", a1[] = "-h"; char* argv[] = {a0, a1, nullptr};
   int rc = 0;
   try { ah.evalArguments(2, argv); } catch (const std::exception&) { rc = 1; } catch (...) { rc = 2; }
   vs_assert(rc == 0, "printing the usage does not fail");
   const std::string out = collapse(os.str());
   vs_assert(count(out, collapse(std::string(SHOWN1[variant & 1]) + " " + D1[(variant >> 1) & 1])) == 1, "a wrapped description is printed completely: every word, in order, after the keys of its argument");
   vs_assert(count(out, collapse(std::string("-b ") + D2)) == 1, "a wrapped description is printed completely: every word, in order, after the keys of its argument");
}
// help for a single argument when some arguments start a sub-group
HX void hx_help_arg_group(uint64_t which, uint64_t) {
   std::ostringstream os, es;
   Handler ah(os, es, Handler::hfHelpArg | Handler::hfUsageCont);
   Handler in_group(Handler::hfHelpShort), out_group(0);
   int dst[4] = {0, 0, 0, 0};
   ah.addArgument("q,quiet", DEST_VAR(dst[0]), "quiet-description");
   in_group.addArgument("f,file", DEST_VAR(dst[1]), "input-file-description");
   out_group.addArgument("f,file", DEST_VAR(dst[2]), "output-file-description");
   ah.addArgument("i,input", in_group, "input-group-description");
   ah.addArgument("o", out_group, "output-group-description");
   static const char* const KEYS[] = {"q", "i", "input", "o", "x", "file"};
   static const char* const WANT[] = {"quiet-description", "input-group-description", "input-group-description", "output-group-description", nullptr, nullptr};
   std::string key = KEYS[which];
   char a0[] = "prog", a1[] = "--help-arg"; char* kbuf = new char[key.size() + 1]; std::strcpy(kbuf, key.c_str());
   char* argv[] = {a0, a1, kbuf, nullptr};
   int rc = 0;
   try { ah.evalArguments(3, argv); } catch (const std::exception&) { rc = 1; } catch (...) { rc = 2; }
   delete[] kbuf;
   vs_assert(rc == 0, "asking for the help of an argument does not fail");
   for (const char* d : {"quiet-description", "input-group-description", "output-group-description"})
      vs_assert(count(os.str(), d) == ((WANT[which] && std::string(WANT[which]) == d) ? 1u : 0u), "help for one argument prints exactly that argument's description (sub-group arguments included)");
   vs_assert((count(es.str(), "unknown") >= 1) == (WANT[which] == nullptr), "an unknown key is reported as unknown");
}

// "plus default value, checks and constraints where configured": the usage shows the check / constraint / default value lines of
// exactly the arguments that have them.  Properties of -a are symbolic bits, those of -b are selected by `bflags`.
HX void hx_usage_extras(uint64_t bflags, uint64_t) {
   std::ostringstream os, es;
   Handler ah(os, es, Handler::hfHelpShort | Handler::hfUsageCont);
   int a = 5, b = 7, c = 0;
   unsigned char fl = vs_u8("flags"); vs_assume(fl < 32);
   bool a_check = fl & 1, a_constr = fl & 2, a_default = fl & 4, a_unit = fl & 8, a_mand = fl & 16;
   vs_assume(a_default || !a_unit);                     // documented: a unit can only be set when the default value is printed
   auto* pa = ah.addArgument("a,alpha", DEST_VAR(a), "first-description");
   if (a_check) pa->addCheck(lower(10));
   if (a_constr) pa->addConstraint(requiresArg("b"));
   pa->setPrintDefault(a_default);
   if (a_unit) pa->setValueUnit("sec");
   if (a_mand) pa->setIsMandatory();
   auto* pb = ah.addArgument("b", DEST_VAR(b), "second-description");
   if (bflags & 1) pb->addCheck(upper(100));
   if (bflags & 2) pb->addConstraint(excludes("gamma"));
   if (bflags & 4) pb->setPrintDefault(false);
   ah.addArgument("gamma", DEST_VAR(c), "third-description")->addCheck(range(1, 5))->addCheck(upper(4));
   char a0[] = "prog", a1[] = "-h"; char* argv[] = {a0, a1, nullptr};
   int rc = 0;
   try { ah.evalArguments(2, argv); } catch (const std::exception&) { rc = 1; } catch (...) { rc = 2; }
   vs_assert(rc == 0, "printing the usage does not fail");
   const std::string out = os.str();
   vs_assert(count(out, "first-description") == 1 && count(out, "second-description") == 1 && count(out, "third-description") == 1, "every visible argument is listed exactly once");
   vs_assert(count(out, "Check: Value >= 10") == (a_check ? 1u : 0u), "the check of an argument is shown exactly when it has one");
   vs_assert(count(out, "Constraint: Requires b") == (a_constr ? 1u : 0u), "the constraint of an argument is shown exactly when it has one (with or without a check)");
   vs_assert(count(out, "Default value: 5") == ((a_default && !a_mand) ? 1u : 0u), "the default value is shown exactly for optional arguments that have it configured");
   vs_assert(count(out, "[sec]") == ((a_default && !a_mand && a_unit) ? 1u : 0u), "the value unit accompanies the default value");
   vs_assert(count(out, "Check: Value < 100") == ((bflags & 1) ? 1u : 0u), "the check of an argument is shown exactly when it has one");
   vs_assert(count(out, "Constraint: excludes (gamma)") == ((bflags & 2) ? 1u : 0u), "the constraint of an argument is shown exactly when it has one (with or without a check)");
   vs_assert(count(out, "Default value: 7") == ((bflags & 4) ? 0u : 1u), "the default value is shown exactly for optional arguments that have it configured");
   vs_assert(count(out, "Check: 1 <= value < 5, Value < 4") == 1, "all checks of an argument are shown");
   // the extra lines stand in the block of their own argument: between its description and the next argument's key
   size_t p1 = out.find("first-description"), p2 = out.find("second-description"), p3 = out.find("third-description");
   size_t q;
   if (a_check) { q = out.find("Check: Value >= 10"); vs_assert(a_mand ? (q > p1) : (q > p1 && q < p2), "extra lines stand in the block of their own argument"); }
   if (a_constr) { q = out.find("Constraint: Requires b"); vs_assert(a_mand ? (q > p1) : (q > p1 && q < p2), "extra lines stand in the block of their own argument"); }
   if (bflags & 2) { q = out.find("Constraint: excludes (gamma)"); vs_assert(q > p2 && q < p3, "extra lines stand in the block of their own argument"); }
}
// help for a single argument whose long key is a prefix of / has as prefix the long key of another argument, both definition orders
HX void hx_help_arg_prefix(uint64_t which, uint64_t order) {
   std::ostringstream os, es;
   Handler ah(os, es, Handler::hfHelpArg | Handler::hfUsageCont);
   int dst[3] = {0, 0, 0};
   if (order == 0) { ah.addArgument("I,include-path", DEST_VAR(dst[0]), "path-description"); ah.addArgument("include", DEST_VAR(dst[1]), "include-description"); ah.addArgument("i", DEST_VAR(dst[2]), "letter-description"); }
   else { ah.addArgument("i", DEST_VAR(dst[2]), "letter-description"); ah.addArgument("include", DEST_VAR(dst[1]), "include-description"); ah.addArgument("I,include-path", DEST_VAR(dst[0]), "path-description"); }
   static const char* const KEYS[] = {"include", "include-path", "I", "i", "x", "includes"};
   static const char* const WANT[] = {"include-description", "path-description", "path-description", "letter-description", nullptr, nullptr};
   std::string key = KEYS[which];
   char a0[] = "prog", a1[] = "--help-arg"; char* kbuf = new char[key.size() + 1]; std::strcpy(kbuf, key.c_str());
   char* argv[] = {a0, a1, kbuf, nullptr};
   int rc = 0;
   try { ah.evalArguments(3, argv); } catch (const std::exception&) { rc = 1; } catch (...) { rc = 2; }
   delete[] kbuf;
   vs_assert(rc == 0, "asking for the help of an argument does not fail");
   for (const char* d : {"path-description", "include-description", "letter-description"})
      vs_assert(count(os.str(), d) == ((WANT[which] && std::string(WANT[which]) == d) ? 1u : 0u), "help for one argument prints exactly that argument's description, also when its key is a prefix of another key");
   vs_assert((count(es.str(), "unknown") >= 1) == (WANT[which] == nullptr), "an unknown key is reported as unknown");
}

// arguments with an empty description are listed like any other argument (key, caption)
HX void hx_usage_nodesc(uint64_t, uint64_t) {
   std::ostringstream os, es;
   Handler ah(os, es, Handler::hfHelpShort | Handler::hfUsageCont);
   int a = 0, b = 0, c = 0;
   unsigned char fl = vs_u8("flags"); vs_assume(fl < 4);
   auto* pa = ah.addArgument("a,alpha", DEST_VAR(a), "");
   if (fl & 1) pa->setIsMandatory();
   if (fl & 2) pa->addCheck(lower(10));
   ah.addArgument("b", DEST_VAR(b), "second-description");
   ah.addArgument("gamma", DEST_VAR(c), "");
   char a0[] = "prog", a1[] = "-h"; char* argv[] = {a0, a1, nullptr};
   int rc = 0;
   try { ah.evalArguments(2, argv); } catch (const std::exception&) { rc = 1; } catch (...) { rc = 2; }
   vs_assert(rc == 0, "printing the usage does not fail");
   const std::string out = os.str();
   vs_assert(count_key_lines(out, "-a,--alpha") == 1 && count_key_lines(out, "--gamma") == 1 && count_key_lines(out, "-b") == 1, "every visible argument is listed exactly once, also when its description is empty");
   size_t pos_mand = out.find("Mandatory arguments:"), pos_opt = out.find("Optional arguments:"), ka = out.find("   -a,--alpha");
   if (fl & 1) vs_assert(pos_mand != std::string::npos && ka > pos_mand && ka < pos_opt, "a mandatory argument is listed under the mandatory caption");
   else vs_assert(pos_mand == std::string::npos && pos_opt != std::string::npos && ka > pos_opt, "an optional argument is listed under the optional caption");
   vs_assert(count(out, "Check: Value >= 10") == ((fl & 2) ? 1u : 0u), "the check of an argument is shown exactly when it has one");
}

// layout of the usage when it is printed a second time after the set of visible arguments grew (a hidden argument with a long
// key becomes visible through --print-hidden): no line is longer than the configured length and all description lines of the
// second output start in the same column
HX void hx_usage_layout2(uint64_t base, uint64_t) {
   std::ostringstream os, es;
   Handler ah(os, es, Handler::hfHelpShort | Handler::hfUsageCont | Handler::hfArgHidden);
   unsigned len = vs_u8("linelen"); vs_assume(len < 6);
   const size_t line_len = (size_t) base + len;
   ah.setUsageLineLength((int) line_len);
   int idx = 0; std::string name; bool exp = false;
   ah.addArgument("i,index", DEST_VAR(idx), "The index of the entry to handle, which is a rather long description that must be wrapped onto the next line of the usage.")->setPrintDefault(false);
   ah.addArgument("n,name", DEST_VAR(name), "The name of the entry.")->setPrintDefault(false);
   ah.addArgument("enable-experimental-feature", DEST_VAR(exp), "Enables the experimental feature, which is not yet official and whose description must be wrapped onto the next line as well.")->setIsHidden();
   { std::ostringstream first; first << ah; }
   char a0[] = "prog", a1[] = "--print-hidden", a2[] = "-h"; char* argv[] = {a0, a1, a2, nullptr};
   int rc = 0;
   try { ah.evalArguments(3, argv); } catch (const std::exception&) { rc = 1; } catch (...) { rc = 2; }
   vs_assert(rc == 0, "printing the usage does not fail");
   const std::string out = os.str();
   vs_assert(count(out, "--enable-experimental-feature") == 1, "the hidden argument is listed once its display was requested");
   size_t start = 0, desc_col = std::string::npos; bool ok_len = true, ok_col = true;
   while (start < out.size()) {
      size_t end = out.find('\n', start); if (end == std::string::npos) end = out.size();
      const std::string line = out.substr(start, end - start);
      if (line.size() > line_len) ok_len = false;
      size_t col = std::string::npos;
      if (line.compare(0, 4, "    ") == 0) col = line.find_first_not_of(' ');                       // continuation line of a description
      else if (line.compare(0, 3, "   ") == 0) { size_t k = line.find(' ', 3); if (k != std::string::npos) col = line.find_first_not_of(' ', k); }   // key + description
      if (col != std::string::npos) { if (desc_col == std::string::npos) desc_col = col; else if (col != desc_col) ok_col = false; }
      start = end + 1;
   }
   vs_assert(ok_len, "no line of the usage is longer than the configured line length");
   vs_assert(ok_col, "all description lines of the usage start in the same column");
}

// the free-value (positional) argument is listed like any other argument; a deprecated argument that is displayed shows its
// default value like any other optional argument
HX void hx_usage_positional(uint64_t show_deprecated, uint64_t) {
   std::ostringstream os, es;
   Handler ah(os, es, Handler::hfHelpShort | Handler::hfUsageCont | (show_deprecated ? Handler::hfUsageDeprecated : 0));
   std::string file; int level = 3, old = 9;
   unsigned char fl = vs_u8("flags"); vs_assume(fl < 2);
   auto* pf = ah.addArgument("-", DEST_VAR(file), "free-description");
   if (fl & 1) pf->setIsMandatory();
   ah.addArgument("l,level", DEST_VAR(level), "level-description");
   ah.addArgument("o,old", DEST_VAR(old), "old-description")->setIsDeprecated();
   char a0[] = "prog", a1[] = "-h"; char* argv[] = {a0, a1, nullptr};
   int rc = 0;
   try { ah.evalArguments(2, argv); } catch (const std::exception&) { rc = 1; } catch (...) { rc = 2; }
   vs_assert(rc == 0, "printing the usage does not fail");
   const std::string out = os.str();
   vs_assert(count(out, "free-description") == 1 && count(out, "level-description") == 1, "every visible argument is listed exactly once - also the free-value argument");
   size_t pos_mand = out.find("Mandatory arguments:"), pos_opt = out.find("Optional arguments:"), kf = out.find("free-description");
   if (fl & 1) vs_assert(pos_mand != std::string::npos && kf > pos_mand && kf < pos_opt, "a mandatory argument is listed under the mandatory caption");
   else vs_assert(pos_mand == std::string::npos && kf > pos_opt, "an optional argument is listed under the optional caption");
   vs_assert(count(out, "old-description") == (show_deprecated ? 1u : 0u), "a deprecated argument is listed exactly when its display was requested");
   vs_assert(count(out, "Default value: 3") == 1, "the default value is shown for optional arguments that have it configured");
   vs_assert(count(out, "Default value: 9") == (show_deprecated ? 1u : 0u), "a displayed deprecated argument shows its default value like any other optional argument");
}
