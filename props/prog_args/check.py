#!/usr/bin/env python3-vt
"""C01-C08 (argument handler): E2 (irsym + z3) over the real Handler / Groups code.
The driver enumerates spellings, orders and rule-breaking mutations (shapes); all values are symbolic."""
import sys, os, itertools, glob
sys.path.insert(0, os.path.join(os.path.dirname(os.path.abspath(__file__)), '..', '..', 'engine'))
from e2 import *
HERE = os.path.dirname(os.path.abspath(__file__))


def lib_srcs():
    pats = ['src/library/prog_args/*.cpp', 'src/library/prog_args/detail/*.cpp', 'src/library/common/*.cpp', 'src/library/common/detail/*.cpp', 'src/library/format/*.cpp',
            'src/library/format/detail/*.cpp', 'src/library/appl/*.cpp', 'src/library/container/dynamic_bitset.cpp']
    out = []
    for p in pats:
        out += sorted(glob.glob(os.path.join(REPO, p)))
    return [os.path.relpath(f, REPO) for f in out if not f.endswith('print_version_info.cpp')]


def tmpl(expect, items, slots, words):
    return ('%s;%s\n%s\n' % (expect, ';'.join(items), ' '.join(slots)) + ''.join(w + '\n' for w in words)).encode('latin1') + b'\0'


S = lambda k: '\x01%d' % k          # slot reference inside a word

# ------------------------------------------------------------------------------------------
# cfg 0 argument uses: (dest, kind, short, long).  A "use" = list of argv words + expectation item.
CFG0 = dict(f=('flag', 'f', 'flag'), g=('flag', 'g', 'gflag'), n=('int', 'n', 'number'), s=('str', 's', 'name'), o=('int', 'o', 'opt'), v=('vec', 'v', 'values'))


def spellings(kind, short, long_, slot, abbr=True):
    """all legal spellings of one argument use -> list of word lists"""
    out = []
    longs = [long_]
    if abbr and len(long_) > 2:
        longs += [long_[:k] for k in range(2, len(long_))]
    if kind == 'flag':
        out.append(['-' + short])
        out += [['--' + l] for l in longs]
    else:
        out.append(['-' + short, S(slot)])
        out.append(['-' + short + S(slot)])          # glued to the short key
        for l in longs:
            out.append(['--' + l, S(slot)])
            out.append(['--' + l + '=' + S(slot)])
    return out


def c01_shapes(tier):
    """every legal spelling/order of small abstract assignments over cfg 0; values symbolic"""
    shapes = []
    assignments = [('f',), ('n',), ('s',), ('o',), ('v',), ('f', 'n'), ('n', 's'), ('g', 'f'), ('s', 'v'), ('o', 'f'), ('n', 'o')]
    if tier != 'quick':
        assignments += [('f', 'n', 's'), ('g', 'v', 'o'), ('n', 's', 'v'), ('f', 'g', 'n')]
    allk = ['f', 'g', 'n', 's', 'o', 'v']
    for asg in assignments:
        slots = []; per_arg = []
        for a in asg:
            kind, sh, lg = CFG0[a]
            if kind == 'flag':
                per_arg.append((a, [(w, '%s=1' % a) for w in spellings(kind, sh, lg, None)]))
            else:
                k = len(slots)
                slots.append({'int': 'd2' if tier == 'quick' else 'd3', 'str': 's2' if tier == 'quick' else 's3', 'vec': 'd2'}[kind])
                item = {'int': '%s=#%d' % (a, k), 'str': '%s=$%d' % (a, k), 'vec': '%s=#%d' % (a, k)}[kind]
                per_arg.append((a, [(w, item) for w in spellings(kind, sh, lg, k)]))
        unused = ['%s=%s' % (a, '0' if CFG0[a][0] == 'flag' else '-' if a == 'o' else '_') for a in allk if a not in asg]
        combos = list(itertools.product(*[sp for (_a, sp) in per_arg]))
        if tier == 'quick' and len(combos) > 14:
            rng = random.Random(SEED + len(shapes)); combos = rng.sample(combos, 14)
        for combo in combos:
            orders = list(itertools.permutations(range(len(combo))))
            if tier == 'quick':
                orders = orders[:2]
            for od in orders:
                words = []; items = []
                for i in od:
                    words += combo[i][0]; items.append(combo[i][1])
                label = 'c01/' + ' '.join(w.replace('\x01', '@') for w in words)
                shapes.append(('hx_pa', [0, 0], label, {'pa_tmpl': tmpl('ok', items + unused, slots, words)}))
        # grouped flags behind one dash
    for words, items in ((['-fg'], ['f=1', 'g=1']), (['-gf'], ['f=1', 'g=1']), (['-fg', '-n', S(0)], ['f=1', 'g=1', 'n=#0']), (['-gfn', S(0)], ['f=1', 'g=1', 'n=#0'])):
        shapes.append(('hx_pa', [0, 0], 'c01/' + ' '.join(w.replace('\x01', '@') for w in words), {'pa_tmpl': tmpl('ok', items + ['s=_', 'o=-', 'v=_'], ['d2'], words)}))
    # a value given as separate word, later in the line flags grouped behind one dash / a glued value at the end of a group
    for words, slots, items in ((['-n', S(0), '-fg'], ['d2'], ['n=#0', 'f=1', 'g=1']), (['--number', S(0), '-gf'], ['d2'], ['n=#0', 'f=1', 'g=1']), (['-s', S(0), '-f', '-gn' + S(1)], ['s2', 'd2'], ['s=$0', 'f=1', 'g=1', 'n=#1']),
                                (['--name', S(0), '-fgn', S(1)], ['s2', 'd2'], ['s=$0', 'f=1', 'g=1', 'n=#1']), (['-v', S(0), '-n', S(1), '-fg'], ['d2', 'd2'], ['v=#0', 'n=#1', 'f=1', 'g=1']),
                                (['-n', S(0), '-s', S(1), '-gfo' + S(2)], ['d2', 's2', 'd2'], ['n=#0', 's=$1', 'g=1', 'f=1', 'o=#2'])):
        shapes.append(('hx_pa', [0, 0], lab('c01/value then group', words), {'pa_tmpl': tmpl('ok', items, slots, words)}))
    # values starting with a dash: only the glued and the '=' spellings are unambiguous
    for words, slots, items in ((['-n' + S(0)], ['i3'], ['n=#0']), (['--number=' + S(0)], ['i3'], ['n=#0']), (['--num=' + S(0)], ['i2'], ['n=#0']), (['-o' + S(0)], ['i3'], ['o=#0']), (['-fn' + S(0)], ['i2'], ['f=1', 'n=#0']),
                                (['-s' + S(0)], ['i3'], ['s=$0']), (['--name=' + S(0), '-g'], ['i3'], ['s=$0', 'g=1']), (['-v' + S(0) + ',' + S(1)], ['i2', 'd2'], ['v=#0,#1'])):
        shapes.append(('hx_pa', [0, 0], lab('c01', words), {'pa_tmpl': tmpl('ok', items, slots, words)}))
    # keys that are prefixes of each other, every definition order
    for perm in range(6):
        for k, dst in (('--in', 'n'), ('--in-file', 'm'), ('--in-dir=', 'l'), ('--in-d', 'l'), ('--outp', 'u')):
            words = [k + S(0)] if k.endswith('=') else [k, S(0)]
            shapes.append(('hx_pa_order', [perm, 0], lab('c01/order%d' % perm, words), {'pa_tmpl': tmpl('ok', ['%s=#0' % dst], ['d2'], words)}))
    shapes += c01_float_shapes(tier)
    # values that contain '=' (also as first character), in every spelling; empty values
    for words, slots, items in ((['--name=' + S(0) + '=' + S(1)], ['s1', 's2'], ['s=$0=$1']), (['--name==' + S(0)], ['s2'], ['s==$0']), (['--name=' + S(0) + '=' + S(1) + '=' + S(0), '-f'], ['s1', 's1'], ['s=$0=$1=$0', 'f=1']),
                                (['-s', S(0) + '=' + S(1)], ['s1', 's2'], ['s=$0=$1']), (['-s' + S(0) + '=' + S(1)], ['s1', 's2'], ['s=$0=$1']), (['--name', S(0) + '='], ['s2'], ['s=$0=']), (['--nam=' + S(0) + '=='], ['s1'], ['s=$0==']),
                                (['-s', ''], [], ['s=']), (['--name='], [], ['s=']), (['--name', '', '-f'], [], ['s=', 'f=1']), (['-fs', ''], [], ['s=', 'f=1']), (['-g', '--name=', '-n', S(0)], ['d2'], ['s=', 'g=1', 'n=#0'])):
        shapes.append(('hx_pa', [0, 0], lab('c01/value with = or empty', words), {'pa_tmpl': tmpl('ok', items, slots, words)}))
    # values that begin / end with blanks reach the destination unchanged
    for words, slots, items in ((['--name= ' + S(0) + ' '], ['s2'], ['s= $0 ']), (['-s', '  ' + S(0)], ['s2'], ['s=  $0']), (['-s' + S(0) + ' ', '-f'], ['s1'], ['s=$0 ', 'f=1']), (['--name', S(0) + ' ' + S(1) + '  '], ['s1', 's2'], ['s=$0 $1  ']), (['-s', ' '], [], ['s= '])):
        shapes.append(('hx_pa', [0, 0], lab('c01/value with blanks', [w.replace(' ', '_') for w in words]), {'pa_tmpl': tmpl('ok', items, slots, words)}))
    # one handler object evaluates two command lines: the second one is evaluated like the first (nothing is left over)
    R3 = ['r2:10:19', 'r2:20:29', 'r2:30:39']
    for words, items, opt, fl in ((['-f', '-v', S(0), S(1), '\x04', S(2)], ['v=7,#0,#1', 'fv=#2', 'f=1'], 32 | 64, 0), (['-e', S(0), S(1), '\x04', S(2), '-f'], ['c=#0,#1', 'fv=#2', 'f=1'], 32 | 64, 0),
                                  (['-v', S(0), S(1), '-q', '\x04', S(2), '-f'], ['v=7,#0,#1', 'fv=#2', 'f=1'], 32 | 64, 1), (['-e', S(0), '--zz', '\x04', S(1), S(2)], ['c=#0', 'fv=#1,#2'], 32 | 64, 1),
                                  (['-f', '\x04', '-v', S(0)], ['v=7,#0', 'f=1'], 0, 0), (['-v', S(0), 'x', '\x04', S(1), S(2)], ['v=7,#0', 'fv=#1,#2'], 32 | 64, 1)):
        shapes.append(('hx_pa_twice', [6, (opt << 8) | fl], lab('c01/two evaluations', words), {'pa_tmpl': tmpl('ok', items, R3, words)}))
    # spellings (short, long, abbreviated) of lines whose arguments are named in handler constraints; a flag ends the value list of
    # a multi-value argument, the next free value goes to the free-value argument
    for cfg, ok, bad in rules():
        if cfg == 8:
            for (words, slots, items) in ok[::3]:
                shapes.append(('hx_pa', [8, 0], lab('c01/cfg8', words), {'pa_tmpl': tmpl('ok', items, slots, words)}))
    for opt, words, items in ((64 | 32, ['-v', S(0), S(1), '-f', S(2)], ['v=7,#0,#1', 'fv=#2', 'f=1']), (64 | 32, ['-e', S(0), '--flag', S(1), S(2)], ['c=#0', 'fv=#1,#2', 'f=1']), (64 | 32, [S(0), '-e', S(1), '-f', S(2)], ['c=#1', 'fv=#0,#2', 'f=1'])):
        shapes.append(('hx_pa', [6, opt << 8], lab('c01/multi-value then flag', words), {'pa_tmpl': tmpl('ok', items, ['r2:10:19', 'r2:20:29', 'r2:30:39'], words)}))
    # value mode 'command': the rest of the command line, joined by blanks, is the value
    for words, slots, items in ((['-x', S(0)], ['s2'], ['k=$0', 'f=0']), (['-f', '-x', S(0), S(1)], ['s2', 's1'], ['k=$0 $1', 'f=1']), (['-x', S(0), '-f', '-n', S(1)], ['s2', 'd2'], ['k=$0 -f -n $1', 'f=0', 'n=_']),
                                (['-n', S(1), '-x', S(0), '--name=' + S(0)], ['s2', 'd2'], ['k=$0 --name=$0', 'n=#1', 's=_']), (['-f', '-x', S(0), S(0)], ['s1'], ['k=$0 $0', 'f=1'])):     # (the library supports this value mode only for a short key alone in its word)
        shapes.append(('hx_pa', [17, 0], lab('c01/command', words), {'pa_tmpl': tmpl('ok', items, slots, words)}))
    for noabbr in (0, 1):
        for line in range(7):
            shapes.append(('hx_pa_subgroup', [noabbr, line], 'c01/subgroup/noabbr%d/line%d' % (noabbr, line)))
    return shapes


def c01_float_shapes(tier):
    """floating point destinations (cfg 15): every spelling of '-d <D.D>' / '-x <-D.D>' with symbolic digits; the conversion of the
    text itself is the engine's model of std::istream >> double (= host strtod), the handler code around it is the real one"""
    shapes = []
    unused = lambda used: ['%s=_' % k for k in ('dbl', 'flt', 'ratio', 'quota', 'n') if k not in used]
    V = S(0) + '.' + S(1)
    for key, lg, dst in (('d', 'double', 'dbl'), ('x', 'float', 'flt')):
        sp = [['-' + key, V], ['-' + key + V], ['--' + lg, V], ['--' + lg + '=' + V], ['--' + lg[:3] + '=' + V], ['--' + lg[:4], V]]
        for words in sp:
            shapes.append(('hx_pa', [15, 0], lab('c01/float', words), {'pa_tmpl': tmpl('ok', ['%s=#0.#1' % dst] + unused([dst]), ['d1', 'd1'], words)}))
        # negative values: glued / '=' spellings; with a flag and an integer around, both orders
        for words in (['-' + key + '-' + V], ['--' + lg + '=-' + V]):
            shapes.append(('hx_pa', [15, 0], lab('c01/float', words), {'pa_tmpl': tmpl('ok', ['%s=-#0.#1' % dst] + unused([dst]), ['d1', 'd1'], words)}))
        for words in (['-f', '-' + key, V, '-n', S(2)], ['-n', S(2), '--' + lg + '=' + V, '-f'], ['-fn', S(2), '-' + key + V], ['-f' + key + V, '--number=' + S(2)]):
            shapes.append(('hx_pa', [15, 0], lab('c01/float', words), {'pa_tmpl': tmpl('ok', ['%s=#0.#1' % dst, 'f=1', 'n=#2'] + unused([dst, 'n']), ['d1', 'd1', 'd2'], words)}))
    # other legal notations of a floating point value
    for text, val in (('1.5e3', '1500.0'), ('.125', '0.125'), ('7.', '7.0'), ('+2.5', '2.5'), ('-0.0625', '-0.0625'), ('25E-2', '0.25'), ('1e0', '1.0'), ('007.50', '7.5'), ('123456.789', '123456.789')):
        for words, dst in ((['--double=' + text], 'dbl'), (['-x' + text], 'flt')):
            shapes.append(('hx_pa', [15, 0], lab('c01/float notation', words), {'pa_tmpl': tmpl('ok', ['%s=%s' % (dst, val)] + unused([dst]), [], words)}))
    # both destinations in one line, three-digit fractions
    shapes.append(('hx_pa', [15, 0], 'c01/float/-d @0.@1 -x @2.@3', {'pa_tmpl': tmpl('ok', ['dbl=#0.#1', 'flt=#2.#3', 'n=_'], ['d1', 'd1', 'd1', 'd1'], ['-d', S(0) + '.' + S(1), '-x', S(2) + '.' + S(3)])}))
    if tier != 'quick':
        shapes.append(('hx_pa', [15, 0], 'c01/float/-d @0.@1 (3 fraction digits)', {'pa_tmpl': tmpl('ok', ['dbl=#0.#1'], ['d1', 'd3'], ['-d', S(0) + '.' + S(1)])}))
        shapes.append(('hx_pa', [15, 0], 'c01/float/-x @0.@1 (3 fraction digits)', {'pa_tmpl': tmpl('ok', ['flt=#0.#1'], ['d2', 'd2'], ['--float', S(0) + '.' + S(1)])}))
    return shapes


def float_rules():
    """checked floating point destinations of cfg 15: ratio in [0.5, 2.5), quota in [1.5, 7.5) (lower() is inclusive, upper() exclusive, as documented)"""
    ok = [(['-r', '0.' + S(0) + S(1)], ['r1:5:9', 'd1'], ['ratio=0.#0#1']), (['--ratio=' + S(0) + '.' + S(1)], ['r1:1:1', 'd1'], ['ratio=#0.#1']), (['-r2.' + S(0)], ['r1:0:4'], ['ratio=2.#0']),
          (['-r', '0.5'], [], ['ratio=0.5']), (['-r', '2.4999'], [], ['ratio=2.4999']), (['-q', '1.5'], [], ['quota=1.5']), (['-q', '7.4999'], [], ['quota=7.4999']),
          (['-q', S(0) + '.' + S(1)], ['r1:2:6', 'd1'], ['quota=#0.#1']), (['--quota=1.' + S(0), '-f'], ['r1:5:9'], ['quota=1.#0', 'f=1']), (['-q7.' + S(0)], ['r1:0:4'], ['quota=7.#0']), (['-d', '--', '1.5'], [], ['dbl=1.5']), (['-w', S(0)], ['r1:1:9'], ['weight=#0.0']), (['--weight=9'], [], ['weight=9.0'])]
    bad = [(['-r', '0.' + S(0) + S(1)], ['r1:0:4', 'd1'], []), (['-r', S(0) + '.' + S(1)], ['r1:3:9', 'd1'], []), (['-r2.' + S(0)], ['r1:5:9'], []), (['-r', '2.5'], [], []), (['-r', '0.4999'], [], []),
           (['-q', S(0) + '.' + S(1)], ['r1:0:0', 'd1'], []), (['-q1.' + S(0)], ['r1:0:4'], []), (['-q', '7.' + S(0)], ['r1:5:9'], []), (['-q', S(0) + '.' + S(1)], ['r1:8:9', 'd1'], []), (['-q', '7.5'], [], []),
           (['-d', '1.5' + S(0)], ['a1'], []), (['-d', S(0)], ['a2'], []), (['--double='], [], []), (['-d'], [], []), (['-x', '1,5'], [], []), (['-d', '1e'], [], []), (['-d', '1.5', '-d', '2.5'], [], []),
           (['-x', '1e99'], [], []), (['-d', '1.2.3'], [], []), (['-d', '--'], [], []),
           # integer limits [1, 10) on a double destination: whatever the notation, a value outside the range is refused
           (['-w', '1e3'], [], []), (['-w', S(0) + 'e' + S(1)], ['r1:1:9', 'r1:1:3'], []), (['-w', '2.5e+2'], [], []), (['-w', '-0.5'], [], []), (['-w', '95.0'], [], []), (['-w', '0.5'], [], []), (['-w', S(0) + S(1)], ['r1:1:9', 'd1'], []),
           (['-w', '10'], [], []), (['-w', '0'], [], [])]
    return ok, bad


def pattern_shapes(sign):
    """pattern checks of cfg 16 (std::regex header code in the IR): -w ^[a-c]+[0-9]$, -k x.?y; the value is symbolic, assumed to match
    (sign '+') or not to match (sign '-') by a reference predicate in the harness"""
    out = []
    for n in (1, 2, 3, 4):
        for words in (['-w', S(0)], ['--word=' + S(0)]):
            out.append(('hx_pa', [16, 0], lab('pattern w%s/len%d' % (sign, n), words), {'pa_tmpl': tmpl('patw' + sign, ['w=$0'] if sign == '+' else [], ['s%d' % n], words)}))
        out.append(('hx_pa', [16, 0], lab('pattern k%s/len%d' % (sign, n), ['-k', S(0)]), {'pa_tmpl': tmpl('patk' + sign, ['k=$0'] if sign == '+' else [], ['s%d' % n], ['-k', S(0), '-f'])}))
    out = [o for o in out if not (sign == '+' and ('/len1/' in o[2] or ('pattern k' in o[2] and '/len4/' in o[2])))]      # no member of that length
    # value lists: "fast,faster,Slow" ignoring the case (cfg 16 -m), "ab,cd,abc" exact (cfg 1 -w); letters symbolic
    for n in ((1, 2, 3, 4, 5, 6) if sign == '-' else (4, 6)):
        for words in (['-m', S(0)], ['--mode=' + S(0), '-f']):
            out.append(('hx_pa', [16, 0], lab('value list (ignore case) %s/len%d' % (sign, n), words), {'pa_tmpl': tmpl('patm' + sign, ['s=$0'] if sign == '+' else [], ['a%d' % n], words)}))
    for n in ((1, 2, 3, 4) if sign == '-' else (2, 3)):
        out.append(('hx_pa', [1, 0], lab('value list %s/len%d' % (sign, n), ['-w', S(0)]), {'pa_tmpl': tmpl('patv' + sign, ['w=$0'] if sign == '+' else [], ['a%d' % n], ['-w', S(0)])}))
    if sign == '-':
        out.append(('hx_pa', [16, 0], 'value list (ignore case) -/empty', {'pa_tmpl': tmpl('throw', [], [], ['--mode=', '-f'])}))
    return out


def lab(prefix, words):
    return prefix + '/' + ' '.join(w.replace('\x01', '@').replace('\x02', '|') for w in words)


# ---- rule families (cfg 1-4): valid uses and rule-breaking uses, by construction -------------------
def rules():
    """-> list of (cfg, valid_lines, invalid_lines); line = (words, slots, items)"""
    fam = []
    # cfg 1: checks and cardinality
    ok = [(['-l', S(0)], ['r2:10:99'], ['l=#0']), (['--low=' + S(0)], ['r3:100:999'], ['l=#0']), (['-u', S(0)], ['r2:10:99'], ['u=#0']), (['-u', S(0)], ['d1'], ['u=#0']),
          (['-m', S(0)], ['r2:10:99'], ['m=#0']), (['-w', 'ab'], [], ['w=ab']), (['--word', 'abc'], [], ['w=abc']), (['-k', S(0)], ['s2'], ['k=$0']), (['-k' + S(0)], ['s3'], ['k=$0']),
          (['-c', S(0)], ['d1'], ['c=#0']), (['-c', S(0), '-c', S(1)], ['d1', 'd2'], ['c=#0,#1']), (['-c', S(0) + ',' + S(1)], ['d1', 'd2'], ['c=#0,#1']),
          (['-l', S(0), '-u', S(1)], ['r2:10:99', 'd2'], ['l=#0', 'u=#1']), (['-w', 'cd', '-k', S(0), '-m', S(1)], ['s2', 'r2:10:99'], ['w=cd', 'k=$0', 'm=#1'])]
    bad = [(['-l', S(0)], ['z2:10:100'], []), (['-u', S(0)], ['r3:100:999'], []), (['-m', S(0)], ['z2:10:100'], []), (['-m', S(0)], ['r3:100:999'], []),
           (['-w', S(0)], ['a1'], []), (['-w', S(0)], ['a4'], []), (['-w', 'ac'], [], []), (['-k', S(0)], ['s1'], []), (['-k', S(0)], ['s4'], []),
           (['-c', S(0), '-c', S(1), '-c', S(2)], ['d1', 'd1', 'd1'], []), (['-c', S(0) + ',' + S(1) + ',' + S(2)], ['d1', 'd1', 'd1'], []), (['-c', S(0) + ',' + S(1), '-c', S(2)], ['d1', 'd1', 'd1'], []),
           (['-l', S(0), '-l', S(1)], ['r2:10:99', 'r2:10:99'], []), (['-l', S(0)], ['a2'], []), (['-l'], [], []), (['-l', '-u', S(0)], ['d2'], []), (['--low='], [], []),
           (['-z'], [], []), (['--zzz'], [], []), (['-l', S(0), '-z'], ['r2:10:99'], []), (['-u', S(0), '-l', S(1)], ['d2', 'z2:10:100'], [])]
    fam.append((1, ok, bad))
    # cfg 2: mandatory, excludes, requires (order-sensitive as documented)
    M = ['-m', S(0)]
    ok = [(M, ['d2'], ['m=#0']), (M + ['-x'], ['d2'], ['m=#0', 'x=1']), (['-y'] + M, ['d2'], ['m=#0', 'y=1']), (['-y'] + M + ['-x'], ['d2'], ['m=#0', 'x=1', 'y=1']),
          (M + ['-n', S(1)], ['d2', 'd2'], ['m=#0', 'n=#1']), (['-r', '-n', S(1)] + M, ['d2', 'd2'], ['m=#0', 'n=#1', 'r=1']), (['-r'] + M + ['--number=' + S(1), '-f'], ['d2', 'd2'], ['m=#0', 'n=#1', 'r=1', 'f=1']),
          (['--mand', S(0), '-f'], ['d3'], ['m=#0', 'f=1'])]
    bad = [(['-f'], [], []), ([], [], []), (['-x', '-y'], [], []), (M + ['-x', '-y'], ['d2'], []), (['-x'] + M + ['-f', '-y'], ['d2'], []), (M + ['-r'], ['d2'], []), (['-r'] + M, ['d2'], []),
           (['-n', S(1), '-r'] + M, ['d2', 'd2'], []), (M + M, ['d2'], []), (['-r', '-n'] + M, ['d2'], []), (['-y', '-x', '-y'] + M, ['d2'], [])]
    fam.append((2, ok, bad))
    # cfg 3: all_of(a;b), any_of(p;q), differ(d;e), disjoint(v;w)
    ok = [([], [], []), (['-a', '-b'], [], ['a=1', 'b=1']), (['-b', '-p', '-a'], [], ['a=1', 'b=1', 'p=1']), (['-a'], [], ['a=1', 'b=0']), (['-q'], [], ['q=1']), (['-d', S(0)], ['d2'], ['d1=#0']),
          (['-d', S(0), '-e', S(1)], ['r2:10:49', 'r2:50:99'], ['d1=#0', 'd2=#1']), (['-e', S(1), '-d', S(0)], ['r2:10:49', 'r2:50:99'], ['d1=#0', 'd2=#1']),
          (['-v', S(0) + ',' + S(1), '-w', S(2)], ['r2:10:29', 'r2:30:49', 'r2:50:99'], ['v1=#0,#1', 'v2=#2']), (['-w', S(2), '-v', S(0)], ['r2:10:29', 'd1', 'r2:50:99'], ['v1=#0', 'v2=#2']),
          (['-ab', '-q', '-d', S(0)], ['d3'], ['a=1', 'b=1', 'q=1', 'd1=#0'])]
    bad = [(['-p', '-q'], [], []), (['-a', '-b', '-q', '-p'], [], []), (['-q', '-d', S(0), '-p'], ['d2'], []), (['-d', S(0), '-e', S(0)], ['d2'], []), (['-e', S(0), '-d', S(0)], ['d1'], []),
           (['-v', S(0), '-w', S(0)], ['d2'], []), (['-v', S(0) + ',' + S(1), '-w', S(2) + ',' + S(0)], ['d1', 'd2', 'd3'], []), (['-w', S(0), '-v', S(1) + ',' + S(0)], ['d2', 'd1'], [])]
    fam.append((3, ok, bad))
    # cfg 7: all_of(a;b): all of them must be used
    ok = [(['-a', '-b'], [], ['a=1', 'b=1']), (['-b', '-n', S(0), '-a'], ['d2'], ['a=1', 'b=1', 'n=#0']), (['-ba'], [], ['a=1', 'b=1'])]
    bad = [([], [], []), (['-a'], [], []), (['-b', '-n', S(0)], ['d2'], []), (['-n', S(0)], ['d2'], [])]
    fam.append((7, ok, bad))
    # cfg 8: handler constraints named by long/short keys, arguments spelled short / long / abbreviated
    INP = [['-i', S(0)], ['--input', S(0)], ['--inp=' + S(0)], ['--in', S(0)]]
    OUT = [['-o', S(1)], ['--output=' + S(1)], ['--out', S(1)], ['--ou=' + S(1)]]
    AL = [['-a'], ['--alpha'], ['--al']]; BE = [['-b'], ['--beta'], ['--be']]; PR = [['-p'], ['--print'], ['--pri']]; QU = [['-q'], ['--quiet'], ['--qui']]
    ok = []; bad = []
    for i in INP:
        for a in AL[:2]:
            for b in BE[1:]:
                ok.append((i + a + b, ['d2'], ['n=#0', 'a=1', 'b=1']))
        bad.append((i, ['d2'], []))                                   # all_of(alpha;b) not met
        for o in OUT:
            bad.append((i + o + ['-a', '-b'], ['d2', 'd2'], []))      # one_of: both used
            bad.append((o + ['--alpha', '--beta'] + i, ['d2', 'd2'], []))
    for o in OUT:
        for a in AL:
            ok.append((a + o + ['-b'], ['d2', 'd2'], ['m=#1', 'a=1', 'b=1']))
            bad.append((a + o, ['d2', 'd2'], []))
    for p in PR:
        ok.append((['-i', S(0), '-ab'] + p, ['d2'], ['n=#0', 'p=1']))
        for q in QU:
            bad.append((['-i', S(0), '-ab'] + p + q, ['d2'], []))     # any_of: both used
            bad.append((q + ['-i', S(0), '-ab'] + p, ['d2'], []))
    bad.append((['-a', '-b'], [], []))                                # one_of: none used
    fam.append((8, ok, bad))
    # cfg 9: 'c' required by a, excluded by b; x requires c and a, excludes b
    ok = [(['-a', '-c'], [], ['a=1', 'f=1']), (['-b'], [], ['b=1']), (['-c'], [], ['f=1']), (['-a', '-c', '-b'], [], ['a=1', 'b=1', 'f=1']), (['-c', '-b'], [], ['b=1', 'f=1']),
          (['-x', '-a', '-c'], [], ['x=1', 'a=1', 'f=1']), (['-g', '--extra', '-a', '-c'], [], ['x=1', 'a=1', 'f=1', 'g=1']), (['-b', '-g'], [], ['b=1', 'g=1'])]
    bad = [(['-a'], [], []), (['-a', '-b', '-c'], [], []), (['-b', '-a', '-c'], [], []), (['-b', '-a'], [], []), (['-b', '-c'], [], []), (['-a', '-b'], [], []), (['-x', '-c'], [], []), (['-x', '-a'], [], []),
           (['-x', '-a', '-c', '-b'], [], []), (['--extra', '-c', '-a', '-b'], [], []), (['-a', '-x', '-b', '-c'], [], []), (['-x', '-c', '-a'], [], []), (['-b', '-x', '-a', '-c'], [], [])]
    fam.append((9, ok, bad))
    # cfg 12: differ(x;y;z): every pair of used arguments must differ, whichever of them are used and in whichever order
    RA, RB, RC = 'r2:10:39', 'r2:40:69', 'r2:70:99'
    ok = [(['-x', S(0), '-y', S(1), '-z', S(2)], [RA, RB, RC], ['n=#0', 'm=#1', 'l=#2']), (['-z', S(2), '-x', S(0)], [RA, RB, RC], ['n=#0', 'l=#2']), (['-y', S(1), '-z', S(2), '-f'], [RA, RB, RC], ['m=#1', 'l=#2', 'f=1']),
          (['-y', S(0)], ['d2'], ['m=#0']), (['-f'], [], ['f=1'])]
    bad = [(['-x', S(0), '-y', S(0)], ['d2'], []), (['-x', S(0), '-z', S(0)], ['d2'], []), (['-y', S(0), '-z', S(0)], ['d2'], []), (['-z', S(0), '-y', S(0), '-f'], ['d1'], []),
           (['-x', S(0), '-y', S(1), '-z', S(0)], ['d2', 'd1'], []), (['-x', S(1), '-y', S(0), '-z', S(0)], ['d2', 'd1'], []), (['-z', S(0), '-x', S(0), '-y', S(1)], ['d2', 'd1'], [])]
    fam.append((12, ok, bad))
    # cfg 18: cardinality exact(2) / range(2,3), initially set flag, deprecated / replaced arguments, value+constant pair
    ok = [(['-c', S(0) + ',' + S(1)], ['d1', 'd2'], ['c=#0,#1', 'g=1']), (['-c', S(0), '--count=' + S(1)], ['d1', 'd2'], ['c=#0,#1']), ([], [], ['c=_', 'v=_', 'g=1']), (['-v', S(0) + ',' + S(1)], ['d1', 'd2'], ['v=#0,#1']),
          (['-v', S(0) + ',' + S(1) + ',' + S(2)], ['d1', 'd2', 'd1'], ['v=#0,#1,#2']), (['-v', S(0), '-v', S(1), '-f', '-v', S(2)], ['d1', 'd2', 'd1'], ['v=#0,#1,#2', 'f=1']), (['-u'], [], ['g=0']), (['--unset', '-f'], [], ['g=0', 'f=1']),
          (['-p', S(0)], ['s3'], ['s=$0', 'u=7']), (['--pair=' + S(0), '-f'], ['s2'], ['s=$0', 'u=7', 'f=1']), (['-f'], [], ['s=_', 'u=_', 'f=1'])]
    bad = [(['-c', S(0)], ['d2'], []), (['-c', S(0) + ',' + S(1) + ',' + S(2)], ['d1', 'd1', 'd1'], []), (['-c', S(0), '-c', S(1), '-c', S(2)], ['d1', 'd1', 'd1'], []), (['-c', S(0) + ',' + S(1), '-f', '-c', S(2)], ['d1', 'd1', 'd1'], []),
           (['-v', S(0)], ['d2'], []), (['-v', S(0) + ',' + S(1) + ',' + S(2) + ',' + S(0)], ['d1', 'd1', 'd1'], []), (['-v', S(0) + ',' + S(1), '-v', S(2) + ',' + S(0)], ['d1', 'd1', 'd1'], []), (['-v', S(0), '-f'], ['d1'], []),
           (['-u', '-u'], [], []), (['-d', S(0)], ['d2'], []), (['--dep=' + S(0)], ['d1'], []), (['-r', S(0)], ['d2'], []), (['--repl', S(0), '-f'], ['d2'], []), (['-f', '--de', S(0)], ['d1'], []), (['-p'], [], []), (['-p', S(0), '-p', S(1)], ['s2', 's2'], [])]
    fam.append((18, ok, bad))
    # cfg 19: the lines of cfg 8 against constraint lists written with dashes / in normalised form
    c8 = [f for f in fam if f[0] == 8][0]
    fam.append((19, c8[1], c8[2]))
    # cfg 20: constraints over short-only keys written with their dash
    ok = [(['-a', '-b', '-x'], [], ['a=1', 'b=1', 'x=1']), (['-y', '-b', '-a', '-p'], [], ['a=1', 'b=1', 'y=1', 'p=1']), (['-x', '-r', '-b', '-a'], [], ['r=1', 'x=1']), (['-q', '-ab', '-y', '-g'], [], ['q=1', 'g=1', 'y=1']), (['-r', '-a', '-b', '-x'], [], ['r=1'])]
    bad = [(['-x'], [], []), (['-a', '-x'], [], []), (['-b', '-y'], [], []), (['-a', '-b'], [], []), (['-a', '-b', '-x', '-y'], [], []), (['-a', '-b', '-x', '-p', '-q'], [], []), (['-a', '-b', '-y', '-g', '-p'], [], []),
           (['-x', '-r'], [], []), (['-b', '-x', '-r'], [], [])]
    fam.append((20, ok, bad))
    # cfg 21: requires / excludes with the partner argument spelled short, long and abbreviated
    ok = [(['-s', S(0), sp, S(1)] if not sp.endswith('=') else ['-s', S(0), sp + S(1)], ['s2', 'd2'], ['s=$0', 'n=#1']) for sp in ('-n', '--number', '--num', '--nu', '--numbe=')]
    ok += [(['--name=' + S(0), '-g', '--numb', S(1)], ['s2', 'd2'], ['s=$0', 'n=#1', 'g=1']), (['--verb', '-q'], [], ['f=1', 'q=1']), (['-q', '-g'], [], ['q=1', 'g=1']), (['-n', S(0)], ['d2'], ['n=#0', 's=_'])]
    bad = [(['-s', S(0)], ['s2'], []), (['--nam', S(0), '-g'], ['s2'], [])] + [(['-q', sp], [], []) for sp in ('-v', '--verbose', '--verb', '--ve')] + [(['--qui', '-g', '--verbo'], [], []), (['-qv'], [], [])]
    fam.append((21, ok, bad))
    # cfg 22: two arguments require the same argument, one names it by its short, the other by its long key
    ok = [(['-a', '-b', '-x'], [], ['a=1', 'b=1', 'x=1']), (['-b', '-a', '--extra'], [], ['a=1', 'b=1', 'x=1']), (['-a', '-x'], [], ['a=1', 'x=1']), (['-b', '--ext', '-g'], [], ['b=1', 'x=1', 'g=1']), (['-x'], [], ['x=1']), (['-g'], [], ['g=1'])]
    bad = [(['-a', '-b'], [], []), (['-a'], [], []), (['-b', '-g'], [], []), (['-x', '-a'], [], [])]
    fam.append((22, ok, bad))
    # cfg 4: one_of(a;b)
    ok = [(['-a'], [], ['a=1']), (['-b'], [], ['b=1']), (['-n', S(0), '-b'], ['d2'], ['b=1', 'n=#0']), (['-a', '--number=' + S(0)], ['d2'], ['a=1', 'n=#0'])]
    bad = [([], [], []), (['-n', S(0)], ['d2'], []), (['-a', '-b'], [], []), (['-b', '-n', S(0), '-a'], ['d2'], [])]
    fam.append((4, ok, bad))
    return fam


def c02_shapes(tier):
    shapes = []
    for cfg, ok, bad in rules():
        for (words, slots, items) in bad:
            shapes.append(('hx_pa', [cfg, 0], lab('c02/cfg%d' % cfg, words), {'pa_tmpl': tmpl('throw', [], slots, words)}))
    # generic mutations of valid cfg 0 lines
    for words, slots in ((['-n'], []), (['--number'], []), (['--number='], []), (['-n', '-f'], []), (['-s'], []), (['-z'], []), (['--zz', S(0)], ['d2']), (['-n', S(0), '-n', S(1)], ['d2', 'd2']),
                         (['--number=' + S(0), '-n', S(1)], ['d2', 'd2']), (['-n', S(0)], ['a2']), (['-o', S(0)], ['a1']), (['-v', S(0) + ',' + S(1)], ['d1', 'a1']), (['-f', '-f'], []), (['-fgf'], []),
                         (['-f', S(0)], ['s2']), (['--flag=' + S(0)], ['d1']), (['-n', S(0), S(1)], ['d2', 's2']), (['--nam', S(0), '--na', S(1)], ['s2', 's2']), (['--n', S(0)], ['d2']), (['--nu', S(0), '--n', S(1)], ['d2', 'd2'])):
        shapes.append(('hx_pa', [0, 0], lab('c02/cfg0', words), {'pa_tmpl': tmpl('throw', [], slots, words)}))
    for words, slots in ((['-l', S(0), '-s', S(1)], ['d2', 's2']), (['-s', S(0), '-l', S(1), S(2)], ['s2', 'd1', 'd1']), (['-f'], []), (['-n', S(0)], ['d2'])):
        shapes.append(('hx_pa', [10, 0], lab('c02/cfg10', words), {'pa_tmpl': tmpl('throw', [], slots, words)}))
    # a multi-value argument, then a flag, then a free value although no free-value argument is defined
    for words, slots in ((['-v', S(0), S(1), '-f', S(2)], ['d2', 'd2', 'd2']), (['-e', S(0), '-f', S(1)], ['d2', 'd2']), (['--values', S(0), '--flag', S(1), S(2)], ['d1', 'd1', 'd1']), (['-e', S(0), '-t', S(1), S(2)], ['d2', 'd2', 'd2'])):
        shapes.append(('hx_pa', [6, 32 << 8], lab('c02/cfg6 multi-value', words), {'pa_tmpl': tmpl('throw', [], slots, words)}))
    for words, slots in ((['-b', S(0) + ',-' + S(1)], ['r1:0:7', 'r1:1:9']), (['--bits=-' + S(0)], ['r1:1:9']), (['-b-' + S(0)], ['r1:1:9']), (['-b', S(0)], ['r2:10:99']), (['-b', '18446744073709551615'], []), (['-b', '4294967296'], [])):
        shapes.append(('hx_pa', [6, 0], lab('c02/bitset position', words), {'pa_tmpl': tmpl('throw', [], slots, words)}))
    for words in (['-f'], ['-y', S(0)]):
        shapes.append(('hx_pa', [6, 65536 << 8], lab('c02/mandatory array missing', words), {'pa_tmpl': tmpl('throw', [], ['d1'], words)}))
    # a mandatory argument that opens a sub-group: missing -> reported, present -> fine
    for m in (0, 2):
        shapes.append(('hx_pa_subgroup', [m, 7], 'c02/subgroup/mandatory%d/missing' % (m >> 1)))
    shapes.append(('hx_pa_subgroup', [2, 2], 'c02/subgroup/mandatory1/present'))
    # tuple destination: cardinality is exactly the number of elements (checked at the end of the evaluation)
    for words, slots in ((['-t', S(0)], ['d2']), (['-t', S(0) + ',' + S(1)], ['d1', 'd2']), (['--tuple=' + S(0) + ',' + S(1), '-f'], ['d2', 'd2']), (['-t', S(0) + ',' + S(1) + ',' + S(2) + ',' + S(3)], ['d1', 'd1', 'd1', 'd1']),
                         (['-t', S(0) + ',' + S(1) + ',' + S(2), '-t', S(3)], ['d1', 'd1', 'd1', 'd1'])):
        shapes.append(('hx_pa', [11, 0], lab('c02/cfg11', words), {'pa_tmpl': tmpl('throw', [], slots, words)}))
    for words, slots, items in float_rules()[1]:
        shapes.append(('hx_pa', [15, 0], lab('c02/cfg15', words), {'pa_tmpl': tmpl('throw', [], slots, words)}))
    shapes += [(e, a, 'c02/' + l, d) for (e, a, l, d) in pattern_shapes('-')]
    # abbreviations disabled
    for words, slots in ((['--numbe', S(0)], ['d2']), (['--fla'], []), (['--nam=' + S(0)], ['s2'])):
        shapes.append(('hx_pa', [0, 1], lab('c02/noabbr', words), {'pa_tmpl': tmpl('throw', [], slots, words)}))
    return shapes


def c03_shapes(tier):
    shapes = []
    for cfg, ok, bad in rules():
        for (words, slots, items) in ok:
            shapes.append(('hx_pa', [cfg, 0], lab('c03/cfg%d' % cfg, words), {'pa_tmpl': tmpl('ok', items, slots, words)}))
    # exact keys that are prefixes of other keys (cfg 5), every unambiguous abbreviation
    for words, slots, items in ((['--in', S(0)], ['d2'], ['n=#0']), (['--in=' + S(0)], ['d2'], ['n=#0']), (['--in-file', S(0)], ['d2'], ['m=#0']), (['--in-f', S(0)], ['d2'], ['m=#0']),
                                (['--in-d=' + S(0)], ['d2'], ['l=#0']), (['--out', S(0), '--in-dir', S(1)], ['d2', 'd3'], ['u=#0', 'l=#1']), (['--o', S(0)], ['d1'], ['u=#0']),
                                (['--in', S(0), '--in-file', S(1), '--in-dir', S(2)], ['d1', 'd2', 'd3'], ['n=#0', 'm=#1', 'l=#2'])):
        shapes.append(('hx_pa', [5, 0], lab('c03/cfg5', words), {'pa_tmpl': tmpl('ok', items, slots, words)}))
    for words, slots, items in ((['-l', S(0), S(1)], ['d2', 'd2'], ['v=#0,#1']), (['-l', S(0), S(1), S(2), '-f', S(3)], ['d1', 'd2', 'd2', 'd3'], ['v=#0,#1,#2', 'f=1', 'fv=#3']),
                                (['--list', S(0) + ',' + S(1), '-n', S(2), S(3)], ['d1', 'd2', 'd2', 'd3'], ['v=#0,#1', 'n=#2', 'fv=#3']), (['-s', S(0), '-f', S(1)], ['s2', 'd2'], ['s=$0', 'f=1', 'fv=#1']),
                                ([S(0), '-l', S(1), S(2)], ['d1', 'd2', 'd2'], ['fv=#0', 'v=#1,#2'])):
        shapes.append(('hx_pa', [10, 0], lab('c03/cfg10', words), {'pa_tmpl': tmpl('ok', items, slots, words)}))
    shapes.append(('hx_pa', [11, 0], 'c03/cfg11 tuple', {'pa_tmpl': tmpl('ok', ['tp=#0,#1,#2', 'f=1'], ['d1', 'd2', 'd3'], ['-f', '-t', S(0) + ',' + S(1) + ',' + S(2)])}))
    shapes.append(('hx_pa', [11, 0], 'c03/cfg11 no tuple', {'pa_tmpl': tmpl('ok', ['f=1'], [], ['-f'])}))
    for words, slots, items in float_rules()[0]:
        shapes.append(('hx_pa', [15, 0], lab('c03/cfg15', words), {'pa_tmpl': tmpl('ok', items, slots, words)}))
    shapes += [(e, a, 'c03/' + l, d) for (e, a, l, d) in pattern_shapes('+')]
    for words, slots, items in ((['-n', S(0), '\x02', '-n', S(1)], ['d2', 'd3'], ['n=#1']), (['-s', S(0), '-f', '\x02', '--name', S(1)], ['s2', 's3'], ['s=$1', 'f=1'])):
        shapes.append(('hx_pa_argfile', [0, 0], lab('c03/arg-file override', words), {'pa_tmpl': tmpl('ok', items, slots, words)}))
    for words, items in ((['-v', S(0), '--endvalues', S(1), '-e', S(2), '--endvalues', S(0)], ['v=7,#0', 'c=#2', 'fv=#1,#0']), (['-v', S(0), S(1), '--endvalues', S(2)], ['v=7,#0,#1', 'fv=#2'])):
        shapes.append(('hx_pa', [6, 2 | ((32 | 64) << 8)], lab('c03/endvalues', words), {'pa_tmpl': tmpl('ok', items, ['d1', 'd2', 'd2'], words)}))
    for key, item in (('y', 'sa'), ('a', 'arr'), ('t', 'st')):
        for words in (['-' + key, S(0) + ',' + S(1) + ',' + S(2)], ['--' + {'y': 'stdarr', 'a': 'arr', 't': 'set'}[key] + '=' + S(0) + ',' + S(1), '-' + key, S(2)]):
            shapes.append(('hx_pa', [6, 1024 << 8], lab('c03/checked elements', words), {'pa_tmpl': tmpl('ok', ['%s=#0,#1,#2' % item], ['r2:10:39', 'r2:40:69', 'r2:70:99'], words)}))
    # a mandatory C array may be filled partly
    for words, slots, items in ((['-a', S(0) + ',' + S(1)], ['d1', 'd2'], ['arr=#0,#1,0']), (['--arr=' + S(0), '-f'], ['d2'], ['arr=#0,0,0', 'f=1']), (['-a', S(0), '-a', S(1), '-a', S(2)], ['d1', 'd1', 'd1'], ['arr=#0,#1,#2'])):
        shapes.append(('hx_pa', [6, 65536 << 8], lab('c03/mandatory array', words), {'pa_tmpl': tmpl('ok', items, slots, words)}))
    # full keys with abbreviations disabled
    for words, slots, items in ((['--number', S(0), '--flag'], ['d2'], ['n=#0', 'f=1']), (['--name=' + S(0)], ['s3'], ['s=$0'])):
        shapes.append(('hx_pa', [0, 1], lab('c03/noabbr', words), {'pa_tmpl': tmpl('ok', items, slots, words)}))
    # values at the limits of int
    for words, slots, items in ((['-n', '2147483647'], [], ['n=2147483647']), (['--number=-2147483648'], [], ['n=-2147483648']), (['--number=-' + S(0)], ['d2'], [])):
        shapes.append(('hx_pa', [0, 0], lab('c03/limits', words), {'pa_tmpl': tmpl('ok', items, slots, words)}))
    return shapes


def c04_shapes(tier):
    """arbitrary bytes: no invalid access, termination, only std::exception"""
    shapes = []
    lens = [(1,), (2,), (3,), (1, 1), (2, 1), (1, 2), (2, 2), (1, 1, 1)] if tier == 'quick' else [(1,), (2,), (3,), (4,), (1, 1), (2, 1), (1, 2), (2, 2), (3, 1), (1, 3), (3, 2), (1, 1, 1), (2, 1, 1), (1, 2, 1), (2, 2, 2)]
    for ls in lens:
        for cfg, fl in ((0, 0), (0, 3), (6, 64 << 8), (2, 0)):
            words = [S(i) for i in range(len(ls))]
            shapes.append(('hx_pa', [cfg, fl], 'c04/bytes%s/cfg%d/f%d' % ('-'.join(map(str, ls)), cfg, fl), {'pa_tmpl': tmpl('safe', [], ['b%d' % l for l in ls], words)}))
    # grammar-aware: fixed dashes / equals / brackets / bang around arbitrary bytes
    for pat in (['-' + S(0)], ['--' + S(0)], ['--' + S(0) + '=' + S(1)], ['-', S(0)], ['--', S(0)], ['-!' + S(0)], ['--!' + S(0)], ['-f', '(', S(0), ')'], ['[', S(0), ']'], ['-n=' + S(0)], ['=', '!', S(0)],
                ['---'], ['-'], ['--'], ['!'], ['-=', S(0)], ['-v', S(0) + ',' + S(1)], ['-n', S(0), '--endvalues', S(1)]):
        n = max([int(c) for w in pat for c in re.findall('\x01(\\d)', w)] + [-1]) + 1
        for cfg, fl in ((0, 0), (0, 2)):
            shapes.append(('hx_pa', [cfg, fl], lab('c04/f%d' % fl, pat), {'pa_tmpl': tmpl('safe', [], ['b2'] * n, pat)}))
    for words, slots in ((['-z', S(0)], ['d1']), (['-z', S(0)], ['d2']), (['-z', S(0) + ',' + S(1)], ['r2:08:11', 'r2:62:65']), (['-z', S(0), '-z', S(1)], ['r2:13:16', 'r3:126:130']), (['--vbool=' + S(0) + ',' + S(1)], ['r3:126:129', 'r3:190:194'])):
        shapes.append(('hx_pa', [6, 0], lab('c04/vbool', words), {'pa_tmpl': tmpl('safe', [], slots, words)}))
    # formatters: the table of per-position formatters is consulted for every value, also far behind the last position that has one
    for words, opt in ((['-w', 'a,b,c,d,e,f,g,h,' + S(0) + ',j,k,l'], 0), (['-w', 'a,b,c,d,e,f,g,h,i,j,k,l,m,' + S(0) + ',o'], 2), (['-w', S(0) + ',' + S(1), '-t', S(0) + ',' + S(1) + ',' + S(0) + ',' + S(1)], 0), (['-t', S(0), S(1), S(0), S(1)], 32)):
        shapes.append(('hx_pa', [13, opt << 8], lab('c04/format%d' % opt, words), {'pa_tmpl': tmpl('safe', [], ['b2', 'b1'], words)}))
    for n in ((1, 2, 3) if tier == 'quick' else (1, 2, 3, 4, 5)):
        shapes.append(('hx_split_any', [n, 0], 'c04/split_any%d' % n))
    # floating point destinations: an arbitrary byte at every position of the value text
    for words in (['-d', S(0)], ['-d', '1' + S(0)], ['--double=1e' + S(0)], ['-x', S(0) + '5'], ['-x.' + S(0)], ['-r', '1.5' + S(0)], ['-r', S(0)]):
        shapes.append(('hx_pa', [15, 0], lab('c04/float', words), {'pa_tmpl': tmpl('safe', [], ['b1'], words)}))
    # an argument with value mode 'command' at every position, also as the very last word (argv[argc] is the terminating null pointer)
    for words in (['-x'], ['-f', '-x'], ['--exec'], ['-x', S(0)], ['-fx'], ['-n', S(0), '-x'], ['-x', S(0), S(1)], [S(0), '-x'], ['-x', '-x']):
        shapes.append(('hx_pa', [17, 0], lab('c04/command', words), {'pa_tmpl': tmpl('safe', [], ['b2', 'b1'], words)}))
    # bitset / vector<bool> positions with a sign, huge positions
    for words, slots in ((['-b', S(0) + ',-' + S(1)], ['d1', 'd1']), (['--bits=-' + S(0)], ['d1']), (['-b-' + S(0)], ['d2']), (['-b', '-' + S(0)], ['d1']), (['-b', S(0)], ['b2']), (['-b', '18446744073709551615'], []), (['-b', '18446744073709551616'], []),
                         (['-b', '4294967295'], []), (['-b', '4294967296,' + S(0)], ['d1']), (['-z-' + S(0)], ['d1']), (['--vbool=' + S(0) + ',-' + S(1)], ['d1', 'd1']), (['-B', S(0) + ',-' + S(1)], ['d2', 'd1']), (['--bigbits=-' + S(0)], ['d2']), (['-B-' + S(0)], ['d1']), (['-B', S(0)], ['d3']),
                         (['-B', '18446744073709551615'], []), (['-B', '4294967296,' + S(0)], ['d1']), (['-B', S(0)], ['b2']),
                         (['-D', '18446744073709551615'], []), (['-D', '18446744073709551614,' + S(0)], ['d1']), (['-D-' + S(0)], ['d1']), (['-D', S(0) + ',-' + S(1)], ['d1', 'd1']), (['-D', S(0)], ['b2']), (['--dynbits=9223372036854775808'], []), (['-a', S(0) + ',-' + S(1) + ',' + S(0) + ',' + S(1)], ['d1', 'd1'])):
        shapes.append(('hx_pa', [6, 0], lab('c04/positions', words), {'pa_tmpl': tmpl('safe', [], slots, words)}))
    # argument files with arbitrary content (program-argument file and a file named with --arg-file); a file that names itself /
    # two files that name each other
    for src in ('hx_pa_file', 'hx_pa_argfile'):
        for ls in ((1,), (2,), (3,), (1, 1), (2, 1)):
            shapes.append((src, [0, 0], 'c04/%s bytes%s' % (src[6:], '-'.join(map(str, ls))), {'pa_tmpl': tmpl('safe', [], ['b%d' % l for l in ls], [S(i) for i in range(len(ls))] + ['\x02', '-g'])}))
    shapes.append(('hx_pa_argfile', [0, 0], 'c04/argfile names itself', {'pa_tmpl': tmpl('safe', [], [], ['-f', '\x03', '--arg-file', '/tmp/vs_home/args.txt', '\x02', '-g'])}))
    shapes.append(('hx_pa_argfile', [0, 1], 'c04/argfile names itself (first line)', {'pa_tmpl': tmpl('safe', [], [], ['--arg-file=/tmp/vs_home/args.txt', '\x03', '-f', '\x02', '-g'])}))
    shapes.append(('hx_pa_argfile', [0, 2], 'c04/argfiles name each other', {'pa_tmpl': tmpl('safe', [], [], ['-f', '\x03', '--arg-file', '/tmp/vs_home/args2.txt', '\x02', '-g'])}))
    shapes.append(('hx_pa_argfile', [0, 2], 'c04/argfile names a second file', {'pa_tmpl': tmpl('safe', [], [], ['-f', '\x02', '--arg-file=/tmp/vs_home/args2.txt'])}))
    shapes.append(('hx_pa_argfile', [0, 0], 'c04/argfile names a missing file', {'pa_tmpl': tmpl('safe', [], ['s2'], ['--arg-file', '/tmp/vs_home/' + S(0), '\x02', '-g'])}))
    # key-value destination with the default and two custom pair formats: arbitrary bytes as value list / inside the enclosing characters
    for opt in (0, 256, 512):
        for words, slots in ((['-m', S(0)], ['b1']), (['-m', S(0)], ['b2']), (['-m', S(0)], ['b3']), (['-m', '|' + S(0) + '|'], ['b2']), (['-m', '{' + S(0) + '}'], ['b2']), (['-m', '|;{;}'], []), (['-m', '|'], []), (['-m', '{'], []), (['-m', '||'], []),
                             (['--map=' + S(0) + ';' + S(1)], ['b1', 'b1']), (['-m', '|1=' + S(0) + '|;|'], ['b1'])):
            shapes.append(('hx_pa', [11, opt << 8], lab('c04/pair format%d' % opt, words), {'pa_tmpl': tmpl('safe', [], slots, words)}))
    # tuple destination whose cardinality check was removed, map destination with a check on every pair
    for words, slots in ((['-t', S(0) + ',' + S(1) + ',' + S(2)], ['d1', 'd1', 'd1']), (['-t', S(0) + ',' + S(1)], ['d1', 'b1']), (['-t', S(0), '-t', S(1) + ',' + S(2) + ',' + S(0)], ['d1', 'd1', 'd1']), (['--tuple=' + S(0)], ['b3'])):
        shapes.append(('hx_pa', [11, 32768 << 8], lab('c04/tuple without cardinality', words), {'pa_tmpl': tmpl('safe', [], slots, words)}))
    # help for a single argument: known, unknown and arbitrary keys
    for words, slots in ((['--help-arg', S(0)], ['b2']), (['--help-arg-full', S(0)], ['b2']), (['--help-arg-full=' + S(0)], ['b1']), (['--help-arg-full', 'x'], []), (['--help-arg-full=--nosuch'], []), (['--help-arg-full=-'], []), (['--help-arg-full', 'number'], []),
                         (['--help-arg-full=n', '-f'], []), (['--help-arg', 'zz'], []), (['--help-arg-full'], []), (['--help-arg='], [])):
        shapes.append(('hx_pa_help', [0, 0], lab('c04/help-arg', words), {'pa_tmpl': tmpl('safe', [], slots, words)}))
    # sources: environment variable with arbitrary content; program-argument file that cannot be opened
    for l in (1, 2, 3):
        shapes.append(('hx_pa_env', [0, 0], 'c04/env%d' % l, {'pa_tmpl': tmpl('safe', [], ['b%d' % l], [S(0)])}))
    shapes.append(('hx_pa_progfile', [0, 0], 'c04/progfile'))
    for n in ((1, 8, 255, 256, 300) if tier == 'quick' else (0, 1, 2, 8, 254, 255, 256, 257, 300, 1024)):
        for sl in (0, 1):
            shapes.append(('hx_pa_env_name', [n, sl], 'c04/env program name/len%d/slashes%d' % (n, sl)))
    return shapes


def c05_shapes(tier):
    shapes = []
    for perm in range(6):
        for fl in (0, 1):
            keys = [('--in', 'n'), ('--in-file', 'm'), ('--in-dir', 'l'), ('--output', 'u')]
            for k, dst in keys:
                shapes.append(('hx_pa_order', [perm, fl], lab('c05/p%d/f%d' % (perm, fl), [k, '@0']), {'pa_tmpl': tmpl('ok', ['%s=#0' % dst], ['d2'], [k, S(0)])}))
            # proper prefixes
            for pre, dst in (('--in-f', 'm'), ('--in-fil', 'm'), ('--in-d', 'l'), ('--o', 'u'), ('--outpu', 'u')):
                exp = ('ok', ['%s=#0' % dst]) if fl == 0 else ('throw', [])
                shapes.append(('hx_pa_order', [perm, fl], lab('c05/p%d/f%d' % (perm, fl), [pre, '@0']), {'pa_tmpl': tmpl(exp[0], exp[1], ['d2'], [pre, S(0)])}))
            for pre in ('--i', '--in-'):      # ambiguous resp. unknown
                shapes.append(('hx_pa_order', [perm, fl], lab('c05/p%d/f%d' % (perm, fl), [pre, '@0']), {'pa_tmpl': tmpl('throw', [], ['d2'], [pre, S(0)])}))
    for mode in range(11):
        shapes.append(('hx_pa_keys', [mode, 0], 'c05/keys/mode%d' % mode))
    for form in range(12):
        shapes.append(('hx_pa_keyspec', [form, 0], 'c05/keyspec/form%d' % form))
    for form in range(8):
        shapes.append(('hx_pa_dashkey', [form, 0], 'c05/keys with dashes/form%d' % form))
    for noabbr in (0, 1):
        for line in range(7):
            shapes.append(('hx_pa_subgroup', [noabbr, line], 'c05/subgroup/noabbr%d/line%d' % (noabbr, line)))
    for mode in range(9):
        shapes.append(('hx_pa_subgroup_dup', [mode, 0], 'c05/subgroup key clash/mode%d' % mode))
    shapes.append(('hx_pa_subgroup', [2, 0], 'c05/subgroup/mandatory/line0'))
    # consecutive long keys where the second is a prefix of the first one (and the other way round)
    for perm in (0, 3, 5):
        for words, items in ((['--in-file', S(0), '--in', S(1)], ['m=#0', 'n=#1']), (['--in-dir=' + S(0), '--in', S(1), '--in-file', S(2)], ['l=#0', 'n=#1', 'm=#2']), (['--output', S(0), '--in', S(1), '--in-d', S(2)], ['u=#0', 'n=#1', 'l=#2'])):
            shapes.append(('hx_pa_order', [perm, 0], lab('c05/p%d/f0/consecutive' % perm, words), {'pa_tmpl': tmpl('ok', items, ['d1', 'd2', 'd3'], words)}))
        shapes.append(('hx_pa_order', [perm, 0], 'c05/p%d/f0/consecutive/--in-file @0 --in- @1' % perm, {'pa_tmpl': tmpl('throw', [], ['d1', 'd2'], ['--in-file', S(0), '--in-', S(1)])}))
        shapes.append(('hx_pa_order', [perm, 1], 'c05/p%d/f1/consecutive/--in-file @0 --in-f @1' % perm, {'pa_tmpl': tmpl('throw', [], ['d1', 'd2'], ['--in-file', S(0), '--in-f', S(1)])}))
    return shapes


def c06_shapes(tier):
    shapes = []
    R = ['r2:10:19', 'r2:20:29', 'r2:30:39', 'r2:40:49']
    cuts = [(['-v', S(0) + ',' + S(1) + ',' + S(2)], 3), (['-v', S(0), '-v', S(1), '-v', S(2)], 3), (['-v', S(0) + ',' + S(1), '-v', S(2)], 3), (['-v', S(0), '--values=' + S(1) + ',' + S(2)], 3),
            (['-v', S(0)], 1), (['-v' + S(0) + ',' + S(1)], 2)]
    for words, n in cuts:
        vals = ['#%d' % i for i in range(n)]
        # plain: appended after the previous content (7)
        shapes.append(('hx_pa', [6, 0], lab('c06/plain', words), {'pa_tmpl': tmpl('ok', ['v=7,' + ','.join(vals)], R[:n], words)}))
        shapes.append(('hx_pa', [6, 1 << 8], lab('c06/clear', words), {'pa_tmpl': tmpl('ok', ['v=' + ','.join(vals)], R[:n], words)}))
        # sort: slots given in descending ranges
        rev = list(reversed(R[:n]))
        shapes.append(('hx_pa', [6, 3 << 8], lab('c06/clear+sort', words), {'pa_tmpl': tmpl('ok', ['v=' + ','.join(reversed(vals))], rev, words)}))
        shapes.append(('hx_pa', [6, 2 << 8], lab('c06/sort', words), {'pa_tmpl': tmpl('ok', ['v=7,' + ','.join(reversed(vals))], rev, words)}))
        shapes.append(('hx_pa', [6, 16 << 8], lab('c06/sep;', [w.replace(',', ';') for w in words]), {'pa_tmpl': tmpl('ok', ['v=7,' + ','.join(vals)], R[:n], [w.replace(',', ';') for w in words])}))
    # the same cuts on an initially empty container (no previous content to clear)
    for words, n in cuts:
        ew = [w.replace('--values', '--empty').replace('-v', '-e') for w in words]
        vals = ['#%d' % i for i in range(n)]
        for opt, name in ((0, 'plain'), (1, 'clear'), (2, 'sort-asc'), (4, 'unique')):
            shapes.append(('hx_pa', [6, opt << 8], lab('c06/empty/' + name, ew), {'pa_tmpl': tmpl('ok', ['c=' + ','.join(vals), 'v=7'], R[:n], ew)}))
    # multi-value argument: values, then a flag, then a free value (goes to the free-value argument, not to the container)
    for opt, words, items in ((64 | 32, ['-v', S(0), S(1), '-f', S(2)], ['v=7,#0,#1', 'fv=#2', 'f=1']), (64 | 32, ['-e', S(0), '-f', S(1), S(2)], ['c=#0', 'fv=#1,#2', 'f=1']),
                              (64 | 32, ['-e', S(0) + ',' + S(1), S(2), '-f'], ['c=#0,#1,#2', 'f=1', 'fv=_']), (64 | 32, [S(0), '-e', S(1), '--flag', S(2)], ['c=#1', 'fv=#0,#2', 'f=1']),
                              (64 | 32 | 1, ['-e', S(0), S(1), '-f', '-e', S(2)], ['c=#0,#1,#2', 'f=1']), (64, ['-v', S(0), S(1)], ['v=7,#0', 'fv=#1'])):
        shapes.append(('hx_pa', [6, opt << 8], lab('c06/multi', words), {'pa_tmpl': tmpl('ok', items, R[:3], words)}))
    # empty elements (doubled, leading, trailing separator) are skipped, whatever the destination
    for key, item, prev, tail in (('v', 'v', '7,', ''), ('e', 'c', '', ''), ('t', 'st', '', ''), ('a', 'arr', '', ',0'), ('y', 'sa', '', ',0')):
        for words in (['-' + key, S(0) + ',,' + S(1)], ['-' + key, ',' + S(0) + ',' + S(1)], ['-' + key, S(0) + ',' + S(1) + ','], ['-' + key, S(0) + ',', '-' + key, ',' + S(1)], ['-' + key, ',,' + S(0) + ',,,' + S(1) + ',,']):
            shapes.append(('hx_pa', [6, 0], lab('c06/empty elements', words), {'pa_tmpl': tmpl('ok', ['%s=%s#0,#1%s' % (item, prev, tail)], ['r2:10:19', 'r2:20:29'], words)}))
    shapes.append(('hx_pa', [6, 0], 'c06/empty elements/-y @0,,@1,@2', {'pa_tmpl': tmpl('ok', ['sa=#0,#1,#2'], ['d1', 'd2', 'd3'], ['-y', S(0) + ',,' + S(1) + ',' + S(2)])}))
    shapes.append(('hx_pa', [6, 0], 'c06/empty elements/-v ,', {'pa_tmpl': tmpl('ok', ['v=7'], [], ['-v', ','])}))
    # sort + unique over several uses / lists: a duplicate inside a later list, after a smaller value (S1 < S2 < S0)
    SU = ['r2:50:59', 'r2:10:19', 'r2:30:39']
    for words, opt in ((['-v', S(0) + ',' + S(1), '-v', S(2) + ',' + S(2)], 0), (['-v', S(0) + ',' + S(1), S(2) + ',' + S(2)], 32), (['-v', S(0), '-v', S(1) + ',' + S(2), '-v', S(2) + ',' + S(1)], 0), (['-v', S(2) + ',' + S(0) + ',' + S(1) + ',' + S(0)], 0),
                       (['-v', S(0) + ',' + S(1), '-v', S(2), '-v', S(0)], 0)):
        shapes.append(('hx_pa', [6, (2 | 4 | opt) << 8], lab('c06/sort+unique', words), {'pa_tmpl': tmpl('ok', ['v=7,#1,#2,#0'], SU, words)}))
        shapes.append(('hx_pa', [6, (2 | 8 | opt) << 8], lab('c06/sort+unique-err', words), {'pa_tmpl': tmpl('throw', [], SU, words)}))
        ew = [w.replace('-v', '-e') for w in words]
        shapes.append(('hx_pa', [6, (1 | 2 | 4 | opt) << 8], lab('c06/clear+sort+unique', ew), {'pa_tmpl': tmpl('ok', ['c=#1,#2,#0'], SU, ew)}))
    # --endvalues ends the value list of a multi-value argument, every time it is used
    for words, items in ((['-v', S(0), S(1), '--endvalues', S(2), '-f'], ['v=7,#0,#1', 'fv=#2', 'f=1']), (['-v', S(0), '--endvalues', S(1), '-e', S(2), S(0), '--endvalues', S(2)], ['v=7,#0', 'c=#2,#0', 'fv=#1,#2']),
                         (['-e', S(0), S(1), '--endvalues', S(2), '-e', S(1), '--endvalues', S(0), '-f'], ['c=#0,#1,#1', 'fv=#2,#0', 'f=1'])):
        shapes.append(('hx_pa', [6, 2 | ((32 | 64) << 8)], lab('c06/endvalues', words), {'pa_tmpl': tmpl('ok', items, SU, words)}))
    for words, items, opt, fl in ((['-v', S(0), S(1), '\x04', S(2)], ['v=7,#0,#1', 'fv=#2'], 32 | 64, 0), (['-v', S(0), S(1), '-q', '\x04', S(2), '-f'], ['v=7,#0,#1', 'fv=#2', 'f=1'], 32 | 64, 1), (['-e', S(0), '\x04', '-e', S(1) + ',' + S(2)], ['c=#0,#1,#2'], 0, 0),
                                  # the first evaluation fails in the middle of the value list (a value that is not a number)
                                  (['-v', S(0), S(1), 'four', '\x04', S(2), '-f'], ['v=7,#0,#1', 'fv=#2', 'f=1'], 32 | 64, 1), (['-e', S(0) + ',' + S(1), 'x', '\x04', S(2)], ['c=#0,#1', 'fv=#2'], 32 | 64, 1)):
        shapes.append(('hx_pa_twice', [6, (opt << 8) | fl], lab('c06/two evaluations', words), {'pa_tmpl': tmpl('ok', items, ['r2:10:19', 'r2:20:29', 'r2:30:39'], words)}))
    # bitset: positions set, or cleared with unsetFlag(), with and without a value formatter
    for opt, item in ((0, 'bss'), (4096, 'bss'), (2048, 'bsc'), (2048 | 4096, 'bsc')):
        for words in (['-b', S(0) + ',' + S(1)], ['-b', S(0), '--bits=' + S(1)], ['-b' + S(0)]):
            shapes.append(('hx_pa', [6, opt << 8], lab('c06/bitset opt%d' % opt, words), {'pa_tmpl': tmpl('ok', ['%s=#0%s' % (item, ',#1' if S(1) in ' '.join(words) else '')], ['r1:0:7', 'r1:0:7'], words)}))
    # checks are applied to every single element of fixed-size and set destinations too
    for key, item, tail in (('y', 'sa', ''), ('a', 'arr', ''), ('t', 'st', '')):
        for words in (['-' + key, S(0) + ',' + S(1) + ',' + S(2)], ['-' + key, S(0), '-' + key, S(1) + ',' + S(2)]):
            shapes.append(('hx_pa', [6, 1024 << 8], lab('c06/checked elements', words), {'pa_tmpl': tmpl('ok', ['%s=#0,#1,#2' % item], ['r2:10:39', 'r2:40:69', 'r2:70:99'], words)}))
        for words, slots in ((['-' + key, S(0) + ',' + S(1)], ['r2:10:99', 'z2:10:100']), (['-' + key, S(1) + ',' + S(0)], ['r2:10:99', 'z2:10:100']), (['-' + key, S(0) + ',' + S(0) + ',' + S(1)], ['r2:10:99', 'r3:100:999'])):
            shapes.append(('hx_pa', [6, 1024 << 8], lab('c06/checked elements bad', words), {'pa_tmpl': tmpl('throw', [], slots, words)}))
    # unique: the same slot twice
    for words in (['-v', S(0) + ',' + S(1) + ',' + S(0)], ['-v', S(0), '-v', S(1), '-v', S(0)], ['-v', S(0) + ',' + S(0)]):
        exp = ['v=7,#0,#1'] if S(1) in ' '.join(words) else ['v=7,#0']
        shapes.append(('hx_pa', [6, 4 << 8], lab('c06/unique', words), {'pa_tmpl': tmpl('ok', exp, R[:2], words)}))
        shapes.append(('hx_pa', [6, 8 << 8], lab('c06/unique-err', words), {'pa_tmpl': tmpl('throw', [], R[:2], words)}))
        shapes.append(('hx_pa', [6, 0], lab('c06/dups-kept', words), {'pa_tmpl': tmpl('ok', ['v=7,' + ','.join('#' + c for w in words for c in re.findall('\x01(\\d)', w))], R[:2], words)}))
    shapes.append(('hx_pa', [6, 4 << 8], 'c06/unique vs previous content', {'pa_tmpl': tmpl('ok', ['v=7,#0'], ['r2:10:99'], ['-v', '7,' + S(0) + ',7'])}))
    # element checks: a non-numeric element anywhere is refused
    for words in (['-v', S(0) + ',' + S(1)], ['-v', S(1) + ',' + S(0)], ['-v', S(0), '-v', S(1)]):
        shapes.append(('hx_pa', [6, 0], lab('c06/bad-element', words), {'pa_tmpl': tmpl('throw', [], ['d2', 'a1'], words)}))
    # set: sorted unique by nature
    shapes.append(('hx_pa', [6, 0], 'c06/set', {'pa_tmpl': tmpl('ok', ['st=#1,#0'], ['r2:50:59', 'r2:10:19'], ['-t', S(0) + ',' + S(1) + ',' + S(0)])}))
    shapes.append(('hx_pa', [6, 0], 'c06/set two uses', {'pa_tmpl': tmpl('ok', ['st=#1,#0'], ['r2:50:59', 'r2:10:19'], ['-t', S(0), '--set', S(1)])}))
    # fixed size destinations
    for key, dst in (('-a', 'arr'), ('-y', 'sa')):
        shapes.append(('hx_pa', [6, 0], 'c06/%s full' % dst, {'pa_tmpl': tmpl('ok', ['%s=#0,#1,#2' % dst], ['d1', 'd2', 'd3'], [key, S(0) + ',' + S(1) + ',' + S(2)])}))
        shapes.append(('hx_pa', [6, 0], 'c06/%s partial' % dst, {'pa_tmpl': tmpl('ok', ['%s=#0,#1,0' % dst], ['d1', 'd2'], [key, S(0) + ',' + S(1)])}))
        shapes.append(('hx_pa', [6, 0], 'c06/%s overflow' % dst, {'pa_tmpl': tmpl('throw', [], ['d1', 'd1', 'd1', 'd1'], [key, S(0) + ',' + S(1) + ',' + S(2) + ',' + S(3)])}))
    shapes.append(('hx_pa', [6, 0], 'c06/bitset', {'pa_tmpl': tmpl('ok', ['bs=5'], [], ['-b', '0,2'])}))
    shapes.append(('hx_pa', [6, 0], 'c06/bitset symbolic', {'pa_tmpl': tmpl('ok', [], ['r1:0:7'], ['-b', S(0)])}))
    shapes.append(('hx_pa', [6, 0], 'c06/bitset beyond size', {'pa_tmpl': tmpl('throw', [], ['r1:8:9'], ['-b', S(0)])}))
    shapes.append(('hx_pa', [6, 0], 'c06/big bitset', {'pa_tmpl': tmpl('ok', ['bigbs=#0,#1,#2'], ['d1', 'r2:60:69', 'r3:190:199'], ['-B', S(0) + ',' + S(1), '--bigbits=' + S(2)])}))
    shapes.append(('hx_pa', [6, 0], 'c06/big bitset beyond size', {'pa_tmpl': tmpl('throw', [], ['r3:200:999'], ['-B', S(0)])}))
    shapes.append(('hx_pa', [6, 0], 'c06/dynamic bitset', {'pa_tmpl': tmpl('ok', ['dynbs=#0,#1,#2'], ['r1:0:3', 'r1:4:9', 'r2:10:40'], ['-D', S(0) + ',' + S(1), '--dynbits=' + S(2)])}))
    shapes.append(('hx_pa', [6, 0], 'c06/dynamic bitset impossible position', {'pa_tmpl': tmpl('throw', [], [], ['-D', '3,18446744073709551615'])}))
    shapes.append(('hx_pa', [6, 0], 'c06/big bitset negative', {'pa_tmpl': tmpl('throw', [], ['r1:1:9'], ['-B', '5,-' + S(0)])}))
    for words, slots, items in ((['-z', S(0)], ['r1:0:9'], ['vb=#0']), (['-z', S(0)], ['r2:10:12'], ['vb=#0']), (['-z', S(0) + ',' + S(1)], ['r2:10:12', 'r2:62:65'], ['vb=#0,#1']),
                                (['-z', S(0), '--vbool', S(1)], ['r3:127:129', 'r3:190:193'], ['vb=#0,#1'])):
        shapes.append(('hx_pa', [6, 0], lab('c06/vbool', words), {'pa_tmpl': tmpl('ok', items, slots, words)}))
    # a vector<bool> destination that already has 1..3 positions: every position given is set afterwards (the vector grows)
    for n in (1, 2, 3):
        for words, slots, items in ((['-z', S(0)], ['r1:0:5'], ['vb=#0']), (['-z', S(0) + ',' + S(1)], ['r1:0:3', 'r1:0:4'], ['vb=#0,#1']), (['-z', S(0), '-f', '--vbool=' + S(1)], ['r1:0:2', 'r2:10:11'], ['vb=#0,#1', 'f=1'])):
            shapes.append(('hx_pa', [6, (n << 7) << 8], lab('c06/vbool presized %d' % n, words), {'pa_tmpl': tmpl('ok', items, slots, words)}))
    # key-value destination: pairs "k,v" separated by ';' ; previous content {1:5}; keys in ascending ranges so that the map order is known
    KR = ['r2:10:19', 'r2:20:29', 'r2:30:39', 'd2', 'd2', 'd2']
    for words, items, opt in ((['-m', S(0) + ',' + S(3)], ['kv=1:5+#0:#3'], 0), (['-m', S(0) + ',' + S(3) + ';' + S(1) + ',' + S(4)], ['kv=1:5+#0:#3+#1:#4'], 0),
                              (['-m', S(1) + ',' + S(4), '--map=' + S(0) + ',' + S(3)], ['kv=1:5+#0:#3+#1:#4'], 0), (['-m', S(0) + ',' + S(3) + ';' + S(1) + ',' + S(4), '-m', S(2) + ',' + S(5)], ['kv=#0:#3+#1:#4+#2:#5'], 1),
                              (['-m', S(0) + ',' + S(3) + ';' + S(0) + ',' + S(4)], ['kv=1:5+#0:#3'], 4), (['-m', '1,' + S(3)], ['kv=1:5'], 4)):
        shapes.append(('hx_pa', [11, opt << 8], lab('c06/map%d' % opt, words), {'pa_tmpl': tmpl('ok', items, KR, words)}))
    for words, slots, opt in ((['-m', S(0) + ',' + S(3) + ';' + S(0) + ',' + S(4)], KR, 8), (['-m', S(0)], KR, 0), (['-m', S(0) + ','], KR, 0), (['-m', ',' + S(3)], KR, 0), (['-m', S(0) + ',' + S(3)], ['r2:10:19', 'd1', 'd1', 'a1'], 0)):
        shapes.append(('hx_pa', [11, opt << 8], lab('c06/map-bad%d' % opt, words), {'pa_tmpl': tmpl('throw', [], slots, words)}))
    # a check on a key-value destination is applied to every single pair, not to the list
    shapes.append(('hx_pa', [11, 16384 << 8], 'c06/map checked pairs', {'pa_tmpl': tmpl('ok', ['kv=1:5+#0:#3+#1:#4+#2:#5'], KR, ['-m', S(0) + ',' + S(3) + ';' + S(1) + ',' + S(4) + ';' + S(2) + ',' + S(5)])}))
    shapes.append(('hx_pa', [11, 16384 << 8], 'c06/map checked pairs bad', {'pa_tmpl': tmpl('throw', [], ['r2:10:19', 'r3:100:999', 'r3:100:999'], ['-m', S(0) + ',' + S(0) + ';' + S(1) + ',' + S(2)])}))
    # fixed-size destinations filled by repeated uses of the argument
    for key, dst in (('-a', 'arr'), ('-y', 'sa')):
        for words in ([key, S(0) + ',' + S(1), key, S(2)], [key, S(0), key, S(1), key, S(2)], [key, S(0), '-f', key, S(1) + ',' + S(2)]):
            shapes.append(('hx_pa', [6, 0], lab('c06/%s repeated uses' % dst, words), {'pa_tmpl': tmpl('ok', ['%s=#0,#1,#2' % dst], ['d1', 'd2', 'd3'], words)}))
        shapes.append(('hx_pa', [6, 0], lab('c06/%s repeated uses overflow' % dst, [key, '@0,@1,@2', key, '@0,@1']), {'pa_tmpl': tmpl('throw', [], ['d1', 'd1', 'd1'], [key, S(0) + ',' + S(1) + ',' + S(2), key, S(0) + ',' + S(1)])}))
    # tuple: exactly three elements, in order, also split over the list
    shapes.append(('hx_pa', [11, 0], 'c06/tuple', {'pa_tmpl': tmpl('ok', ['tp=#0,#1,#2'], ['d1', 'd2', 'd3'], ['-t', S(0) + ',' + S(1) + ',' + S(2)])}))
    shapes.append(('hx_pa', [11, 0], 'c06/tuple long key', {'pa_tmpl': tmpl('ok', ['tp=#0,#1,#2', 'f=1'], ['d2', 'd2', 'd1'], ['--tuple=' + S(0) + ',' + S(1) + ',' + S(2), '-f'])}))
    for words, slots in ((['-t', S(0) + ',' + S(1)], ['d1', 'd2']), (['-t', S(0) + ',' + S(1) + ',' + S(2) + ',' + S(3)], ['d1', 'd1', 'd1', 'd1']), (['-t', S(0) + ',' + S(1) + ',' + S(2)], ['d1', 'a1', 'd1'])):
        shapes.append(('hx_pa', [11, 0], lab('c06/tuple-bad', words), {'pa_tmpl': tmpl('throw', [], slots, words)}))
    # the other standard containers (cfg 14): values in ascending ranges so that sorted views are known
    AR = ['r2:10:39', 'r2:40:69', 'r2:70:99']
    for key, item, prev in (('d', 'dq', '7,'), ('l', 'li', '7,'), ('w', 'fl', ''), ('k', 'sk', ''), ('q', 'qu', ''), ('p', 'pq', ''), ('m', 'ms', ''), ('u', 'us', '')):
        lk = {'d': 'deque', 'l': 'list', 'w': 'fwd', 'k': 'stack', 'q': 'queue', 'p': 'prio', 'm': 'mset', 'u': 'uset'}[key]
        cuts = [(['-' + key, S(0) + ',' + S(1) + ',' + S(2)], 0), (['-' + key, S(0), '--' + lk + '=' + S(1) + ',' + S(2)], 0), (['--' + lk, S(0) + ';' + S(1), '-f', '-' + key, S(2)], 16), (['-' + key, S(0), S(1), S(2), '-f'], 32)]
        if tier == 'quick':
            cuts = cuts[1:2] + cuts[3:]
        for words, opt in cuts:
            # (the hash of a symbolic value forks per bucket: the unordered set gets two-valued slots)
            shapes.append(('hx_pa', [14, opt << 8], lab('c06/%s%d' % (lk, opt), words), {'pa_tmpl': tmpl('ok', ['%s=%s#0,#1,#2' % (item, prev)] + (['f=1'] if '-f' in words else []), AR if key != 'u' else ['r2:10:11', 'r2:40:41', 'r2:70:71'], words)}))
    # values in descending order: sequences keep the given order, sorted containers sort, the sort option sorts
    for key, item, exp, opt in (('d', 'dq', '7,#2,#1,#0', 0), ('l', 'li', '7,#2,#1,#0', 0), ('q', 'qu', '#2,#1,#0', 0), ('k', 'sk', '#2,#1,#0', 0), ('p', 'pq', '#0,#1,#2', 0), ('m', 'ms', '#0,#1,#2', 0),
                                ('d', 'dq', '#0,#1,#2', 1 | 2), ('l', 'li', '#0,#1,#2', 1 | 2), ('m', 'ms', '#0,#0,#1', -1), ('u', 'us', '#0,#1', -1)):
        words = ['-' + key, S(2) + ',' + S(1), '-' + key, S(0)] if opt >= 0 else ['-' + key, S(0) + ',' + S(1) + ',' + S(0)]
        shapes.append(('hx_pa', [14, max(opt, 0) << 8], lab('c06/order %s%d' % (item, opt), words), {'pa_tmpl': tmpl('ok', ['%s=%s' % (item, exp)], AR, words)}))
    # checks are applied to every single element
    shapes.append(('hx_pa', [14, 0], 'c06/element check ok', {'pa_tmpl': tmpl('ok', ['v=#0,#1,#2'], ['r2:10:99', 'r2:10:99', 'r2:10:99'], ['-e', S(0) + ',' + S(1), '-e', S(2)])}))
    for words, slots in ((['-e', S(0) + ',' + S(1)], ['r2:10:99', 'z2:10:100']), (['-e', S(1) + ',' + S(0)], ['r2:10:99', 'z2:10:100']), (['-e', S(0), '-e', S(0) + ',' + S(1)], ['r2:10:99', 'r3:100:999'])):
        shapes.append(('hx_pa', [14, 0], lab('c06/element check', words), {'pa_tmpl': tmpl('throw', [], slots, words)}))
    # formatters (cfg 13): general format on string / vector, per-position formats on vector / tuple; the result must not depend on
    # how the values are split over lists and words
    A3 = ['a2', 'a2', 'a2', 'a1']
    for words, items, opt in ((['-s', S(0)], ['ls=lc$0'], 0), (['--name=' + S(0), '-f'], ['ls=lc$0', 'f=1'], 0),
                              (['-w', S(0) + ',' + S(1)], ['ws=uc$0,uc$1'], 0), (['-w', S(0), '-w', S(1) + ',' + S(2)], ['ws=uc$0,uc$1,uc$2'], 0), (['-w', S(0), S(1), S(2)], ['ws=uc$0,uc$1,uc$2'], 32),
                              (['-w', S(0) + ',' + S(1) + ',' + S(2)], ['ws=$0,lc$1,$2'], 2), (['-w', S(0), '-w', S(1), '--words', S(2) + ',' + S(3)], ['ws=$0,lc$1,$2,lc$3'], 2), (['-w', S(0) + ',' + S(1), S(2), S(3)], ['ws=$0,lc$1,$2,lc$3'], 2 | 32),
                              (['-t', S(0) + ',' + S(1) + ',' + S(2)], ['ts=lc$0,uc$1,Ul$2'], 0), (['-t', S(0) + ',' + S(1), S(2)], ['ts=lc$0,uc$1,Ul$2'], 32), (['-t', S(0), S(1) + ',' + S(2)], ['ts=lc$0,uc$1,Ul$2'], 32),
                              (['-t', S(0), S(1), S(2), '-f'], ['ts=lc$0,uc$1,Ul$2', 'f=1'], 32),
                              (['-w', 'a,b,c,d,e,f,g,h,i,' + S(3) + ',k,' + S(0)], ['ws=A,B,C,D,E,F,G,H,I,uc$3,K,uc$0'], 0), (['-w', 'a,B,c,D,e,f,g,h,i,j,k,l,M,' + S(3) + ',o'], ['ws=a,b,c,d,e,f,g,h,i,j,k,l,M,$3,o'], 2)):
        shapes.append(('hx_pa', [13, opt << 8], lab('c06/format%d' % opt, words), {'pa_tmpl': tmpl('ok', items, A3, words)}))
    # free values routed to the free-value argument
    shapes.append(('hx_pa', [6, 64 << 8], 'c06/free values', {'pa_tmpl': tmpl('ok', ['fv=#0,#1', 'f=1'], ['d2', 'd2'], [S(0), '-f', S(1)])}))
    shapes.append(('hx_pa', [6, (64 | 32) << 8], 'c06/multi-value', {'pa_tmpl': tmpl('ok', ['v=7,#0,#1,#2', 'f=1'], R[:3], ['-v', S(0), S(1), S(2), '-f'])}))
    shapes.append(('hx_pa', [6, 0], 'c06/no free arg', {'pa_tmpl': tmpl('throw', [], ['d2'], [S(0)])}))
    return shapes


def c07_shapes(tier):
    shapes = []
    for nw, wl in ((1, 1), (1, 2), (2, 1), (1, 3), (2, 2)) if tier == 'quick' else ((1, 1), (1, 2), (1, 3), (2, 1), (2, 2), (3, 1), (2, 3), (3, 2)):
        for q in (0, 1, 2, 3, 4):
            shapes.append(('hx_split', [nw, wl, q], 'c07/split/w%dx%d/q%d' % (nw, wl, q)))
    # the same abstract command lines as C01, delivered through a string and through the environment
    lines = [(['-f', '-n', S(0)], ['d2'], ['f=1', 'n=#0']), (['--name=' + S(0), '-g'], ['s2'], ['s=$0', 'g=1']), (['-v', S(0) + ',' + S(1)], ['d1', 'd2'], ['v=#0,#1']), (['-o', S(0), '--flag'], ['d3'], ['o=#0', 'f=1']),
             (['-s', S(0), '--number', S(1)], ['s3', 'd2'], ['s=$0', 'n=#1'])]
    for words, slots, items in lines:
        shapes.append(('hx_pa_string', [0, 0], lab('c07/string', words), {'pa_tmpl': tmpl('ok', items, slots, words)}))
        shapes.append(('hx_pa_env', [0, 0], lab('c07/env', words), {'pa_tmpl': tmpl('ok', items, slots, words)}))
        for cut in range(1, len(words)):
            if words[cut - 1] in ('-n', '-o', '-s', '--number', '-v'):
                continue
            shapes.append(('hx_pa_env', [0, 0], lab('c07/env+argv', words[:cut] + ['\x02'] + words[cut:]), {'pa_tmpl': tmpl('ok', items, slots, words[:cut] + ['\x02'] + words[cut:])}))
        # ... and through the program-argument file: one line, one word group per line, with/without trailing newline, comment lines
        shapes.append(('hx_pa_file', [0, 0], lab('c07/file', words), {'pa_tmpl': tmpl('ok', items, slots, words)}))
        shapes.append(('hx_pa_file', [0, 2], lab('c07/file+comment', words), {'pa_tmpl': tmpl('ok', items, slots, words)}))
        for cut in range(1, len(words)):
            if words[cut - 1] in ('-n', '-o', '-s', '--number', '-v'):
                continue
            shapes.append(('hx_pa_file', [0, 0], lab('c07/file two lines', words[:cut] + ['\x03'] + words[cut:]), {'pa_tmpl': tmpl('ok', items, slots, words[:cut] + ['\x03'] + words[cut:])}))
            shapes.append(('hx_pa_file', [0, 0], lab('c07/file+argv', words[:cut] + ['\x02'] + words[cut:]), {'pa_tmpl': tmpl('ok', items, slots, words[:cut] + ['\x02'] + words[cut:])}))
        shapes.append(('hx_pa_file', [0, 1], lab('c07/file no final newline', words), {'pa_tmpl': tmpl('ok', items, slots, words)}))
    # program-argument file and environment variable both enabled (file present or not): env words | file words | argv words
    for words, slots, items, mode in ((['-n', S(0), '\x02', '-f', '\x03', '-g'], ['d2'], ['n=#0', 'f=1', 'g=1'], 0), (['-n', S(0), '\x02', '-f', '\x03', '-g'], ['d2'], ['n=#0', 'f=0', 'g=1'], 1),
                                      (['--name=' + S(0), '-f', '\x02', '\x03'], ['s2'], ['s=$0', 'f=1'], 1), (['-s', S(0), '\x02', '-n', S(1), '\x03', '-n', S(2)], ['s2', 'd2', 'd3'], ['s=$0', 'n=#2'], 0),
                                      (['-n', S(0), '\x02', '\x03', '-n', S(1)], ['d2', 'd3'], ['n=#1'], 1), (['\x02', '-v', S(0), '\x03', '-f'], ['d2'], ['v=#0', 'f=1'], 0)):
        shapes.append(('hx_pa_file_env', [0, mode], lab('c07/file%s+env' % ('' if mode == 0 else ' (missing)'), words), {'pa_tmpl': tmpl('ok', items, slots, words)}))
    # an argument file named on the command line: same destinations as the words themselves; a later command line value overrides
    for words, slots, items in lines:
        shapes.append(('hx_pa_argfile', [0, 0], lab('c07/arg-file', words), {'pa_tmpl': tmpl('ok', items, slots, words + ['\x02'])}))
    for words, slots, items, mode in ((['-n', S(0), '\x02', '-n', S(1)], ['d2', 'd3'], ['n=#1'], 0), (['-n', S(0), '-f', '\x02', '-n', S(1), '-g'], ['d2', 'd3'], ['n=#1', 'f=1', 'g=1'], 0), (['-s', S(0), '\x03', '-n', S(1), '\x02', '--name=' + S(2)], ['s2', 'd2', 's3'], ['s=$2', 'n=#1'], 0),
                                      (['-f', '\x02', '-g', '-n', S(0)], ['d2'], ['f=1', 'g=1', 'n=#0'], 1), (['-o', S(0), '\x02', '-o', S(1)], ['d1', 'd2'], ['o=#1'], 0)):
        shapes.append(('hx_pa_argfile', [0, mode], lab('c07/arg-file+argv%d' % mode, words), {'pa_tmpl': tmpl('ok', items, slots, words)}))
    shapes.append(('hx_pa_argfile', [0, 0], 'c07/arg-file bad int', {'pa_tmpl': tmpl('throw', [], ['a2'], ['-n', S(0), '\x02', '-f'])}))
    # the value list of a multi-value argument continues across file lines / from a file or the environment variable onto argv
    MV = (32 | 64) << 8
    R3 = ['r2:10:19', 'r2:20:29', 'r2:30:39']
    for src, words, items in (('hx_pa_file', ['-v', S(0), S(1), '\x03', S(2)], ['v=7,#0,#1,#2']), ('hx_pa_file', ['-e', S(0), '\x03', S(1), '\x02', S(2), '-f'], ['c=#0,#1,#2', 'f=1']),
                              ('hx_pa_argfile', ['-v', S(0), '\x02', S(1), S(2)], ['v=7,#0,#1,#2']), ('hx_pa_argfile', ['-e', S(0), '\x03', S(1), '\x02', S(2), '-f'], ['c=#0,#1,#2', 'f=1']),
                              ('hx_pa_env', ['-v', S(0), S(1), '\x02', S(2), '-f'], ['v=7,#0,#1,#2', 'f=1'])):
        shapes.append((src, [6, MV], lab('c07/multi-value across sources/' + src[6:], words), {'pa_tmpl': tmpl('ok', items, R3, words)}))
    # environment variable values whose first character is not a dash: leading blank, quoted / escaped first word, a free value first
    for words, slots, items, mode in ((['-n', S(0)], ['d2'], ['n=#0'], 1), (["'-n'", S(0), '-f'], ['d2'], ['n=#0', 'f=1'], 0), (['"--name"', S(0)], ['s2'], ['s=$0'], 0), (['\\-f', '-n', S(0)], ['d2'], ['f=1', 'n=#0'], 0)):
        shapes.append(('hx_pa_env', [0, mode], lab('c07/env first character/m%d' % mode, words), {'pa_tmpl': tmpl('ok', items, slots, words)}))
    # values from the environment variable do not count for the cardinality: a limit of two command line values still allows two
    for words, items in ((['-v', S(0), S(1), S(2), '\x02', '-v', S(0)], ['v=7,#0,#1,#2,#0']), (['-v', S(0), S(1), '\x02', '-v', S(2), S(0)], ['v=7,#0,#1,#2,#0']), (['-v', S(0) + ',' + S(1), S(2), '\x02', '-v', S(1), '-f'], ['v=7,#0,#1,#2,#1', 'f=1'])):
        shapes.append(('hx_pa_env', [6, (32 | 8192) << 8], lab('c07/env cardinality', words), {'pa_tmpl': tmpl('ok', items, ['r2:10:19', 'r2:20:29', 'r2:30:39'], words)}))
    shapes.append(('hx_pa_env', [6, (32 | 8192) << 8], 'c07/env cardinality/three on argv', {'pa_tmpl': tmpl('throw', [], ['d2', 'd2', 'd2'], ['-v', S(0), '\x02', '-v', S(0), S(1), S(2)])}))
    # the application names the variable itself (mixed case)
    for words, slots, items in ((['-n', S(0), '-f'], ['d2'], ['n=#0', 'f=1']), (['--name=' + S(0), '\x02', '-g'], ['s2'], ['s=$0', 'g=1'])):
        shapes.append(('hx_pa_env', [0, 2], lab('c07/env named variable', words), {'pa_tmpl': tmpl('ok', items, slots, words)}))
    shapes.append(('hx_pa_env', [6, 64 << 8], 'c07/env first character/free value first', {'pa_tmpl': tmpl('ok', ['fv=#0', 'f=1'], ['d2'], [S(0), '-f'])}))
    # override: the command line value wins, without a cardinality error
    shapes.append(('hx_pa_env', [0, 0], 'c07/env override', {'pa_tmpl': tmpl('ok', ['n=#1'], ['d2', 'd3'], ['-n', S(0), '\x02', '-n', S(1)])}))
    shapes.append(('hx_pa_env', [0, 0], 'c07/env override string', {'pa_tmpl': tmpl('ok', ['s=$1', 'f=1'], ['s2', 's3'], ['--name=' + S(0), '-f', '\x02', '-s', S(1)])}))
    shapes.append(('hx_pa_file', [0, 0], 'c07/file override', {'pa_tmpl': tmpl('ok', ['n=#1'], ['d2', 'd3'], ['-n', S(0), '\x02', '-n', S(1)])}))
    shapes.append(('hx_pa_file', [0, 0], 'c07/file unknown', {'pa_tmpl': tmpl('throw', [], [], ['-z'])}))
    shapes.append(('hx_pa_file', [0, 0], 'c07/file bad int', {'pa_tmpl': tmpl('throw', [], ['a2'], ['-f', '\x03', '-n', S(0)])}))
    # values with blanks / hash signs / quotes inside a file line (quoted as for a shell)
    for val in ('a #b', 'x#y', '#z', 'p q', "it's"):
        q = '"%s"' % val
        shapes.append(('hx_pa_file', [0, 0], 'c07/file quoted value [%s]' % val, {'pa_tmpl': tmpl('ok', ['s=' + val, 'f=1'], [], ['-f', '-s', q])}))
        shapes.append(('hx_pa_string', [0, 0], 'c07/string quoted value [%s]' % val, {'pa_tmpl': tmpl('ok', ['s=' + val, 'f=1'], [], ['-f', '-s', q])}))
    # rule-breaking lines stay rule-breaking whatever the source
    shapes.append(('hx_pa_env', [0, 0], 'c07/env unknown', {'pa_tmpl': tmpl('throw', [], [], ['-z'])}))
    shapes.append(('hx_pa_string', [0, 0], 'c07/string bad int', {'pa_tmpl': tmpl('throw', [], ['a2'], ['-n', S(0)])}))
    return shapes


def c08_shapes(tier):
    shapes = []
    for cfg, ok, bad in rules():
        if cfg in (4,):
            continue
        for (words, slots, items) in ok:
            shapes.append(('hx_pa_group', [cfg, 0], lab('c08/ok/cfg%d' % cfg, words), {'pa_tmpl': tmpl('ok', items, slots, words)}))
        for (words, slots, items) in bad:
            shapes.append(('hx_pa_group', [cfg, 0], lab('c08/bad/cfg%d' % cfg, words), {'pa_tmpl': tmpl('throw', [], slots, words)}))
    for words, slots, items in ((['-f', '-g'], [], ['f=1', 'g=1']), (['-n', S(0), '-s', S(1)], ['d2', 's2'], ['n=#0', 's=$1']), (['--values=' + S(0) + ',' + S(1), '-o', S(2)], ['d1', 'd2', 'd3'], ['v=#0,#1', 'o=#2']),
                                (['-gf'], [], ['f=1', 'g=1']), (['--nam', S(0), '--num', S(1)], ['s2', 'd2'], ['s=$0', 'n=#1'])):
        shapes.append(('hx_pa_group', [0, 0], lab('c08/ok/cfg0', words), {'pa_tmpl': tmpl('ok', items, slots, words)}))
    for opt, words, slots, exp, items in ((32, ['-v', S(0), S(1), '-t', S(2), S(3)], ['d1', 'd2', 'd2', 'd2'], 'throw', []), (32, ['-v', S(0), S(1), '-t', S(2)], ['d1', 'd2', 'd2'], 'ok', ['v=7,#0,#1', 'st=#2']),
                                          (32 | 64, ['-v', S(0), S(1), '-f', S(2)], ['d1', 'd2', 'd2'], 'ok', ['v=7,#0,#1', 'f=1', 'fv=#2']), (32, ['-e', S(0), '-a', S(1), '-e', S(2), S(3)], ['d1', 'd2', 'd2', 'd2'], 'ok', ['c=#0,#2,#3']),
                                          (32, ['-a', S(0), S(1)], ['d1', 'd2'], 'throw', [])):
        for entry in ('hx_pa', 'hx_pa_group'):
            shapes.append((entry, [6, opt << 8], lab('c08/%s/cfg6' % entry, words), {'pa_tmpl': tmpl(exp, items, slots, words)}))
    for words, slots, exp, items in ((['-l', S(0), S(1), '-f', S(2)], ['d1', 'd2', 'd3'], 'ok', ['v=#0,#1', 'f=1', 'fv=#2']), (['-l', S(0), '-s', S(1)], ['d2', 's2'], 'throw', []), (['-n', S(0), '-l', S(1), S(2)], ['d2', 'd1', 'd1'], 'ok', ['n=#0', 'v=#1,#2'])):
        shapes.append(('hx_pa_group', [10, 0], lab('c08/cfg10', words), {'pa_tmpl': tmpl(exp, items, slots, words)}))
    # a free value directly behind an argument of the other member handler
    for words, slots, items in ((['-s', S(0), S(1)], ['s2', 'd2'], ['s=$0', 'fv=#1']), (['-l', S(0), '-n', S(1), S(2)], ['d2', 'd2', 'd2'], ['v=#0', 'n=#1', 'fv=#2']), (['--name=' + S(0), S(1), '-f'], ['s2', 'd2'], ['s=$0', 'fv=#1', 'f=1'])):
        shapes.append(('hx_pa_group', [10, 0], lab('c08/cfg10 free value', words), {'pa_tmpl': tmpl('ok', items, slots, words)}))
    for m in (3, 4, 5):
        shapes.append(('hx_pa_group_dup', [m, 0], 'c08/duplicate key, later-created handler defines it first (%d)' % m))
    for a in range(3):
        for b in range(10):
            shapes.append(('hx_pa_group_keys', [a, b, 0], 'c08/key forms/%d-%d' % (a, b)))
    # the same with group objects that pass other flag sets on to their member handlers / a third handler in between
    for gmode in (1, 2, 4, 5, 6):
        for a, b in ((0, 0), (1, 1), (2, 3), (2, 4), (0, 5), (2, 7), (1, 8), (0, 9)):
            shapes.append(('hx_pa_group_keys', [a, b, gmode], 'c08/key forms/%d-%d/group mode %d' % (a, b, gmode)))
    for m in (0, 1, 2, 3, 4, 5, 8, 9, 10, 11, 12, 13):
        shapes.append(('hx_pa_group_subkey', [m, 0], 'c08/sub-group key in another member handler/%d' % m))
    shapes.append(('hx_pa_group_dup', [0, 0], 'c08/duplicate key short'))
    shapes.append(('hx_pa_group_dup', [1, 0], 'c08/duplicate key long'))
    shapes.append(('hx_pa_group_dup', [2, 0], 'c08/distinct keys'))
    return shapes


def c18_shapes(tier):
    shapes = []
    for nargs in (1, 2, 3):
        for display in range(12):
            if tier == 'quick' and nargs == 3 and display not in (0, 3, 4, 8):
                continue
            shapes.append(('hx_usage', [nargs, display], 'c18/usage/args%d/hidden%d/deprecated%d/%s' % (nargs, display & 1, (display >> 1) & 1, ('all', 'short', 'long')[display >> 2])))
    for display in range(4):
        shapes.append(('hx_usage_long', [display, 0], 'c18/usage-two-line/hidden%d/deprecated%d' % (display & 1, (display >> 1) & 1)))
    for k in range(6):
        shapes.append(('hx_help_arg', [k, 0], 'c18/help-arg/%d' % k))
    for k in range(6):
        shapes.append(('hx_help_arg_group', [k, 0], 'c18/help-arg-group/%d' % k))
    for bflags in range(8):
        shapes.append(('hx_usage_extras', [bflags, 0], 'c18/usage-extras/b%d' % bflags))
    shapes.append(('hx_usage_nodesc', [0, 0], 'c18/usage-empty-description'))
    for sd in (0, 1):
        shapes.append(('hx_usage_positional', [sd, 0], 'c18/usage-positional/deprecated%d' % sd))
    for base in ((72,) if tier == 'quick' else (60, 72, 90)):
        shapes.append(('hx_usage_layout2', [base, 0], 'c18/usage-layout-second-print/len%d' % base))
    # the usage printed a second time with other display settings
    for nargs, display in ((2, 4), (2, 8), (3, 4), (3, 8), (3, 0), (1, 5), (2, 10)):
        shapes.append(('hx_usage', [nargs, display | 16], 'c18/usage-second-print/args%d/hidden%d/deprecated%d/%s' % (nargs, display & 1, (display >> 1) & 1, ('all', 'short', 'long')[display >> 2])))
    for k in range(6):
        for order in (0, 1):
            shapes.append(('hx_help_arg_prefix', [k, order], 'c18/help-arg-prefix/%d/order%d' % (k, order)))
    for base in ((60,) if tier == 'quick' else (60, 68, 76, 100, 232)):
        for variant in range(4):
            shapes.append(('hx_usage_wrap', [base, variant], 'c18/usage-wrap/len%d/v%d' % (base, variant)))
    return shapes


WIDE_PROPS = ('C02', 'C03', 'C05', 'C06', 'C07', 'C08')


def widened(shapes):
    """thorough tier: every shape whose values are plain digit / string slots once more with every such slot one byte longer
    (d1..d3 -> d2..d4, s2/s3 -> s3/s4); the expectation refers to the slots by index and stays the same.  Shapes with range slots (r, z, a, b) and the
    configurations with length / pattern checks on the values (cfg 1, 16) are left out - their verdict depends on the number of bytes."""
    out = []
    for sh in shapes:
        if len(sh) < 4 or 'pa_tmpl' not in sh[3] or re.search(r'cfg(1|16)\b|pattern', sh[2]):      # cfg 1 / 16: length and pattern checks on the values
            continue
        head, slots, rest = sh[3]['pa_tmpl'].split(b'\n', 2)
        sl = slots.decode().split()
        if not sl or not all(re.fullmatch(r'[ds][1-3]', x) for x in sl):
            continue
        wide = ' '.join('%s%d' % (x[0], int(x[1]) + 1) for x in sl).encode()
        d = dict(sh[3]); d['pa_tmpl'] = head + b'\n' + wide + b'\n' + rest
        out.append((sh[0], sh[1], sh[2] + ' /wide', d))
    return out


def build_unit(name, shapes, tier, bounds):
    return E2Unit(name, os.path.join(HERE, 'w_usage.cpp' if name.endswith('C18') else 'w_pa.cpp'), lib_srcs=lib_srcs(), shapes=shapes, timeout=900 if tier == 'quick' else 2400,
                  max_steps=4000000, conc_cap=300, bounds=bounds, validate_vectors=10)


def classify(v):
    return v['msg'] if v['kind'] == 'assert' else v['kind'] + ': ' + re.sub(r'0x[0-9a-f]+', 'ADDR', re.sub(r'\d+', 'N', v['msg']))[:110]


ASSUME = ['IR of the unmodified library sources (clang++-14 -O1 -D_GLIBCXX_ASSERTIONS -DNDEBUG), libstdc++/boost header code included',
          'environment models: std::locale = classic, allocation never fails, iostream sinks discard/record',
          'irsym executor (validated per run against the native build on concrete vectors)',
          'values: integers of 1-3 decimal digits, strings of 2-3 bytes (thorough tier, widened family: up to 4 digits / 4 bytes) from the printable set without - = , ! [ ] ; quotes backslash #; floating point destinations not covered']


def main(prop, tier, only=None):
    gens = dict(C01=c01_shapes, C02=c02_shapes, C03=c03_shapes, C04=c04_shapes, C05=c05_shapes, C06=c06_shapes, C07=c07_shapes, C08=c08_shapes, C18=c18_shapes)
    shapes = gens[prop](tier)
    if tier != 'quick' and prop in WIDE_PROPS:
        shapes = shapes + widened(shapes)
    if only:
        shapes = [s for s in shapes if re.search(only, s[2])]
    u = build_unit('prog_args_' + prop, shapes, tier, dict(handler='fixed configuration family (see w_pa.cpp)', values='symbolic', shapes=len(shapes)))
    rule = ('one obligation = one shape (handler configuration, spelling/order/mutation of the command line); inside a shape every value byte is symbolic and z3 decides '
            'every branch, memory access and assertion; non-trivial = at least one path reaches the end of the harness')

    def keyfn(u_, r, v, cls):
        # the definition order / flag part of C05 labels is not part of a finding's identity
        return '%s:%s|%s' % (prop, re.sub(r'/p\d/f\d/', '/', r['label']), cls)
    return run_e2(prop, tier, [u], rule, ASSUME, classify=classify, keyfn=keyfn)


if __name__ == '__main__':
    import argparse
    ap = argparse.ArgumentParser(); ap.add_argument('prop'); ap.add_argument('--tier', default=os.environ.get('VERIF_TIER', 'quick')); ap.add_argument('--only')
    a = ap.parse_args()
    if getattr(a, 'only', None) or getattr(a, 'caps', None):
        os.environ['VERIF_PARTIAL'] = '1'
    sys.exit(guarded_main(lambda: main(a.prop, a.tier, a.only)))
