// Validates the C reference model (ref_model.h) used as oracle for C11 against the real std::string
// on random operations.  Run natively at the start of every C11 check.
#include <cstdio>
#include <cstdlib>
#include <cstring>
#include <string>
#define RMAX 64
extern "C" {
#include "ref_model.h"
}
static unsigned long rs = 12345;
static unsigned rnd(unsigned n) { rs = rs * 6364136223846793005ul + 1442695040888963407ul; return (unsigned) ((rs >> 33) % n); }
static std::string rstr(unsigned maxlen) { std::string s; unsigned n = rnd(maxlen + 1); for (unsigned i = 0; i < n; ++i) s += (char) ("abc\x01\xff"[rnd(5)]); return s; }
static int sgn(int v) { return v < 0 ? -1 : v > 0 ? 1 : 0; }
int main(int argc, char** argv) {
   if (argc > 1) rs = strtoul(argv[1], nullptr, 0);
   long checked = 0;
   for (int it = 0; it < 200000; ++it) {
      std::string s = rstr(12), t = rstr(8);
      ref_t r; r.len = s.size(); memcpy(r.d, s.data(), s.size());
      const uint8_t* td = (const uint8_t*) t.data();
      size_t pos = rnd(s.size() + 1), n = rnd(4) == 0 ? (size_t) -1 : rnd(14), pos2 = rnd(t.size() + 1), n2 = rnd(4) == 0 ? (size_t) -1 : rnd(10);
      size_t anypos = rnd(3) == 0 ? (size_t) -1 - rnd(2) : rnd(16);
      // replace
      { std::string e = s; e.replace(pos, n, t); ref_t q = r; ref_replace(&q, pos, n, td, t.size());
        if (q.len != e.size() || memcmp(q.d, e.data(), e.size())) { printf("MISMATCH replace\n"); return 1; } }
      // compare
      if (sgn(s.compare(pos, n, t, pos2, n2)) != ref_compare(&r, pos, n, td, t.size(), pos2, n2)) { printf("MISMATCH compare\n"); return 1; }
      // find family
      if (s.find(t, anypos) != ref_find(&r, td, t.size(), anypos)) { printf("MISMATCH find\n"); return 1; }
      if (s.rfind(t, anypos) != ref_rfind(&r, td, t.size(), anypos)) { printf("MISMATCH rfind\n"); return 1; }
      if (s.find_first_of(t, anypos) != ref_find_first(&r, td, t.size(), anypos, 1)) { printf("MISMATCH find_first_of\n"); return 1; }
      if (s.find_first_not_of(t, anypos) != ref_find_first(&r, td, t.size(), anypos, 0)) { printf("MISMATCH find_first_not_of\n"); return 1; }
      if (s.find_last_of(t, anypos) != ref_find_last(&r, td, t.size(), anypos, 1)) { printf("MISMATCH find_last_of\n"); return 1; }
      if (s.find_last_not_of(t, anypos) != ref_find_last(&r, td, t.size(), anypos, 0)) { printf("MISMATCH find_last_not_of\n"); return 1; }
      checked += 8;
   }
   printf("OK %ld\n", checked);
   return 0;
}
