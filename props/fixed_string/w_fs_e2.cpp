// E2 harnesses for C10/C11: the std::string overloads of FixedString<CAP>, at() and the members that build
// std::string objects (str, substr) - the real std::string is the oracle (executed by the same engine).
#include "vs.h"
#include "celma/common/fixed_string.hpp"
#include <sstream>
#include <string>
#ifndef CAP
#define CAP 4
#endif
using FS = celma::common::FixedString<CAP>;
namespace {
// arbitrary valid FixedString: symbolic length <= CAP, symbolic non-NUL bytes
#if CAP > 16
// large capacities (around the switch of the internal length type from 8 to 16 bits): length CAP-3 .. CAP,
// filler content with the last four characters symbolic
void mk(FS& f, std::string& ref, const char* name) {
   unsigned short len = (unsigned short) (CAP - (vs_u8("len") & 3));
   char b[CAP + 1]; std::memset(b, 'x', CAP);
   vs_sym(b + CAP - 4, 4, name);
   for (unsigned i = CAP - 4; i < CAP; ++i) vs_assume(b[i] != 0);
   b[len] = 0;
   f.assign(b); ref.assign(b, len);
}
#else
void mk(FS& f, std::string& ref, const char* name) {
   unsigned len = vs_u8("len"); vs_assume(len <= CAP);
   char b[CAP + 1]; vs_sym(b, CAP, name);
   for (unsigned i = 0; i < CAP; ++i) vs_assume(b[i] != 0);
   b[len] = 0;
   f.assign(b); ref.assign(b, len);
}
#endif
std::string mk_str(unsigned maxlen, const char* name) {
   unsigned len = vs_u8("slen"); vs_assume(len <= maxlen);
   char b[8]; vs_sym(b, maxlen, name);
   for (unsigned i = 0; i < maxlen; ++i) vs_assume(b[i] != 0);
   return std::string(b, len);
}
std::string cut(const std::string& s) { return s.size() > CAP ? s.substr(0, CAP) : s; }
void same(const FS& f, const std::string& want, const char* what) {
   vs_assert(f.length() <= CAP, "C10 length <= capacity");
   vs_assert(f.c_str()[f.length()] == 0, "C10 NUL at length");
   vs_assert(std::strlen(f.c_str()) == f.length(), "C10 no NUL character was stored: the length equals the C string length of the buffer");
   std::string w = cut(want);
   vs_assert(f.length() == w.size() && std::memcmp(f.c_str(), w.data(), w.size()) == 0, what);
}
int sgn(int v) { return v < 0 ? -1 : v > 0 ? 1 : 0; }
}
// op: see the switch.  All positions are symbolic; `domain` != 0 restricts them to the documented domain (C11),
// otherwise they are unconstrained 64-bit values (C10: memory safety + invariant only)
HX void hx_fs_str(uint64_t op, uint64_t domain) {
   FS f; std::string ref; mk(f, ref, "fs");
   std::string s = mk_str(3, "str");
   size_t p = vs_u64("pos"), n = vs_u64("cnt"), p2 = vs_u64("pos2"), n2 = vs_u64("cnt2");
   if (domain) vs_assume(p <= ref.size() && p2 <= s.size());
#if CAP > 16
   // large capacities: positions near both ends (the middle is filler) or huge, counts 0..3 or huge
   vs_assume(p <= 2 || (p + 6 >= ref.size() && p <= ref.size() + 2) || p >= (size_t) -2);
   vs_assume(n <= 3 || n >= (size_t) -2); vs_assume(n2 <= 3 || n2 >= (size_t) -2); vs_assume(p2 <= 4 || p2 >= (size_t) -2);
#endif
   switch (op) {
   case 0: { FS g(s); same(g, s, "C11 FixedString(std::string)"); break; }
   case 1: f.assign(s); same(f, s, "C11 assign(std::string)"); break;
   case 2: f = s; same(f, s, "C11 operator=(std::string)"); break;
   case 3: f.append(s); if (domain) same(f, ref + s, "C11 append(std::string)"); else same(f, std::string(f.c_str()), "C10"); break;
   case 4: f += s; if (domain) same(f, ref + s, "C11 operator+=(std::string)"); else same(f, std::string(f.c_str()), "C10"); break;
   case 5: f.append(s, p2, n2); if (domain) same(f, ref + s.substr(p2, n2), "C11 append(std::string,pos,count)"); else same(f, std::string(f.c_str()), "C10"); break;
   case 6: f.insert(p, s); if (domain) same(f, std::string(ref).insert(p, s), "C11 insert(index,std::string)"); else same(f, std::string(f.c_str()), "C10"); break;
   case 7: f.insert(p, s, p2, n2); if (domain) same(f, std::string(ref).insert(p, s, p2, n2), "C11 insert(index,std::string,index_str,count)"); else same(f, std::string(f.c_str()), "C10"); break;
   case 8: f.replace(p, n, s); if (domain) same(f, std::string(ref).replace(p, n, s), "C11 replace(pos,count,std::string)"); else same(f, std::string(f.c_str()), "C10"); break;
   case 9: f.replace(p, n, s, p2, n2); if (domain) same(f, std::string(ref).replace(p, n, s, p2, n2), "C11 replace(pos,count,std::string,pos2,count2)"); else same(f, std::string(f.c_str()), "C10"); break;
   case 10: { int r = f.compare(s); if (domain) vs_assert(sgn(r) == sgn(ref.compare(s)), "C11 compare(std::string)"); break; }
   case 11: { int r = f.compare(p, n, s); if (domain) vs_assert(sgn(r) == sgn(ref.compare(p, n, s)), "C11 compare(pos,count,std::string)"); break; }
   case 12: { int r = f.compare(p, n, s, p2, n2); if (domain) vs_assert(sgn(r) == sgn(ref.compare(p, n, s, p2, n2)), "C11 compare(pos,count,std::string,pos2,count2)"); break; }
   case 13: { bool r = f.starts_with(s); if (domain) vs_assert(r == (ref.compare(0, s.size(), s) == 0 && s.size() <= ref.size()), "C11 starts_with(std::string)"); break; }
   case 14: { bool r = f.ends_with(s); if (domain) vs_assert(r == (s.size() <= ref.size() && ref.compare(ref.size() - s.size(), s.size(), s) == 0), "C11 ends_with(std::string)"); break; }
   case 15: { bool r = f.contains(s); if (domain) vs_assert(r == (!s.empty() && ref.find(s) != std::string::npos), "C11 contains(std::string) (empty search string: false, as pinned by the unit tests)"); break; }
   case 16: { size_t r = f.find(s, p); if (domain) vs_assert(r == (s.empty() ? std::string::npos : ref.find(s, p)), "C11 find(std::string,pos)"); break; }
   case 17: { size_t r = f.rfind(s, p); if (domain) { vs_assume(p < ref.size()); vs_assert(r == (s.empty() ? std::string::npos : ref.rfind(s, p)), "C11 rfind(std::string,pos)"); } break; }
   case 18: { size_t r = f.find_first_of(s, p); if (domain) vs_assert(r == ref.find_first_of(s, p), "C11 find_first_of(std::string,pos)"); break; }
   case 19: { size_t r = f.find_first_not_of(s, p); if (domain) vs_assert(r == (s.empty() ? std::string::npos : ref.find_first_not_of(s, p)), "C11 find_first_not_of(std::string,pos)"); break; }
   case 20: { size_t r = f.find_last_of(s, p); if (domain) { vs_assume(p < ref.size()); vs_assert(r == ref.find_last_of(s, p), "C11 find_last_of(std::string,pos)"); } break; }
   case 21: { size_t r = f.find_last_not_of(s, p); if (domain) { vs_assume(p < ref.size()); vs_assert(r == (s.empty() ? std::string::npos : ref.find_last_not_of(s, p)), "C11 find_last_not_of(std::string,pos)"); } break; }
   case 22: { std::string r = f.str(); vs_assert(r == ref, "C11 str()"); break; }
   case 23: { std::string r = f.substr(p, n); if (domain) { vs_assume(p < ref.size() || true); vs_assert(r == (p >= ref.size() ? std::string() : ref.substr(p, n)), "C11 substr(pos,count)"); } else vs_assert(r.size() <= CAP, "C10 substr stays inside the string"); break; }
   case 24: {          // at(): value or std::out_of_range, whatever the index
      vs_assume(p <= 12 || p >= (size_t) -2);      // the exception text formats the index: bounded set of indices (incl. SIZE_MAX)
      int rc = 0; char c = 0;
      try { c = f.at(p); } catch (const std::out_of_range&) { rc = 1; } catch (...) { rc = 2; }
      vs_assert(rc != 2, "C10 at(): only std::out_of_range may be thrown");
      if (p < ref.size()) vs_assert(rc == 0 && c == ref[p], "C11 at(i < length) returns the character");
      else if (p > ref.size()) vs_assert(rc == 1, "C11 at(i > length) throws std::out_of_range");
      break; }
   case 25: { std::ostringstream os; os << f; vs_assert(os.str() == ref, "C11 stream output equals the content"); break; }
   }
   if (op >= 10) same(f, ref, "C10 observers leave the string unchanged");
}

// the core (non std::string) operations at capacities around the switch of the internal length type (255/256, 65535/65536):
// state = length CAP-3..CAP with a symbolic tail, positions near both ends or huge, counts 0..3, CAP-1..CAP+2 or huge;
// oracle = the same operation on a std::string, cut at the capacity.  domain != 0: documented domain (pos <= length)
namespace {
// content is concrete here (filler, distinct last characters): lengths, positions and counts are what is symbolic
void mk_len(FS& f, std::string& ref, char tail) {
   unsigned short len = (unsigned short) (CAP - (vs_u8("len") & 3));
   char b[CAP + 1]; std::memset(b, 'x', CAP);
   for (unsigned i = 0; i < 4 && i < CAP; ++i) b[CAP - 1 - i] = (char) (tail + i);
   b[len] = 0;
   f.assign(b); ref.assign(b, len);
}
}
HX void hx_fs_core(uint64_t op, uint64_t domain) {
   FS f; std::string ref; mk_len(f, ref, 'p');
   const bool uses_p = (0x78fc0u >> op) & 1, uses_n = (0x48f4au >> op) & 1, uses_n2 = op == 11;      // ops 6-11,15-18 / 1,3,6,8-11,15,18
   size_t p = uses_p ? vs_u64("pos") : 0, n = uses_n ? vs_u64("cnt") : 0, n2 = uses_n2 ? vs_u64("cnt2") : 0;
   const unsigned char ch = 'q';
   char src[4] = {'a', 'b', 'c', 0};
   unsigned sl = vs_u8("slen"); vs_assume(sl <= 3); src[sl] = 0;
   const std::string s(src);
   if (op == 3 || op == 8) vs_assume(n <= s.size());       // the caller promises `count` readable characters
   if (domain && uses_p) vs_assume(p <= ref.size());
   // positions near both ends or huge, counts 0..3, CAP-1..CAP+2 or huge (bitwise | : one solver constraint, no path split)
   if (uses_p) vs_assume((int) (p <= 2) | (int) ((p + 6 >= ref.size()) & (p <= ref.size() + 2)) | (int) (p >= (size_t) -2));
   if (uses_n) vs_assume((int) (n <= 3) | (int) ((n + 1 >= (size_t) CAP) & (n <= (size_t) CAP + 2)) | (int) (n >= (size_t) -2));
   if (uses_n2) vs_assume((int) (n2 <= 3) | (int) ((n2 + 1 >= (size_t) CAP) & (n2 <= (size_t) CAP + 2)) | (int) (n2 >= (size_t) -2));
   auto cap_n = [](size_t k) { return k > (size_t) CAP + 2 ? (size_t) CAP + 2 : k; };      // counts beyond the capacity all behave alike for the oracle
   switch (op) {
   case 0: f.assign(src); same(f, s, "C11 assign(const char*)"); break;
   case 1: f.append(n, (char) ch); if (domain) same(f, ref + std::string(cap_n(n), (char) ch), "C11 append(count,ch)"); else same(f, std::string(f.c_str()), "C10"); break;
   case 2: f.append(src); same(f, ref + s, "C11 append(const char*)"); break;
   case 3: f.append(src, n); if (domain) same(f, ref + s.substr(0, n), "C11 append(const char*,count)"); else same(f, std::string(f.c_str()), "C10"); break;
   case 4: f.push_back((char) ch); same(f, ref + (char) ch, "C11 push_back"); break;
   case 5: f.pop_back(); same(f, ref.empty() ? ref : ref.substr(0, ref.size() - 1), "C11 pop_back"); break;
   case 6: f.insert(p, n, (char) ch); if (domain) same(f, std::string(ref).insert(p, cap_n(n), (char) ch), "C11 insert(index,count,ch)"); else same(f, std::string(f.c_str()), "C10"); break;
   case 7: f.insert(p, src); if (domain) same(f, std::string(ref).insert(p, s), "C11 insert(index,const char*)"); else same(f, std::string(f.c_str()), "C10"); break;
   case 8: f.insert(p, src, n); if (domain) same(f, std::string(ref).insert(p, s, 0, n), "C11 insert(index,const char*,count)"); else same(f, std::string(f.c_str()), "C10"); break;
   case 9: f.erase(p, n); if (domain) same(f, std::string(ref).erase(p, n), "C11 erase(index,count)"); else same(f, std::string(f.c_str()), "C10"); break;
   case 10: f.replace(p, n, src); if (domain) same(f, std::string(ref).replace(p, n, s), "C11 replace(pos,count,const char*)"); else same(f, std::string(f.c_str()), "C10"); break;
   case 11: f.replace(p, n, n2, (char) ch); if (domain) same(f, std::string(ref).replace(p, n, cap_n(n2), (char) ch), "C11 replace(pos,count,count2,ch)"); else same(f, std::string(f.c_str()), "C10"); break;
   case 12: { FS g; std::string gref; mk_len(g, gref, 'A'); f.swap(g); same(f, gref, "C11 swap"); same(g, ref, "C11 swap"); break; }
   case 13: { FS g; std::string gref; mk_len(g, gref, 'A'); f.append(g); same(f, ref + gref, "C11 append(FixedString)"); break; }
   case 14: { FS g(f); same(g, ref, "C11 copy construction"); FS h; h = f; same(h, ref, "C11 copy assignment"); break; }
   case 15: { char dest[8]; std::memset(dest, '#', sizeof dest); vs_assume(n <= 6); size_t r = f.copy(dest, n, p);
              if (domain && p <= ref.size()) { std::string w = ref.substr(p, n); vs_assert(r == w.size() && std::memcmp(dest, w.data(), r) == 0, "C11 copy(dest,count,pos)"); }
              vs_assert(dest[6] == '#' && dest[7] == '#' && (r <= 6), "C10 copy() writes at most count characters");
              same(f, ref, "C10 observers leave the string unchanged"); break; }
   case 16: { size_t r = f.find((char) ch, p); if (domain) vs_assert(r == ref.find((char) ch, p), "C11 find(ch,pos)"); same(f, ref, "C10 observers leave the string unchanged"); break; }
   case 17: { size_t r = f.rfind((char) ch, p); if (domain) { vs_assume(p < ref.size()); vs_assert(r == ref.rfind((char) ch, p), "C11 rfind(ch,pos)"); } same(f, ref, "C10 observers leave the string unchanged"); break; }
   case 18: { int r = f.compare(p, n, src); if (domain) vs_assert(sgn(r) == sgn(ref.compare(p, n, s)), "C11 compare(pos,count,const char*)"); same(f, ref, "C10 observers leave the string unchanged"); break; }
   case 19: { f.clear(); same(f, "", "C11 clear"); f.append(src); same(f, s, "C11 append after clear"); break; }
   case 20: { size_t k = 0; std::string seen; for (auto it = f.begin(); it != f.end() && k <= (size_t) CAP; ++it, ++k) if (k + 4 >= ref.size()) seen += *it;
              vs_assert(k == ref.size() && seen == ref.substr(ref.size() >= 4 ? ref.size() - 4 : 0), "C11 forward iteration visits exactly the characters");
              k = 0; char first = 0; for (auto it = f.rbegin(); it != f.rend() && k <= (size_t) CAP; ++it, ++k) if (k == 0) first = *it;
              vs_assert(k == ref.size() && (ref.empty() || first == ref.back()), "C11 reverse iteration visits exactly the characters"); break; }
   }
}

// long std::string arguments (lengths around 256 / 65536, where the internal 8/16-bit length type would wrap):
// the first CAP+1 characters are symbolic, the rest is filler.  Driver passes the concrete source length.
HX void hx_fs_long(uint64_t op, uint64_t srclen) {
   FS f; std::string ref; mk(f, ref, "fs");
   std::string s(srclen, 'x');
   char b[CAP + 1]; vs_sym(b, CAP + 1, "str");
   for (unsigned i = 0; i <= CAP; ++i) { vs_assume(b[i] != 0); s[i] = b[i]; }
   switch (op) {
   case 0: { FS g(s); same(g, s, "C11 FixedString(std::string) (long source)"); break; }
   case 1: f.assign(s); same(f, s, "C11 assign(std::string) (long source)"); break;
   case 2: f = s; same(f, s, "C11 operator=(std::string) (long source)"); break;
   case 3: f.append(s); same(f, ref + s, "C11 append(std::string) (long source)"); break;
   case 4: f += s; same(f, ref + s, "C11 operator+=(std::string) (long source)"); break;
   case 5: f.insert(0, s); same(f, s + ref, "C11 insert(0,std::string) (long source)"); break;
   case 6: f.replace(0, 1, s); same(f, std::string(ref).replace(0, 1, s), "C11 replace(0,1,std::string) (long source)"); break;
   case 7: { int r = f.compare(s); vs_assert(sgn(r) == sgn(ref.compare(s)), "C11 compare(std::string) (long source)"); break; }
   case 8: { vs_assert(!f.starts_with(s) && !f.ends_with(s) && !f.contains(s) && f.find(s) == std::string::npos, "C11 a longer string is never found (long source)"); break; }
   case 9: { size_t n2 = vs_u64("cnt2"); f.append(s, srclen - 2, n2); same(f, ref + s.substr(srclen - 2, n2), "C11 append(std::string,pos,count) (long source)"); break; }
   }
   if (op >= 7 && op <= 8) same(f, ref, "C10 observers leave the string unchanged");
}

// sprintf(): formatted content (truncated to the capacity), and the failing conversion (vsnprintf() < 0)
HX void hx_fs_sprintf(uint64_t mode) {
   FS f; std::string ref; mk(f, ref, "fs");
   std::string a = mk_str(3, "str"), b = mk_str(2, "str2");
   switch (mode) {
   case 0: f.sprintf("%s", a.c_str()); same(f, a, "C11 sprintf(%s)"); break;
   case 1: f.sprintf("%s-%s", a.c_str(), b.c_str()); same(f, a + "-" + b, "C11 sprintf(%s-%s)"); break;
   case 2: f.sprintf("%d:%s", 42, a.c_str()); same(f, "42:" + a, "C11 sprintf(%d:%s)"); break;
   case 3: f.sprintf("x"); same(f, "x", "C11 sprintf(constant)"); break;
   case 4: { static const wchar_t wide[] = { 0xe9, 0x4e2d, 0 };          // not convertible in the "C" locale: vsnprintf() fails
      f.sprintf("%ls", wide);
      vs_assert(f.length() <= CAP, "C10 length <= capacity");
      vs_assert(f.c_str()[f.length()] == 0, "C10 NUL at length");
      vs_assert(std::strlen(f.c_str()) == f.length(), "C10 length equals the C string length after a failed sprintf()");
      break; }
   }
}
