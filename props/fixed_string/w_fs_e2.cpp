// E2 harnesses for C10/C11: the std::string overloads of FixedString<CAP>, at() and the members that build
// std::string objects (str, substr) - the real std::string is the oracle (executed by the same engine).
#include "vs.h"
#include "celma/common/fixed_string.hpp"
#include <sstream>
#include <string>
#ifndef CAP
#define CAP 4
#endif
using FS = celma::common::FixedString<CAP>;
namespace {
// arbitrary valid FixedString: symbolic length <= CAP, symbolic non-NUL bytes
#if CAP > 16
// large capacities (around the switch of the internal length type from 8 to 16 bits): length CAP-3 .. CAP,
// filler content with the last four characters symbolic
void mk(FS& f, std::string& ref, const char* name) {
   unsigned short len = (unsigned short) (CAP - (vs_u8("len") & 3));
   char b[CAP + 1]; std::memset(b, 'x', CAP);
   vs_sym(b + CAP - 4, 4, name);
   for (unsigned i = CAP - 4; i < CAP; ++i) vs_assume(b[i] != 0);
   b[len] = 0;
   f.assign(b); ref.assign(b, len);
}
#else
void mk(FS& f, std::string& ref, const char* name) {
   unsigned len = vs_u8("len"); vs_assume(len <= CAP);
   char b[CAP + 1]; vs_sym(b, CAP, name);
   for (unsigned i = 0; i < CAP; ++i) vs_assume(b[i] != 0);
   b[len] = 0;
   f.assign(b); ref.assign(b, len);
}
#endif
std::string mk_str(unsigned maxlen, const char* name) {
   unsigned len = vs_u8("slen"); vs_assume(len <= maxlen);
   char b[8]; vs_sym(b, maxlen, name);
   for (unsigned i = 0; i < maxlen; ++i) vs_assume(b[i] != 0);
   return std::string(b, len);
}
std::string cut(const std::string& s) { return s.size() > CAP ? s.substr(0, CAP) : s; }
void same(const FS& f, const std::string& want, const char* what) {
   vs_assert(f.length() <= CAP, "C10 length <= capacity");
   vs_assert(f.c_str()[f.length()] == 0, "C10 NUL at length");
   vs_assert(std::strlen(f.c_str()) == f.length(), "C10 no NUL character was stored: the length equals the C string length of the buffer");
   std::string w = cut(want);
   vs_assert(f.length() == w.size() && std::memcmp(f.c_str(), w.data(), w.size()) == 0, what);
}
int sgn(int v) { return v < 0 ? -1 : v > 0 ? 1 : 0; }
}
// op: see the switch.  All positions are symbolic; `domain` != 0 restricts them to the documented domain (C11),
// otherwise they are unconstrained 64-bit values (C10: memory safety + invariant only)
HX void hx_fs_str(uint64_t op, uint64_t domain) {
   FS f; std::string ref; mk(f, ref, "fs");
   std::string s = mk_str(3, "str");
   size_t p = vs_u64("pos"), n = vs_u64("cnt"), p2 = vs_u64("pos2"), n2 = vs_u64("cnt2");
   if (domain) vs_assume(p <= ref.size() && p2 <= s.size());
#if CAP > 16
   // large capacities: positions near both ends (the middle is filler) or huge, counts 0..3 or huge
   vs_assume(p <= 2 || (p + 6 >= ref.size() && p <= ref.size() + 2) || p >= (size_t) -2);
   vs_assume(n <= 3 || n >= (size_t) -2); vs_assume(n2 <= 3 || n2 >= (size_t) -2); vs_assume(p2 <= 4 || p2 >= (size_t) -2);
#endif
   switch (op) {
   case 0: { FS g(s); same(g, s, "C11 FixedString(std::string)"); break; }
   case 1: f.assign(s); same(f, s, "C11 assign(std::string)"); break;
   case 2: f = s; same(f, s, "C11 operator=(std::string)"); break;
   case 3: f.append(s); if (domain) same(f, ref + s, "C11 append(std::string)"); else same(f, std::string(f.c_str()), "C10"); break;
   case 4: f += s; if (domain) same(f, ref + s, "C11 operator+=(std::string)"); else same(f, std::string(f.c_str()), "C10"); break;
   case 5: f.append(s, p2, n2); if (domain) same(f, ref + s.substr(p2, n2), "C11 append(std::string,pos,count)"); else same(f, std::string(f.c_str()), "C10"); break;
   case 6: f.insert(p, s); if (domain) same(f, std::string(ref).insert(p, s), "C11 insert(index,std::string)"); else same(f, std::string(f.c_str()), "C10"); break;
   case 7: f.insert(p, s, p2, n2); if (domain) same(f, std::string(ref).insert(p, s, p2, n2), "C11 insert(index,std::string,index_str,count)"); else same(f, std::string(f.c_str()), "C10"); break;
   case 8: f.replace(p, n, s); if (domain) same(f, std::string(ref).replace(p, n, s), "C11 replace(pos,count,std::string)"); else same(f, std::string(f.c_str()), "C10"); break;
   case 9: f.replace(p, n, s, p2, n2); if (domain) same(f, std::string(ref).replace(p, n, s, p2, n2), "C11 replace(pos,count,std::string,pos2,count2)"); else same(f, std::string(f.c_str()), "C10"); break;
   case 10: { int r = f.compare(s); if (domain) vs_assert(sgn(r) == sgn(ref.compare(s)), "C11 compare(std::string)"); break; }
   case 11: { int r = f.compare(p, n, s); if (domain) vs_assert(sgn(r) == sgn(ref.compare(p, n, s)), "C11 compare(pos,count,std::string)"); break; }
   case 12: { int r = f.compare(p, n, s, p2, n2); if (domain) vs_assert(sgn(r) == sgn(ref.compare(p, n, s, p2, n2)), "C11 compare(pos,count,std::string,pos2,count2)"); break; }
   case 13: { bool r = f.starts_with(s); if (domain) vs_assert(r == (ref.compare(0, s.size(), s) == 0 && s.size() <= ref.size()), "C11 starts_with(std::string)"); break; }
   case 14: { bool r = f.ends_with(s); if (domain) vs_assert(r == (s.size() <= ref.size() && ref.compare(ref.size() - s.size(), s.size(), s) == 0), "C11 ends_with(std::string)"); break; }
   case 15: { bool r = f.contains(s); if (domain) vs_assert(r == (!s.empty() && ref.find(s) != std::string::npos), "C11 contains(std::string) (empty search string: false, as pinned by the unit tests)"); break; }
   case 16: { size_t r = f.find(s, p); if (domain) vs_assert(r == (s.empty() ? std::string::npos : ref.find(s, p)), "C11 find(std::string,pos)"); break; }
   case 17: { size_t r = f.rfind(s, p); if (domain) { vs_assume(p < ref.size()); vs_assert(r == (s.empty() ? std::string::npos : ref.rfind(s, p)), "C11 rfind(std::string,pos)"); } break; }
   case 18: { size_t r = f.find_first_of(s, p); if (domain) vs_assert(r == ref.find_first_of(s, p), "C11 find_first_of(std::string,pos)"); break; }
   case 19: { size_t r = f.find_first_not_of(s, p); if (domain) vs_assert(r == (s.empty() ? std::string::npos : ref.find_first_not_of(s, p)), "C11 find_first_not_of(std::string,pos)"); break; }
   case 20: { size_t r = f.find_last_of(s, p); if (domain) { vs_assume(p < ref.size()); vs_assert(r == ref.find_last_of(s, p), "C11 find_last_of(std::string,pos)"); } break; }
   case 21: { size_t r = f.find_last_not_of(s, p); if (domain) { vs_assume(p < ref.size()); vs_assert(r == (s.empty() ? std::string::npos : ref.find_last_not_of(s, p)), "C11 find_last_not_of(std::string,pos)"); } break; }
   case 22: { std::string r = f.str(); vs_assert(r == ref, "C11 str()"); break; }
   case 23: { std::string r = f.substr(p, n); if (domain) { vs_assume(p < ref.size() || true); vs_assert(r == (p >= ref.size() ? std::string() : ref.substr(p, n)), "C11 substr(pos,count)"); } else vs_assert(r.size() <= CAP, "C10 substr stays inside the string"); break; }
   case 24: {          // at(): value or std::out_of_range, whatever the index
      vs_assume(p <= 12 || p >= (size_t) -2);      // the exception text formats the index: bounded set of indices (incl. SIZE_MAX)
      int rc = 0; char c = 0;
      try { c = f.at(p); } catch (const std::out_of_range&) { rc = 1; } catch (...) { rc = 2; }
      vs_assert(rc != 2, "C10 at(): only std::out_of_range may be thrown");
      if (p < ref.size()) vs_assert(rc == 0 && c == ref[p], "C11 at(i < length) returns the character");
      else if (p > ref.size()) vs_assert(rc == 1, "C11 at(i > length) throws std::out_of_range");
      break; }
   case 25: { std::ostringstream os; os << f; vs_assert(os.str() == ref, "C11 stream output equals the content"); break; }
   }
   if (op >= 10) same(f, ref, "C10 observers leave the string unchanged");
}

// long std::string arguments (lengths around 256 / 65536, where the internal 8/16-bit length type would wrap):
// the first CAP+1 characters are symbolic, the rest is filler.  Driver passes the concrete source length.
HX void hx_fs_long(uint64_t op, uint64_t srclen) {
   FS f; std::string ref; mk(f, ref, "fs");
   std::string s(srclen, 'x');
   char b[CAP + 1]; vs_sym(b, CAP + 1, "str");
   for (unsigned i = 0; i <= CAP; ++i) { vs_assume(b[i] != 0); s[i] = b[i]; }
   switch (op) {
   case 0: { FS g(s); same(g, s, "C11 FixedString(std::string) (long source)"); break; }
   case 1: f.assign(s); same(f, s, "C11 assign(std::string) (long source)"); break;
   case 2: f = s; same(f, s, "C11 operator=(std::string) (long source)"); break;
   case 3: f.append(s); same(f, ref + s, "C11 append(std::string) (long source)"); break;
   case 4: f += s; same(f, ref + s, "C11 operator+=(std::string) (long source)"); break;
   case 5: f.insert(0, s); same(f, s + ref, "C11 insert(0,std::string) (long source)"); break;
   case 6: f.replace(0, 1, s); same(f, std::string(ref).replace(0, 1, s), "C11 replace(0,1,std::string) (long source)"); break;
   case 7: { int r = f.compare(s); vs_assert(sgn(r) == sgn(ref.compare(s)), "C11 compare(std::string) (long source)"); break; }
   case 8: { vs_assert(!f.starts_with(s) && !f.ends_with(s) && !f.contains(s) && f.find(s) == std::string::npos, "C11 a longer string is never found (long source)"); break; }
   case 9: { size_t n2 = vs_u64("cnt2"); f.append(s, srclen - 2, n2); same(f, ref + s.substr(srclen - 2, n2), "C11 append(std::string,pos,count) (long source)"); break; }
   }
   if (op >= 7 && op <= 8) same(f, ref, "C10 observers leave the string unchanged");
}

// sprintf(): formatted content (truncated to the capacity), and the failing conversion (vsnprintf() < 0)
HX void hx_fs_sprintf(uint64_t mode) {
   FS f; std::string ref; mk(f, ref, "fs");
   std::string a = mk_str(3, "str"), b = mk_str(2, "str2");
   switch (mode) {
   case 0: f.sprintf("%s", a.c_str()); same(f, a, "C11 sprintf(%s)"); break;
   case 1: f.sprintf("%s-%s", a.c_str(), b.c_str()); same(f, a + "-" + b, "C11 sprintf(%s-%s)"); break;
   case 2: f.sprintf("%d:%s", 42, a.c_str()); same(f, "42:" + a, "C11 sprintf(%d:%s)"); break;
   case 3: f.sprintf("x"); same(f, "x", "C11 sprintf(constant)"); break;
   case 4: { static const wchar_t wide[] = { 0xe9, 0x4e2d, 0 };          // not convertible in the "C" locale: vsnprintf() fails
      f.sprintf("%ls", wide);
      vs_assert(f.length() <= CAP, "C10 length <= capacity");
      vs_assert(f.c_str()[f.length()] == 0, "C10 NUL at length");
      vs_assert(std::strlen(f.c_str()) == f.length(), "C10 length equals the C string length after a failed sprintf()");
      break; }
   }
}
