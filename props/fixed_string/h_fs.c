/* Harnesses for C10 (memory safety + representation invariant, -DP10) and C11 (equivalence
 * with std::string cut at the capacity, -DP11).  One inductive step per harness: arbitrary
 * valid pre-state, one public operation with symbolic arguments, post-conditions.
 * CAP is the capacity under test.  The FixedString objects live in exact-size heap blocks so
 * that any access outside the object is an out-of-bounds access for CBMC (and for ASan in the
 * native replay). */
#ifndef CAP
#define CAP 10
#endif
#define NIN 160
#define RMAX (2 * CAP + 8)
#define MAXSRC (CAP + 3)
#include "harness.h"
#include "ref_model.h"
#if defined(VH_NO_GEN)
#elif defined(__CPROVER__) || defined(VH_GENERATED)
#include "w_fs_gen.c"
#else
#include "w_fs_gen_protos.h"
#endif
#if !defined(P10) && !defined(P11)
#define P10
#endif
#ifdef P10
#define C10(c, m) CHECK(c, "C10 " m)
#define C11(c, m) ((void)0)
#define DOMAIN(c) ((void)0)
#else
#define C10(c, m) ((void)0)
#define C11(c, m) CHECK(c, "C11 " m)
#define DOMAIN(c) ASSUME(c)
#endif

static int vh_k;
static uint64_t nx(void) { return IN(vh_k++); }
static uint8_t nxb(void) { return (uint8_t)nx(); }

typedef struct { void* o; int cap; uint8_t b[CAP + 3]; size_t len; } fsv;

/* arbitrary valid object of capacity cap (kind 0: CAP, 1: CAP+1, 2: max(CAP-1,1)) */
static void mk_fs(fsv* v, int kind)
{
  uint64_t w = 0;
  v->cap = kind == 0 ? CAP : kind == 1 ? CAP + 1 : (CAP - 1 ? CAP - 1 : 1);
  v->len = nx();
  ASSUME(v->len <= (size_t)v->cap);
  for (int i = 0; i <= v->cap; i++) {
    if (i % 8 == 0) w = nx();
    v->b[i] = (uint8_t)(w >> (8 * (i % 8)));
    if ((size_t)i < v->len) ASSUME(v->b[i] != 0);
  }
  v->b[v->len] = 0;
  if (kind == 0) { v->o = vh_alloc(vw_sizeof()); vw_set(v->o, v->b, v->len); }
  else if (kind == 1) { v->o = vh_alloc(vw_sizeof_b()); vw_set_b(v->o, v->b, v->len); }
  else { v->o = vh_alloc(vw_sizeof_s()); vw_set_s(v->o, v->b, v->len); }
}
/* exact-size C string of symbolic length <= MAXSRC, no NUL inside */
typedef struct { uint8_t* p; size_t len; } cstr;
static void mk_cstr(cstr* c)
{
  uint64_t w = 0;
  c->len = nx(); ASSUME(c->len <= MAXSRC);
  c->p = vh_alloc(c->len + 1);
  for (int i = 0; i < MAXSRC; i++) {
    if (i % 8 == 0) w = nx();
    if ((size_t)i < c->len) { uint8_t ch = (uint8_t)(w >> (8 * (i % 8))); ASSUME(ch != 0); c->p[i] = ch; }
  }
  c->p[c->len] = 0;
}
/* exact-size byte buffer of symbolic size n <= MAXSRC; bytes arbitrary (nonzero if nonul) */
static void mk_buf(cstr* c, int nonul)
{
  uint64_t w = 0;
  c->len = nx(); ASSUME(c->len <= MAXSRC);
  c->p = vh_alloc(c->len);
  for (int i = 0; i < MAXSRC; i++) {
    if (i % 8 == 0) w = nx();
    if ((size_t)i < c->len) { uint8_t ch = (uint8_t)(w >> (8 * (i % 8))); if (nonul) ASSUME(ch != 0); c->p[i] = ch; }
  }
}
static void ref_of(ref_t* r, const fsv* v) { r->len = v->len; for (size_t i = 0; i < (size_t)CAP + 2 && i < v->len; i++) r->d[i] = v->b[i]; }

/* C10 post-condition: representation invariant (nonul: no NUL was stored by the operation) */
static void inv(const fsv* v, int nonul)
{
  size_t len = vw_len(v->o);
  C10(len <= CAP, "length <= capacity");
  if (len <= CAP) {
    C10(vw_byte(v->o, len) == 0, "NUL at length");
    if (nonul) for (size_t i = 0; i < CAP; i++) if (i < len) C10(vw_byte(v->o, i) != 0, "no NUL before length (strlen == length)");
  }
  OUT(len); for (size_t i = 0; i < CAP && i < len; i++) OUT(vw_byte(v->o, i));
}
/* C11 post-condition: content == reference cut at CAP */
static void same(const fsv* v, const ref_t* r)
{
  size_t want = r->len < CAP ? r->len : CAP;
  C11(vw_len(v->o) == want, "length equals std::string result cut at capacity");
  for (size_t i = 0; i < CAP; i++) if (i < want) C11(vw_byte(v->o, i) == r->d[i], "content equals std::string result cut at capacity");
  /* c_str() / data() / stream output show the C string in the buffer: it must end where the std::string result ends */
  if (vw_len(v->o) == want) C11(vw_byte(v->o, want) == 0, "c_str() equals the std::string result cut at capacity (terminated at its length)");
}
/* the object must be unchanged (observers) */
static void unchanged(const fsv* v)
{
  CHECK(vw_len(v->o) == v->len, "C10 observer left length unchanged");
  for (size_t i = 0; i <= CAP; i++) CHECK(vw_byte(v->o, i) == v->b[i], "C10 observer left content unchanged");
}
#define END() WITNESS_END()
#define BEGIN() vh_k = 0

/* ------------------------------------------------------------------ construction / assignment */
HARNESS(h_ctor_cstr) { BEGIN(); cstr c; mk_cstr(&c); fsv v; v.o = vh_alloc(vw_sizeof()); vw_ctor_cstr(v.o, c.p);
  inv(&v, 1); ref_t r; r.len = 0; ref_replace(&r, 0, 0, c.p, c.len); same(&v, &r); END(); }
HARNESS(h_ctor_copy) { BEGIN(); fsv a; mk_fs(&a, 0); fsv v; v.o = vh_alloc(vw_sizeof()); vw_ctor_copy(v.o, a.o);
  inv(&v, 1); ref_t r; ref_of(&r, &a); same(&v, &r); unchanged(&a); END(); }
HARNESS(h_ctor_move) { BEGIN(); fsv a; mk_fs(&a, 0); fsv v; v.o = vh_alloc(vw_sizeof()); vw_ctor_move(v.o, a.o);
  inv(&v, 1); ref_t r; ref_of(&r, &a); same(&v, &r); END(); }
HARNESS(h_ctor_s) { BEGIN(); fsv a; mk_fs(&a, 2); fsv v; v.o = vh_alloc(vw_sizeof()); vw_ctor_s(v.o, a.o);
  inv(&v, 1); ref_t r; ref_of(&r, &a); same(&v, &r); END(); }
HARNESS(h_ctor_b) { BEGIN(); fsv a; mk_fs(&a, 1); fsv v; v.o = vh_alloc(vw_sizeof()); vw_ctor_b(v.o, a.o);
  inv(&v, 1); ref_t r; ref_of(&r, &a); same(&v, &r); END(); }
HARNESS(h_assign_cstr) { BEGIN(); fsv v; mk_fs(&v, 0); cstr c; mk_cstr(&c); vw_assign_cstr(v.o, c.p);
  inv(&v, 1); ref_t r; r.len = 0; ref_replace(&r, 0, 0, c.p, c.len); same(&v, &r); END(); }
HARNESS(h_assign_b) { BEGIN(); fsv v; mk_fs(&v, 0); fsv a; mk_fs(&a, 1); vw_assign_b(v.o, a.o);
  inv(&v, 1); ref_t r; ref_of(&r, &a); same(&v, &r); END(); }
HARNESS(h_assign_s) { BEGIN(); fsv v; mk_fs(&v, 0); fsv a; mk_fs(&a, 2); vw_assign_s(v.o, a.o);
  inv(&v, 1); ref_t r; ref_of(&r, &a); same(&v, &r); END(); }
HARNESS(h_opassign_cstr) { BEGIN(); fsv v; mk_fs(&v, 0); cstr c; mk_cstr(&c); vw_opassign_cstr(v.o, c.p);
  inv(&v, 1); ref_t r; r.len = 0; ref_replace(&r, 0, 0, c.p, c.len); same(&v, &r); END(); }
HARNESS(h_opassign_fs) { BEGIN(); fsv v; mk_fs(&v, 0); fsv a; mk_fs(&a, 0); vw_opassign_fs(v.o, a.o);
  inv(&v, 1); ref_t r; ref_of(&r, &a); same(&v, &r); END(); }
HARNESS(h_opassign_b) { BEGIN(); fsv v; mk_fs(&v, 0); fsv a; mk_fs(&a, 1); vw_opassign_b(v.o, a.o);
  inv(&v, 1); ref_t r; ref_of(&r, &a); same(&v, &r); END(); }
HARNESS(h_clear) { BEGIN(); fsv v; mk_fs(&v, 0); vw_clear(v.o); inv(&v, 1); C11(vw_len(v.o) == 0, "clear empties"); END(); }

/* ------------------------------------------------------------------ element access / observers */
HARNESS(h_observers) { BEGIN(); fsv v; mk_fs(&v, 0);
  size_t l = vw_length(v.o); int e = vw_empty(v.o); size_t co = vw_cstr_off(v.o), d = vw_data_off(v.o);
  OUT(l); OUT(e);
  C11(l == v.len, "length()"); C11(e == (v.len == 0), "empty()");
  C10(co == 0 && d == 0, "c_str()/data() point to the object's buffer");
  unchanged(&v); END(); }
/* at(): the throwing path builds its message with std::to_string/std::string: decided by E2 (props/fixed_string_e2) */
HARNESS(h_index) { BEGIN(); fsv v; mk_fs(&v, 0); size_t i = nx(); ASSUME(i <= v.len);   /* documented domain of operator[] */
  int r = vw_index(v.o, i); OUT(r); C11(r == v.b[i], "operator[]"); unchanged(&v); END(); }
HARNESS(h_front_back) { BEGIN(); fsv v; mk_fs(&v, 0); int f = vw_front(v.o), b = vw_back(v.o); OUT(f); OUT(b);
  if (v.len > 0) { C11(f == v.b[0], "front()"); C11(b == v.b[v.len - 1], "back()"); }
  unchanged(&v); END(); }

/* ------------------------------------------------------------------ insert */
HARNESS(h_insert_cnt_ch) { BEGIN(); fsv v; mk_fs(&v, 0); size_t idx = nx(), cnt = nx(); uint8_t ch = nxb(); ASSUME(ch != 0);
  DOMAIN(idx <= v.len && cnt <= MAXSRC);
  vw_insert_cnt_ch(v.o, idx, cnt, ch); inv(&v, 1);
#ifdef P11
  { ref_t r; ref_of(&r, &v); uint8_t f[MAXSRC]; for (int i = 0; i < MAXSRC; i++) f[i] = ch; ref_replace(&r, idx, 0, f, cnt); same(&v, &r); }
#endif
  END(); }
HARNESS(h_insert_str_cnt) { BEGIN(); fsv v; mk_fs(&v, 0); size_t idx = nx(); cstr c; mk_buf(&c, 1);
  DOMAIN(idx <= v.len);
  vw_insert_str_cnt(v.o, idx, c.p, c.len); inv(&v, 1);
#ifdef P11
  { ref_t r; ref_of(&r, &v); ref_replace(&r, idx, 0, c.p, c.len); same(&v, &r); }
#endif
  END(); }
HARNESS(h_insert_cstr) { BEGIN(); fsv v; mk_fs(&v, 0); size_t idx = nx(); cstr c; mk_cstr(&c);
  DOMAIN(idx <= v.len);
  vw_insert_cstr(v.o, idx, c.p); inv(&v, 1);
#ifdef P11
  { ref_t r; ref_of(&r, &v); ref_replace(&r, idx, 0, c.p, c.len); same(&v, &r); }
#endif
  END(); }
HARNESS(h_insert_fs) { BEGIN(); fsv v; mk_fs(&v, 0); size_t idx = nx(); fsv a; mk_fs(&a, 1);
  DOMAIN(idx <= v.len);
  vw_insert_fs(v.o, idx, a.o); inv(&v, 1);
#ifdef P11
  { ref_t r; ref_of(&r, &v); ref_replace(&r, idx, 0, a.b, a.len); same(&v, &r); }
#endif
  END(); }
HARNESS(h_insert_fs_sub) { BEGIN(); fsv v; mk_fs(&v, 0); size_t idx = nx(), is = nx(), cnt = nx(); fsv a; mk_fs(&a, 1);
  DOMAIN(idx <= v.len && is <= a.len);
  vw_insert_fs_sub(v.o, idx, a.o, is, cnt); inv(&v, 1);
#ifdef P11
  { ref_t r; ref_of(&r, &v); size_t n = ref_min(cnt, a.len - is); ref_replace(&r, idx, 0, a.b + is, n); same(&v, &r); }
#endif
  END(); }
HARNESS(h_insert_it_ch) { BEGIN(); fsv v; mk_fs(&v, 0); size_t pos = nx(); uint8_t ch = nxb(); ASSUME(ch != 0);
  DOMAIN(pos < v.len);     /* an iterator designates an existing character; insertion at end() is documented as no-op */
  size_t r_ = vw_insert_it_ch(v.o, pos, ch); OUT(r_); inv(&v, 1);
#ifdef P11
  { ref_t r; ref_of(&r, &v); ref_replace(&r, pos, 0, &ch, 1); same(&v, &r); C11(r_ == pos, "returns iterator to the inserted character"); }
#endif
  END(); }
HARNESS(h_insert_it_cnt_ch) { BEGIN(); fsv v; mk_fs(&v, 0); size_t pos = nx(), cnt = nx(); uint8_t ch = nxb(); ASSUME(ch != 0);
  DOMAIN(pos < v.len && cnt <= MAXSRC);
  size_t r_ = vw_insert_it_cnt_ch(v.o, pos, cnt, ch); OUT(r_); inv(&v, 1);
#ifdef P11
  { ref_t r; ref_of(&r, &v); uint8_t f[MAXSRC]; for (int i = 0; i < MAXSRC; i++) f[i] = ch; ref_replace(&r, pos, 0, f, cnt); same(&v, &r); }
#endif
  END(); }
HARNESS(h_insert_it_il) { BEGIN(); fsv v; mk_fs(&v, 0); size_t pos = nx(); uint8_t il[3]; il[0] = nxb(); il[1] = nxb(); il[2] = nxb();
  ASSUME(il[0] && il[1] && il[2]); DOMAIN(pos < v.len);
  size_t r_ = vw_insert_it_il(v.o, pos, il[0], il[1], il[2]); OUT(r_); inv(&v, 1);
#ifdef P11
  { ref_t r; ref_of(&r, &v); ref_replace(&r, pos, 0, il, 3); same(&v, &r); }
#endif
  END(); }

/* ------------------------------------------------------------------ erase / push / pop */
HARNESS(h_erase) { BEGIN(); fsv v; mk_fs(&v, 0); size_t idx = nx(), cnt = nx(); DOMAIN(idx <= v.len);
  vw_erase(v.o, idx, cnt); inv(&v, 1);
#ifdef P11
  { ref_t r; ref_of(&r, &v); ref_replace(&r, idx, cnt, 0, 0); same(&v, &r); }
#endif
  END(); }
HARNESS(h_erase_it) { BEGIN(); fsv v; mk_fs(&v, 0); size_t pos = nx(); DOMAIN(pos < v.len);
  size_t r_ = vw_erase_it(v.o, pos); OUT(r_); inv(&v, 1);
#ifdef P11
  { ref_t r; ref_of(&r, &v); ref_replace(&r, pos, 1, 0, 0); same(&v, &r); C11(r_ == (pos < r.len ? pos : RNPOS), "returns iterator following the erased character"); }
#endif
  END(); }
HARNESS(h_erase_it2) { BEGIN(); fsv v; mk_fs(&v, 0); size_t a = nx(), b = nx(); ASSUME(a <= b); DOMAIN(a < v.len);
  size_t r_ = vw_erase_it2(v.o, a, b); OUT(r_); inv(&v, 1);
#ifdef P11
  { ref_t r; ref_of(&r, &v); size_t e = b < v.len ? b : v.len; ref_replace(&r, a, e - a, 0, 0); same(&v, &r); }
#endif
  END(); }
HARNESS(h_push_back) { BEGIN(); fsv v; mk_fs(&v, 0); uint8_t ch = nxb(); ASSUME(ch != 0); vw_push_back(v.o, ch); inv(&v, 1);
#ifdef P11
  { ref_t r; ref_of(&r, &v); ref_replace(&r, r.len, 0, &ch, 1); same(&v, &r); }
#endif
  END(); }
HARNESS(h_pop_back) { BEGIN(); fsv v; mk_fs(&v, 0); DOMAIN(v.len > 0); vw_pop_back(v.o); inv(&v, 1);
#ifdef P11
  { ref_t r; ref_of(&r, &v); r.len--; same(&v, &r); }
#endif
  END(); }

/* ------------------------------------------------------------------ append */
#define APPEND_TAIL(src, n) { ref_t r; ref_of(&r, &v); ref_replace(&r, r.len, 0, (src), (n)); same(&v, &r); }
HARNESS(h_append_cnt_ch) { BEGIN(); fsv v; mk_fs(&v, 0); size_t cnt = nx(); uint8_t ch = nxb(); ASSUME(ch != 0);
  DOMAIN(cnt <= MAXSRC);
  vw_append_cnt_ch(v.o, cnt, ch); inv(&v, 1);
#ifdef P11
  { uint8_t f[MAXSRC]; for (int i = 0; i < MAXSRC; i++) f[i] = ch; APPEND_TAIL(f, cnt) }
#endif
  END(); }
HARNESS(h_append_fs) { BEGIN(); fsv v; mk_fs(&v, 0); fsv a; mk_fs(&a, 1); vw_append_fs(v.o, a.o); inv(&v, 1);
#ifdef P11
  APPEND_TAIL(a.b, a.len)
#endif
  END(); }
HARNESS(h_append_fs_sub) { BEGIN(); fsv v; mk_fs(&v, 0); fsv a; mk_fs(&a, 1); size_t pos = nx(), cnt = nx();
  DOMAIN(pos <= a.len);
  vw_append_fs_sub(v.o, a.o, pos, cnt); inv(&v, 1);
#ifdef P11
  APPEND_TAIL(a.b + pos, ref_min(cnt, a.len - pos))
#endif
  END(); }
HARNESS(h_append_str_cnt) { BEGIN(); fsv v; mk_fs(&v, 0); cstr c; mk_cstr(&c); size_t cnt = nx();
  DOMAIN(cnt <= c.len);
  vw_append_str_cnt(v.o, c.p, cnt); inv(&v, 1);
#ifdef P11
  APPEND_TAIL(c.p, cnt)
#endif
  END(); }
HARNESS(h_append_cstr) { BEGIN(); fsv v; mk_fs(&v, 0); cstr c; mk_cstr(&c); vw_append_cstr(v.o, c.p); inv(&v, 1);
#ifdef P11
  APPEND_TAIL(c.p, c.len)
#endif
  END(); }
HARNESS(h_append_it) { BEGIN(); fsv v; mk_fs(&v, 0); fsv a; mk_fs(&a, 0); size_t x = nx(), y = nx();
  ASSUME(x <= y);      /* [first,last) must be a valid range, as for every iterator-pair interface */
  DOMAIN(x < a.len);
  vw_append_it(v.o, a.o, x, y); inv(&v, 1);
#ifdef P11
  APPEND_TAIL(a.b + x, (y < a.len ? y : a.len) - x)
#endif
  END(); }
HARNESS(h_pluseq_fs) { BEGIN(); fsv v; mk_fs(&v, 0); fsv a; mk_fs(&a, 1); vw_pluseq_fs(v.o, a.o); inv(&v, 1);
#ifdef P11
  APPEND_TAIL(a.b, a.len)
#endif
  END(); }
HARNESS(h_pluseq_cstr) { BEGIN(); fsv v; mk_fs(&v, 0); cstr c; mk_cstr(&c); vw_pluseq_cstr(v.o, c.p); inv(&v, 1);
#ifdef P11
  APPEND_TAIL(c.p, c.len)
#endif
  END(); }
HARNESS(h_pluseq_ch) { BEGIN(); fsv v; mk_fs(&v, 0); uint8_t ch = nxb(); ASSUME(ch != 0); vw_pluseq_ch(v.o, ch); inv(&v, 1);
#ifdef P11
  APPEND_TAIL(&ch, 1)
#endif
  END(); }

/* ------------------------------------------------------------------ compare family */
#define SGN(x) ref_sign(x)
HARNESS(h_compare_fs) { BEGIN(); fsv v; mk_fs(&v, 0); fsv a; mk_fs(&a, 1); int r_ = vw_compare_fs(v.o, a.o); OUT(SGN(r_));
  { ref_t r; ref_of(&r, &v); C11(SGN(r_) == ref_compare(&r, 0, RNPOS, a.b, a.len, 0, RNPOS), "compare(FixedString)"); }
  unchanged(&v); END(); }
HARNESS(h_compare_cstr) { BEGIN(); fsv v; mk_fs(&v, 0); cstr c; mk_cstr(&c); int r_ = vw_compare_cstr(v.o, c.p); OUT(SGN(r_));
  { ref_t r; ref_of(&r, &v); C11(SGN(r_) == ref_compare(&r, 0, RNPOS, c.p, c.len, 0, RNPOS), "compare(const char*)"); }
  unchanged(&v); END(); }
HARNESS(h_compare_pc_fs) { BEGIN(); fsv v; mk_fs(&v, 0); fsv a; mk_fs(&a, 1); size_t p = nx(), n = nx(); DOMAIN(p <= v.len);
  int r_ = vw_compare_pc_fs(v.o, p, n, a.o); OUT(SGN(r_));
#ifdef P11
  { ref_t r; ref_of(&r, &v); C11(SGN(r_) == ref_compare(&r, p, n, a.b, a.len, 0, RNPOS), "compare(pos,count,FixedString)"); }
#endif
  unchanged(&v); END(); }
HARNESS(h_compare_pc_cstr) { BEGIN(); fsv v; mk_fs(&v, 0); cstr c; mk_cstr(&c); size_t p = nx(), n = nx(); DOMAIN(p <= v.len);
  int r_ = vw_compare_pc_cstr(v.o, p, n, c.p); OUT(SGN(r_));
#ifdef P11
  { ref_t r; ref_of(&r, &v); C11(SGN(r_) == ref_compare(&r, p, n, c.p, c.len, 0, RNPOS), "compare(pos,count,const char*)"); }
#endif
  unchanged(&v); END(); }
HARNESS(h_compare_pc_fs_pc) { BEGIN(); fsv v; mk_fs(&v, 0); fsv a; mk_fs(&a, 1); size_t p = nx(), n = nx(), p2 = nx(), n2 = nx();
  DOMAIN(p <= v.len && p2 <= a.len);
  int r_ = vw_compare_pc_fs_pc(v.o, p, n, a.o, p2, n2); OUT(SGN(r_));
#ifdef P11
  { ref_t r; ref_of(&r, &v); C11(SGN(r_) == ref_compare(&r, p, n, a.b, a.len, p2, n2), "compare(pos1,count1,FixedString,pos2,count2)"); }
#endif
  unchanged(&v); END(); }
HARNESS(h_compare_pc_cstr_c) { BEGIN(); fsv v; mk_fs(&v, 0); cstr c; mk_cstr(&c); size_t p = nx(), n = nx(), n2 = nx();
  DOMAIN(p <= v.len && n2 <= c.len);
  int r_ = vw_compare_pc_cstr_c(v.o, p, n, c.p, n2); OUT(SGN(r_));
#ifdef P11
  { ref_t r; ref_of(&r, &v); C11(SGN(r_) == ref_compare(&r, p, n, c.p, n2, 0, RNPOS), "compare(pos1,count1,const char*,count2)"); }
#endif
  unchanged(&v); END(); }
HARNESS(h_eq_ne) { BEGIN(); fsv a; mk_fs(&a, 0); fsv b; mk_fs(&b, 0); int e = vw_eq(a.o, b.o), n = vw_ne(a.o, b.o); OUT(e); OUT(n);
  { ref_t r; ref_of(&r, &a); int c = ref_compare(&r, 0, RNPOS, b.b, b.len, 0, RNPOS);
    C11((e != 0) == (c == 0), "operator== agrees with std::string"); C11((n != 0) == (e == 0), "operator!= is the complement of operator=="); }
  unchanged(&a); unchanged(&b); END(); }
HARNESS(h_eq_ne_b) { BEGIN(); fsv a; mk_fs(&a, 0); fsv b; mk_fs(&b, 1); int e = vw_eq_b(a.o, b.o), n = vw_ne_b(a.o, b.o); OUT(e); OUT(n);
  { ref_t r; ref_of(&r, &a); int c = ref_compare(&r, 0, RNPOS, b.b, b.len, 0, RNPOS);
    C11((e != 0) == (c == 0), "operator== (other capacity) agrees with std::string"); C11((n != 0) == (e == 0), "operator!= (other capacity) is the complement of operator=="); }
  unchanged(&a); END(); }
#define PREFIX_OK(src, n) ((n) <= v.len && ref_compare(&r, 0, (n), (src), (n), 0, RNPOS) == 0)
#define SUFFIX_OK(src, n) ((n) <= v.len && ref_compare(&r, v.len - (n), (n), (src), (n), 0, RNPOS) == 0)
HARNESS(h_starts_fs) { BEGIN(); fsv v; mk_fs(&v, 0); fsv a; mk_fs(&a, 1); int r_ = vw_starts_fs(v.o, a.o); OUT(r_);
  { ref_t r; ref_of(&r, &v); C11((r_ != 0) == PREFIX_OK(a.b, a.len), "starts_with(FixedString)"); } unchanged(&v); END(); }
HARNESS(h_starts_cstr) { BEGIN(); fsv v; mk_fs(&v, 0); cstr c; mk_cstr(&c); int r_ = vw_starts_cstr(v.o, c.p); OUT(r_);
  { ref_t r; ref_of(&r, &v); C11((r_ != 0) == PREFIX_OK(c.p, c.len), "starts_with(const char*)"); } unchanged(&v); END(); }
HARNESS(h_starts_ch) { BEGIN(); fsv v; mk_fs(&v, 0); uint8_t ch = nxb(); int r_ = vw_starts_ch(v.o, ch); OUT(r_);
  C11((r_ != 0) == (v.len > 0 && v.b[0] == ch), "starts_with(char)"); unchanged(&v); END(); }
HARNESS(h_ends_fs) { BEGIN(); fsv v; mk_fs(&v, 0); fsv a; mk_fs(&a, 1); int r_ = vw_ends_fs(v.o, a.o); OUT(r_);
  { ref_t r; ref_of(&r, &v); C11((r_ != 0) == SUFFIX_OK(a.b, a.len), "ends_with(FixedString)"); } unchanged(&v); END(); }
HARNESS(h_ends_cstr) { BEGIN(); fsv v; mk_fs(&v, 0); cstr c; mk_cstr(&c); int r_ = vw_ends_cstr(v.o, c.p); OUT(r_);
  { ref_t r; ref_of(&r, &v); C11((r_ != 0) == SUFFIX_OK(c.p, c.len), "ends_with(const char*)"); } unchanged(&v); END(); }
HARNESS(h_ends_ch) { BEGIN(); fsv v; mk_fs(&v, 0); uint8_t ch = nxb(); int r_ = vw_ends_ch(v.o, ch); OUT(r_);
  C11((r_ != 0) == (v.len > 0 && v.b[v.len - 1] == ch), "ends_with(char)"); unchanged(&v); END(); }
HARNESS(h_contains_fs) { BEGIN(); fsv v; mk_fs(&v, 0); fsv a; mk_fs(&a, 1); int r_ = vw_contains_fs(v.o, a.o); OUT(r_);
  { ref_t r; ref_of(&r, &v); C11((r_ != 0) == (a.len != 0 && ref_find(&r, a.b, a.len, 0) != RNPOS), "contains(FixedString)"); } unchanged(&v); END(); }
HARNESS(h_contains_cstr) { BEGIN(); fsv v; mk_fs(&v, 0); cstr c; mk_cstr(&c); int r_ = vw_contains_cstr(v.o, c.p); OUT(r_);
  { ref_t r; ref_of(&r, &v); C11((r_ != 0) == (c.len != 0 && ref_find(&r, c.p, c.len, 0) != RNPOS), "contains(const char*)"); } unchanged(&v); END(); }
HARNESS(h_contains_ch) { BEGIN(); fsv v; mk_fs(&v, 0); uint8_t ch = nxb(); ASSUME(ch != 0); int r_ = vw_contains_ch(v.o, ch); OUT(r_);
  { ref_t r; ref_of(&r, &v); C11((r_ != 0) == (ref_find(&r, &ch, 1, 0) != RNPOS), "contains(char)"); } unchanged(&v); END(); }

/* ------------------------------------------------------------------ replace */
#define REPL_TAIL(p, n, src, m) { ref_t r; ref_of(&r, &v); ref_replace(&r, (p), (n), (src), (m)); same(&v, &r); }
HARNESS(h_replace_fs) { BEGIN(); fsv v; mk_fs(&v, 0); fsv a; mk_fs(&a, 1); size_t p = nx(), n = nx(); DOMAIN(p <= v.len);
  vw_replace_fs(v.o, p, n, a.o); inv(&v, 1);
#ifdef P11
  REPL_TAIL(p, n, a.b, a.len)
#endif
  END(); }
HARNESS(h_replace_fs_sub) { BEGIN(); fsv v; mk_fs(&v, 0); fsv a; mk_fs(&a, 1); size_t p = nx(), n = nx(), p2 = nx(), n2 = nx();
  DOMAIN(p <= v.len && p2 <= a.len);
  vw_replace_fs_sub(v.o, p, n, a.o, p2, n2); inv(&v, 1);
#ifdef P11
  REPL_TAIL(p, n, a.b + p2, ref_min(n2, a.len - p2))
#endif
  END(); }
HARNESS(h_replace_cstr) { BEGIN(); fsv v; mk_fs(&v, 0); cstr c; mk_cstr(&c); size_t p = nx(), n = nx(); DOMAIN(p <= v.len);
  vw_replace_cstr(v.o, p, n, c.p); inv(&v, 1);
#ifdef P11
  REPL_TAIL(p, n, c.p, c.len)
#endif
  END(); }
HARNESS(h_replace_cstr_cnt) { BEGIN(); fsv v; mk_fs(&v, 0); cstr c; mk_cstr(&c); size_t p = nx(), n = nx(), n2 = nx();
  DOMAIN(p <= v.len && n2 <= c.len);
  vw_replace_cstr_cnt(v.o, p, n, c.p, n2); inv(&v, 1);
#ifdef P11
  REPL_TAIL(p, n, c.p, n2)
#endif
  END(); }
HARNESS(h_replace_it_it) { BEGIN(); fsv v; mk_fs(&v, 0); fsv a; mk_fs(&a, 0); size_t x = nx(), y = nx(), x2 = nx(), y2 = nx();
  ASSUME(x <= y && x2 <= y2); DOMAIN(x < v.len && x2 < a.len && x < y && x2 < y2);
  vw_replace_it_it(v.o, x, y, a.o, x2, y2); inv(&v, 1);
#ifdef P11
  REPL_TAIL(x, (y < v.len ? y : v.len) - x, a.b + x2, (y2 < a.len ? y2 : a.len) - x2)
#endif
  END(); }
HARNESS(h_replace_it_str_cnt) { BEGIN(); fsv v; mk_fs(&v, 0); cstr c; mk_buf(&c, 1); size_t x = nx(), y = nx();
  ASSUME(x <= y); DOMAIN(x < v.len && x < y && c.len > 0);
  vw_replace_it_str_cnt(v.o, x, y, c.p, c.len); inv(&v, 1);
#ifdef P11
  REPL_TAIL(x, (y < v.len ? y : v.len) - x, c.p, c.len)
#endif
  END(); }
HARNESS(h_replace_it_cstr) { BEGIN(); fsv v; mk_fs(&v, 0); cstr c; mk_cstr(&c); size_t x = nx(), y = nx();
  ASSUME(x <= y); DOMAIN(x < v.len && x < y && c.len > 0);
  vw_replace_it_cstr(v.o, x, y, c.p); inv(&v, 1);
#ifdef P11
  REPL_TAIL(x, (y < v.len ? y : v.len) - x, c.p, c.len)
#endif
  END(); }
HARNESS(h_replace_cnt_ch) { BEGIN(); fsv v; mk_fs(&v, 0); size_t p = nx(), n = nx(), n2 = nx(); uint8_t ch = nxb(); ASSUME(ch != 0);
  DOMAIN(p <= v.len && n2 <= MAXSRC);
  vw_replace_cnt_ch(v.o, p, n, n2, ch); inv(&v, 1);
#ifdef P11
  { uint8_t f[MAXSRC]; for (int i = 0; i < MAXSRC; i++) f[i] = ch; REPL_TAIL(p, n, f, n2) }
#endif
  END(); }
HARNESS(h_replace_it_cnt_ch) { BEGIN(); fsv v; mk_fs(&v, 0); size_t x = nx(), y = nx(), n2 = nx(); uint8_t ch = nxb(); ASSUME(ch != 0);
  ASSUME(x <= y); DOMAIN(x < v.len && n2 <= MAXSRC && x < y && n2 > 0);
  vw_replace_it_cnt_ch(v.o, x, y, n2, ch); inv(&v, 1);
#ifdef P11
  { uint8_t f[MAXSRC]; for (int i = 0; i < MAXSRC; i++) f[i] = ch; REPL_TAIL(x, (y < v.len ? y : v.len) - x, f, n2) }
#endif
  END(); }
HARNESS(h_replace_it_il) { BEGIN(); fsv v; mk_fs(&v, 0); size_t x = nx(), y = nx(); uint8_t il[2]; il[0] = nxb(); il[1] = nxb();
  ASSUME(il[0] && il[1]); ASSUME(x <= y); DOMAIN(x < v.len && x < y);
  vw_replace_it_il(v.o, x, y, il[0], il[1]); inv(&v, 1);
#ifdef P11
  REPL_TAIL(x, (y < v.len ? y : v.len) - x, il, 2)
#endif
  END(); }

/* ------------------------------------------------------------------ copy / swap */
HARNESS(h_copy) { BEGIN(); fsv v; mk_fs(&v, 0); size_t cnt = nx(), pos = nx(); DOMAIN(pos <= v.len);
  /* destination must hold min(count, length - pos) characters: give it exactly that */
  size_t need = pos <= v.len ? ref_min(cnt, v.len - pos) : 0;
  uint8_t* d = vh_alloc(need);
  size_t r_ = vw_copy(v.o, d, cnt, pos); OUT(r_);
  C10(r_ <= need, "copy() returns at most the characters available");
#ifdef P11
  C11(r_ == need, "copy() returns min(count, length-pos)"); for (size_t i = 0; i < CAP; i++) if (i < need) C11(d[i] == v.b[pos + i], "copy() copies the substring");
#endif
  unchanged(&v); END(); }
HARNESS(h_swap) { BEGIN(); fsv a; mk_fs(&a, 0); fsv b; mk_fs(&b, 0); vw_swap(a.o, b.o); inv(&a, 1); inv(&b, 1);
#ifdef P11
  { ref_t ra, rb; ref_of(&ra, &a); ref_of(&rb, &b); same(&a, &rb); same(&b, &ra); }
#endif
  END(); }

/* ------------------------------------------------------------------ find family */
/* Oracle = std::string, except where the repository's own unit tests pin a different behaviour
 * (listed in DESIGN.md, C11):  (A) an empty search string / character set yields npos for find, rfind,
 * find_first_not_of, find_last_not_of;  (B) for the backward searches a position that is neither npos
 * nor a valid index (pos >= length) is outside the checked domain. */
#define FIND_H(name, call_fs, call_sc, call_cs, call_ch, REF, BACK, EMPTY_NPOS) \
HARNESS(h_##name##_fs) { BEGIN(); fsv v; mk_fs(&v, 0); fsv a; mk_fs(&a, 0); size_t pos = nx(); if (BACK) DOMAIN(pos == RNPOS || pos < v.len); size_t r_ = call_fs(v.o, a.o, pos); OUT(r_); \
  C10(r_ == RNPOS || r_ < v.len || (r_ == v.len && a.len == 0), "result is npos or a position in the string"); \
  { ref_t r; ref_of(&r, &v); const uint8_t* nd = a.b; size_t n = a.len; C11(r_ == ((EMPTY_NPOS) && n == 0 ? RNPOS : (REF)), #name "(FixedString,pos)"); } unchanged(&v); END(); } \
HARNESS(h_##name##_str_cnt) { BEGIN(); fsv v; mk_fs(&v, 0); cstr c; mk_cstr(&c); size_t pos = nx(), cnt = nx(); DOMAIN(cnt <= c.len); ASSUME(cnt <= c.len + 1); if (BACK) DOMAIN((pos == RNPOS || pos < v.len) && (cnt > 0 || c.len == 0)); \
  size_t r_ = call_sc(v.o, c.p, pos, cnt); OUT(r_); \
  { ref_t r; ref_of(&r, &v); const uint8_t* nd = c.p; size_t n = cnt; C11(r_ == ((EMPTY_NPOS) && n == 0 ? RNPOS : (REF)), #name "(const char*,pos,count)"); } unchanged(&v); END(); } \
HARNESS(h_##name##_cstr) { BEGIN(); fsv v; mk_fs(&v, 0); cstr c; mk_cstr(&c); size_t pos = nx(); if (BACK) DOMAIN(pos == RNPOS || pos < v.len); size_t r_ = call_cs(v.o, c.p, pos); OUT(r_); \
  { ref_t r; ref_of(&r, &v); const uint8_t* nd = c.p; size_t n = c.len; C11(r_ == ((EMPTY_NPOS) && n == 0 ? RNPOS : (REF)), #name "(const char*,pos)"); } unchanged(&v); END(); } \
HARNESS(h_##name##_ch) { BEGIN(); fsv v; mk_fs(&v, 0); uint8_t ch = nxb(); ASSUME(ch != 0); size_t pos = nx(); if (BACK) DOMAIN(pos == RNPOS || pos < v.len); size_t r_ = call_ch(v.o, ch, pos); OUT(r_); \
  { ref_t r; ref_of(&r, &v); const uint8_t* nd = &ch; size_t n = 1; C11(r_ == (REF), #name "(char,pos)"); } unchanged(&v); END(); }
FIND_H(find, vw_find_fs, vw_find_str_cnt, vw_find_cstr, vw_find_ch, ref_find(&r, nd, n, pos), 0, 1)
FIND_H(rfind, vw_rfind_fs, vw_rfind_str_cnt, vw_rfind_cstr, vw_rfind_ch, ref_rfind(&r, nd, n, pos), 1, 1)
FIND_H(find_first_of, vw_find_first_of_fs, vw_find_first_of_str_cnt, vw_find_first_of_cstr, vw_find_first_of_ch, ref_find_first(&r, nd, n, pos, 1), 0, 0)
FIND_H(find_first_not_of, vw_find_first_not_of_fs, vw_find_first_not_of_str_cnt, vw_find_first_not_of_cstr, vw_find_first_not_of_ch, ref_find_first(&r, nd, n, pos, 0), 0, 1)
FIND_H(find_last_of, vw_find_last_of_fs, vw_find_last_of_str_cnt, vw_find_last_of_cstr, vw_find_last_of_ch, ref_find_last(&r, nd, n, pos, 1), 1, 0)
FIND_H(find_last_not_of, vw_find_last_not_of_fs, vw_find_last_not_of_str_cnt, vw_find_last_not_of_cstr, vw_find_last_not_of_ch, ref_find_last(&r, nd, n, pos, 0), 1, 1)

/* ------------------------------------------------------------------ iteration */
#define ITER_H(name, call, rev) \
HARNESS(h_##name) { BEGIN(); fsv v; mk_fs(&v, 0); uint8_t out[CAP + 2]; size_t k = call(v.o, out, CAP + 2); OUT(k); \
  C11(k == v.len, #name ": visits exactly length() characters"); \
  for (size_t i = 0; i < CAP; i++) if (i < k && k == v.len) C11(out[i] == v.b[rev ? v.len - 1 - i : i], #name ": visits the characters in order"); \
  unchanged(&v); END(); }
ITER_H(iter_fwd, vw_iter_fwd, 0)
ITER_H(iter_cfwd, vw_iter_cfwd, 0)
ITER_H(iter_rev, vw_iter_rev, 1)
ITER_H(iter_crev, vw_iter_crev, 1)
HARNESS(h_iter_arith) { BEGIN(); fsv v; mk_fs(&v, 0); size_t a = nx(), b = nx(); DOMAIN(a < v.len && b <= a);
  size_t r_ = vw_iter_arith(v.o, a, b); OUT(r_);
  C10(r_ == RNPOS || r_ < v.len, "iterator arithmetic yields end or a valid position");
  C11(r_ == a - b, "begin() + a - b designates character a - b");
  size_t d = vw_iter_dist(v.o); OUT(d); C11(d == v.len, "end() - begin() == length()");
  unchanged(&v); END(); }
HARNESS(h_iter_index) { BEGIN(); fsv v; mk_fs(&v, 0); size_t a = nx(), i = nx();
  ASSUME(a < v.len && i < v.len - a);     /* it[i] beyond the string is undefined for std::string as well: outside the property */
  int r_ = vw_iter_index(v.o, a, i); OUT(r_);
  C11(r_ == v.b[a + i], "iterator[i]");
  unchanged(&v); END(); }
