/* Reference model of the std::string operations used as oracle for C11 (plain C so that
 * CBMC can execute it).  It is validated natively against the real std::string by
 * ref_check.cpp on every run of the check.  All functions assume in-domain arguments
 * (pos <= length) exactly where std::string would throw otherwise. */
#ifndef REF_MODEL_H
#define REF_MODEL_H
#include <stdint.h>
#include <stddef.h>
#ifndef RMAX
#define RMAX 64
#endif
#define RNPOS ((size_t)-1)
typedef struct { uint8_t d[RMAX]; size_t len; } ref_t;

static size_t ref_min(size_t a, size_t b) { return a < b ? a : b; }
/* s.replace(pos, n, src, m); insert = n 0; erase = m 0; append = pos len.  pre: pos <= len, len - n' + m <= RMAX */
static void ref_replace(ref_t* r, size_t pos, size_t n, const uint8_t* src, size_t m)
{
  uint8_t tail[RMAX]; size_t tl;
  n = ref_min(n, r->len - pos);
  tl = r->len - pos - n;
  for (size_t i = 0; i < RMAX && i < tl; i++) tail[i] = r->d[pos + n + i];
  for (size_t i = 0; i < RMAX && i < m; i++) r->d[pos + i] = src[i];
  for (size_t i = 0; i < RMAX && i < tl; i++) r->d[pos + m + i] = tail[i];
  r->len = pos + m + tl;
}
static int ref_sign(int v) { return v < 0 ? -1 : v > 0 ? 1 : 0; }
/* sign of s.compare(pos1, n1, str(pos2, n2))   pre: pos1 <= len, pos2 <= len2 */
static int ref_compare(const ref_t* r, size_t pos1, size_t n1, const uint8_t* s2, size_t len2, size_t pos2, size_t n2)
{
  n1 = ref_min(n1, r->len - pos1); n2 = ref_min(n2, len2 - pos2);
  size_t k = ref_min(n1, n2);
  for (size_t i = 0; i < RMAX && i < k; i++) {
    uint8_t a = r->d[pos1 + i], b = s2[pos2 + i];
    if (a != b) return a < b ? -1 : 1;
  }
  return n1 < n2 ? -1 : n1 > n2 ? 1 : 0;
}
static int ref_match(const ref_t* r, size_t i, const uint8_t* nd, size_t n)
{
  for (size_t j = 0; j < RMAX && j < n; j++) if (r->d[i + j] != nd[j]) return 0;
  return 1;
}
static size_t ref_find(const ref_t* r, const uint8_t* nd, size_t n, size_t pos)
{
  if (n > r->len) return RNPOS;
  for (size_t i = pos; i < RMAX && i <= r->len - n; i++) if (ref_match(r, i, nd, n)) return i;
  return RNPOS;
}
static size_t ref_rfind(const ref_t* r, const uint8_t* nd, size_t n, size_t pos)
{
  if (n > r->len) return RNPOS;
  size_t i = ref_min(pos, r->len - n);
  for (size_t c = 0; c <= RMAX; c++) {
    if (ref_match(r, i, nd, n)) return i;
    if (i == 0) break;
    i--;
  }
  return RNPOS;
}
static int ref_inset(uint8_t c, const uint8_t* set, size_t n)
{
  for (size_t j = 0; j < RMAX && j < n; j++) if (set[j] == c) return 1;
  return 0;
}
static size_t ref_find_first(const ref_t* r, const uint8_t* set, size_t n, size_t pos, int want_in)
{
  for (size_t i = pos; i < RMAX && i < r->len; i++) if (ref_inset(r->d[i], set, n) == want_in) return i;
  return RNPOS;
}
static size_t ref_find_last(const ref_t* r, const uint8_t* set, size_t n, size_t pos, int want_in)
{
  if (r->len == 0) return RNPOS;
  size_t i = ref_min(pos, r->len - 1);
  for (size_t c = 0; c <= RMAX; c++) {
    if (ref_inset(r->d[i], set, n) == want_in) return i;
    if (i == 0) break;
    i--;
  }
  return RNPOS;
}
#endif
