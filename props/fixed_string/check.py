#!/usr/bin/env python3-vt
"""C10 / C11: FixedString<L> - E1 (ll2c + CBMC) inductive single-step harnesses."""
import sys, os
sys.path.insert(0, os.path.join(os.path.dirname(os.path.abspath(__file__)), '..', '..', 'engine'))
from e1 import *

HERE = os.path.dirname(os.path.abspath(__file__))


def main(prop, tier, only=None, caps=None):
    mode = 'P10' if prop == 'C10' else 'P11'
    if caps is None:
        if prop == 'C10':
            caps = [1, 3, 10] if tier == 'quick' else [1, 2, 3, 4, 7, 10, 15, 16]
        else:
            caps = [1, 2, 3] if tier == 'quick' else [1, 2, 3, 4, 5, 7, 10]
    units = []
    for L in caps:
        units.append(Unit('fixed_string_' + prop, 'L%d' % L, os.path.join(HERE, 'w_fs.cpp'), os.path.join(HERE, 'h_fs.c'),
                          defines=['CAP=%d' % L], gen='w_fs_gen', unwind=2 * L + 12, mode_defines=[mode],
                          timeout=900 if tier == 'quick' else 3600, only=only, vec_small=L + 5,
                          bounds=dict(capacity=L, source_len_max=L + 3, positions_counts='unconstrained 64-bit' if prop == 'C10' else 'documented domain (pos <= length)',
                                      state='arbitrary valid FixedString (length 0..L, arbitrary bytes, NUL at length)')))
    rule = ('one obligation = (public operation, capacity L): CBMC decides the post-conditions for every valid pre-state and every '
            'argument value inside the bound; non-trivial = decided and its witness twin (assert(0) at the end of the harness) is reachable')
    assumptions = ['IR from clang++-14 -O1 -D_GLIBCXX_ASSERTIONS -DNDEBUG of the unmodified header', 'll2c IR->C translator (validated per run against g++ build on random vectors)',
                   'allocation never fails', 'capacities outside the listed ones are not claimed',
                   'source strings <= L+3 bytes', 'sprintf(): E2 unit, vsnprintf modelled by its contract (formats %s %d and the failing wide-character conversion)']
    rep = Report(prop, tier)
    if prop == 'C11':
        # the C reference model is itself checked against the real std::string (native, 1.6 million comparisons)
        d = workdir('fixed_string_C11')
        must(run(['g++', '-std=c++17', '-O1', '-I', HERE, os.path.join(HERE, 'ref_check.cpp'), '-o', os.path.join(d, 'ref_check')], timeout=300), 'g++ ref_check')
        r = run([os.path.join(d, 'ref_check'), str(SEED)], timeout=300)
        rep.extra['reference_model_vs_std_string'] = r['out'].strip()
        if r['rc'] != 0 or not r['out'].startswith('OK'):
            rep.inconc('fixed_string_C11/reference model', 'ref_model.h disagrees with std::string: ' + r['out'][:200])
    run_units(prop, tier, units, rule, assumptions, rep=rep, finish=False)
    # std::string overloads, at(), str(), substr(), operator<< : E2 with the real std::string as oracle
    from e2 import E2Unit, run_e2
    # 255/256: switch of the internal length type from 8 to 16 bits; 32767/32768: sign bit of a 16-bit length; 65535/65536: 16 -> 32 bits
    e2caps = [3, 255, 256, 40000] if tier == 'quick' else [1, 3, 4, 254, 255, 256, 257, 32767, 32768, 40000, 65535, 65536]
    e2units = []
    for L in e2caps:
        if L >= 1000:
            # very large capacities: the core operations only (lengths L-3..L, positions and counts around the ends)
            big_ops = (0, 1, 2, 3, 4, 5, 7, 12, 13, 14, 18, 19) if tier == 'quick' else (0, 1, 2, 3, 4, 5, 7, 8, 9, 12, 13, 14, 15, 18, 19)
            shapes = [('hx_fs_core', [op, 0 if prop == 'C10' else 1], 'L%d/coreop%d' % (L, op)) for op in big_ops if not (prop == 'C10' and op in (0, 2, 4, 5, 12, 13, 14, 19, 20))]
            if only:
                shapes = [x for x in shapes if re.search(only, x[2])]
            e2units.append(E2Unit('fixed_string_e2_%s_L%d' % (prop, L), os.path.join(HERE, 'w_fs_e2.cpp'), defines=['CAP=%d' % L], shapes=shapes, timeout=900, max_steps=30000000, conc_cap=300, validate_vectors=2,
                                  bounds=dict(capacity=L, state='length L-3..L symbolic, concrete filler content', positions='near both ends or huge', counts='0..3, L-1..L+2 or huge')))
            continue
        shapes = [('hx_fs_str', [op, 0 if prop == 'C10' else 1], 'L%d/strop%d' % (L, op)) for op in range(26) if not (prop == 'C10' and op in (22, 25)) and not (L > 16 and op >= 10 and op not in (22, 23, 24))]
        if tier == 'quick' and L > 16:
            shapes = [x for x in shapes if x[1][0] != 9]          # replace(pos,count,str,pos2,count2) at the large capacities: thorough tier (7 min per capacity)
        for n in ([256, 259] if tier == 'quick' else [255, 256, 257, 259, 260, 512, 515, 65536, 65539]):
            if L > 16:
                break
            shapes += [('hx_fs_long', [op, n], 'L%d/longop%d/src%d' % (L, op, n)) for op in range(10)]
        if L > 16:
            # the core operations at the capacities around the switch of the length type
            shapes += [('hx_fs_core', [op, 0 if prop == 'C10' else 1], 'L%d/coreop%d' % (L, op)) for op in range(21) if not (prop == 'C10' and op in (0, 2, 4, 5, 12, 13, 14, 19, 20)) and not (tier == 'quick' and op in (6, 10, 11, 17))]
        shapes += [('hx_fs_sprintf', [m], 'L%d/sprintf%d' % (L, m)) for m in range(5)]
        if only:
            shapes = [x for x in shapes if re.search(only, x[2])]
        e2units.append(E2Unit('fixed_string_e2_%s_L%d' % (prop, L), os.path.join(HERE, 'w_fs_e2.cpp'), defines=['CAP=%d' % L], shapes=shapes, timeout=600, conc_cap=300, validate_vectors=4,
                              bounds=dict(capacity=L, std_string_argument='<= 3 symbolic bytes; plus long sources of 256, 259 (thorough: 255..65539) characters with the first capacity+1 symbolic', positions='unconstrained 64-bit' if prop == 'C10' else 'documented domain')))
    run_e2(prop, tier, e2units, rule, ['std::string overloads: E2 (irsym) with the real std::string header code as oracle, capacities ' + str(e2caps)], rep=rep, finish=False,
           classify=lambda v: v['msg'] if v['kind'] == 'assert' else v['kind'] + ': ' + re.sub(r'0x[0-9a-f]+', 'ADDR', re.sub(r'\d+', 'N', v['msg']))[:100],
           keyfn=lambda u, r, v, cls: '%s:e2 strop%s|%s' % (prop, r['args'][0], cls))
    return rep.finish(rule)


if __name__ == '__main__':
    import argparse
    ap = argparse.ArgumentParser()
    ap.add_argument('prop'); ap.add_argument('--tier', default=os.environ.get('VERIF_TIER', 'quick'))
    ap.add_argument('--only'); ap.add_argument('--caps')
    a = ap.parse_args()
    if getattr(a, 'only', None) or getattr(a, 'caps', None):
        os.environ['VERIF_PARTIAL'] = '1'
    sys.exit(guarded_main(lambda: main(a.prop, a.tier, a.only, [int(x) for x in a.caps.split(',')] if a.caps else None)))
