#!/usr/bin/env python3
"""C10 / C11: FixedString<L> - E1 (ll2c + CBMC) inductive single-step harnesses."""
import sys, os
sys.path.insert(0, os.path.join(os.path.dirname(os.path.abspath(__file__)), '..', '..', 'engine'))
from e1 import *

HERE = os.path.dirname(os.path.abspath(__file__))


def main(prop, tier, only=None, caps=None):
    mode = 'P10' if prop == 'C10' else 'P11'
    if caps is None:
        if prop == 'C10':
            caps = [1, 3, 10] if tier == 'quick' else [1, 2, 3, 4, 7, 10, 15, 16]
        else:
            caps = [1, 2, 3] if tier == 'quick' else [1, 2, 3, 4, 5, 7, 10]
    units = []
    for L in caps:
        units.append(Unit('fixed_string_' + prop, 'L%d' % L, os.path.join(HERE, 'w_fs.cpp'), os.path.join(HERE, 'h_fs.c'),
                          defines=['CAP=%d' % L], gen='w_fs_gen', unwind=2 * L + 12, mode_defines=[mode],
                          timeout=900 if tier == 'quick' else 3600, only=only, vec_small=L + 5,
                          bounds=dict(capacity=L, source_len_max=L + 3, positions_counts='unconstrained 64-bit' if prop == 'C10' else 'documented domain (pos <= length)',
                                      state='arbitrary valid FixedString (length 0..L, arbitrary bytes, NUL at length)')))
    rule = ('one obligation = (public operation, capacity L): CBMC decides the post-conditions for every valid pre-state and every '
            'argument value inside the bound; non-trivial = decided and its witness twin (assert(0) at the end of the harness) is reachable')
    assumptions = ['IR from clang++-14 -O1 -D_GLIBCXX_ASSERTIONS -DNDEBUG of the unmodified header', 'll2c IR->C translator (validated per run against g++ build on random vectors)',
                   'allocation never fails', 'std::string overloads are not in this engine (E2)', 'capacities outside the listed ones are not claimed',
                   'source strings <= L+3 bytes', 'sprintf(): not covered (vsnprintf is libc)']
    rep = Report(prop, tier)
    if prop == 'C11':
        # the C reference model is itself checked against the real std::string (native, 1.6 million comparisons)
        d = workdir('fixed_string_C11')
        must(run(['g++', '-std=c++17', '-O1', '-I', HERE, os.path.join(HERE, 'ref_check.cpp'), '-o', os.path.join(d, 'ref_check')], timeout=300), 'g++ ref_check')
        r = run([os.path.join(d, 'ref_check'), str(SEED)], timeout=300)
        rep.extra['reference_model_vs_std_string'] = r['out'].strip()
        if r['rc'] != 0 or not r['out'].startswith('OK'):
            rep.inconc('fixed_string_C11/reference model', 'ref_model.h disagrees with std::string: ' + r['out'][:200])
    return run_units(prop, tier, units, rule, assumptions, rep=rep)


if __name__ == '__main__':
    import argparse
    ap = argparse.ArgumentParser()
    ap.add_argument('prop'); ap.add_argument('--tier', default=os.environ.get('VERIF_TIER', 'quick'))
    ap.add_argument('--only'); ap.add_argument('--caps')
    a = ap.parse_args()
    sys.exit(main(a.prop, a.tier, a.only, [int(x) for x in a.caps.split(',')] if a.caps else None))
