// Wrapper TU for C10/C11: exposes every FixedString<CAP> operation that does not take a
// std::string as extern "C" entry points.  Compiled (a) to LLVM IR for the solver and
// (b) natively with g++ for translator validation and counterexample replay.
#include "celma/common/fixed_string.hpp"
#ifndef CAP
#define CAP 10
#endif
using FS = celma::common::FixedString<CAP>;
using FS_S = celma::common::FixedString<CAP - 1 ? CAP - 1 : 1>;   // other capacity: smaller
using FS_B = celma::common::FixedString<CAP + 1>;                 // other capacity: bigger
namespace {
template<size_t L> struct Raw { char s[L + 1]; typename celma::common::LengthType<L>::type len; };
static_assert(sizeof(Raw<CAP>) == sizeof(FS), "layout");
static_assert(sizeof(Raw<CAP + 1>) == sizeof(FS_B), "layout");
template<size_t L> void setraw(void* o, const char* bytes, size_t len) {
   auto* r = static_cast<Raw<L>*>(o);
   for (size_t i = 0; i < L + 1; ++i) r->s[i] = bytes[i];
   r->len = static_cast<decltype(r->len)>(len);
}
template<size_t L> size_t rawlen(const void* o) { return static_cast<const Raw<L>*>(o)->len; }
template<size_t L> int rawbyte(const void* o, size_t i) { return static_cast<unsigned char>(static_cast<const Raw<L>*>(o)->s[i]); }
inline size_t itpos(FS* s, const FS::iterator& it) { return it == s->end() ? (size_t) -1 : (size_t) (it - s->begin()); }
}
#define W extern "C" __attribute__((noinline))
// ---- raw state access (harness side)
W size_t vw_sizeof() { return sizeof(FS); }
W size_t vw_sizeof_s() { return sizeof(FS_S); }
W size_t vw_sizeof_b() { return sizeof(FS_B); }
W void vw_set(void* o, const char* b, size_t len) { setraw<CAP>(o, b, len); }
W void vw_set_s(void* o, const char* b, size_t len) { setraw<(CAP - 1 ? CAP - 1 : 1)>(o, b, len); }
W void vw_set_b(void* o, const char* b, size_t len) { setraw<CAP + 1>(o, b, len); }
W size_t vw_len(const void* o) { return rawlen<CAP>(o); }
W int vw_byte(const void* o, size_t i) { return rawbyte<CAP>(o, i); }
// ---- construction / assignment
W void vw_ctor_cstr(void* mem, const char* str) { new (mem) FS(str); }
W void vw_ctor_copy(void* mem, const FS* o) { new (mem) FS(*o); }
W void vw_ctor_move(void* mem, FS* o) { new (mem) FS(std::move(*o)); }
W void vw_ctor_s(void* mem, const FS_S* o) { new (mem) FS(*o); }
W void vw_ctor_b(void* mem, const FS_B* o) { new (mem) FS(*o); }
W void vw_assign_cstr(FS* s, const char* str) { s->assign(str); }
W void vw_assign_b(FS* s, const FS_B* o) { s->assign(*o); }
W void vw_assign_s(FS* s, const FS_S* o) { s->assign(*o); }
W void vw_opassign_cstr(FS* s, const char* str) { *s = str; }
W void vw_opassign_fs(FS* s, const FS* o) { *s = *o; }
W void vw_opassign_b(FS* s, const FS_B* o) { *s = *o; }
W void vw_clear(FS* s) { s->clear(); }
// ---- observers
W size_t vw_length(const FS* s) { return s->length(); }
W int vw_empty(const FS* s) { return s->empty(); }
W size_t vw_cstr_off(const FS* s) { return (size_t) (s->c_str() - reinterpret_cast<const char*>(s)); }
W size_t vw_data_off(FS* s) { return (size_t) (s->data() - reinterpret_cast<char*>(s)); }
// at(): 0..255 value, -1 = std::out_of_range, -2 = other std::exception, -3 = anything else
W int vw_at(FS* s, size_t i) { try { return (unsigned char) s->at(i); } catch (const std::out_of_range&) { return -1; } catch (const std::exception&) { return -2; } catch (...) { return -3; } }
W int vw_index(FS* s, size_t i) { return (unsigned char) (*s)[i]; }
W int vw_front(FS* s) { return (unsigned char) s->front(); }
W int vw_back(FS* s) { return (unsigned char) s->back(); }
// ---- insert
W void vw_insert_cnt_ch(FS* s, size_t idx, size_t cnt, char ch) { s->insert(idx, cnt, ch); }
W void vw_insert_str_cnt(FS* s, size_t idx, const char* str, size_t cnt) { s->insert(idx, str, cnt); }
W void vw_insert_cstr(FS* s, size_t idx, const char* str) { s->insert(idx, str); }
W void vw_insert_fs(FS* s, size_t idx, const FS_B* o) { s->insert(idx, *o); }
W void vw_insert_fs_sub(FS* s, size_t idx, const FS_B* o, size_t is, size_t cnt) { s->insert(idx, *o, is, cnt); }
W size_t vw_insert_it_ch(FS* s, size_t pos, char ch) { return itpos(s, s->insert(FS::const_iterator(s, pos), ch)); }
W size_t vw_insert_it_cnt_ch(FS* s, size_t pos, size_t cnt, char ch) { return itpos(s, s->insert(FS::const_iterator(s, pos), cnt, ch)); }
W size_t vw_insert_it_il(FS* s, size_t pos, char a, char b, char c) { return itpos(s, s->insert(FS::const_iterator(s, pos), { a, b, c })); }
// ---- erase / push / pop
W void vw_erase(FS* s, size_t idx, size_t cnt) { s->erase(idx, cnt); }
W size_t vw_erase_it(FS* s, size_t pos) { return itpos(s, s->erase(FS::const_iterator(s, pos))); }
W size_t vw_erase_it2(FS* s, size_t a, size_t b) { return itpos(s, s->erase(FS::const_iterator(s, a), FS::const_iterator(s, b))); }
W void vw_push_back(FS* s, char ch) { s->push_back(ch); }
W void vw_pop_back(FS* s) { s->pop_back(); }
// ---- append
W void vw_append_cnt_ch(FS* s, size_t cnt, char ch) { s->append(cnt, ch); }
W void vw_append_fs(FS* s, const FS_B* o) { s->append(*o); }
W void vw_append_fs_sub(FS* s, const FS_B* o, size_t pos, size_t cnt) { s->append(*o, pos, cnt); }
W void vw_append_str_cnt(FS* s, const char* str, size_t cnt) { s->append(str, cnt); }
W void vw_append_cstr(FS* s, const char* str) { s->append(str); }
W void vw_append_it(FS* s, const FS* o, size_t a, size_t b) { s->append(FS::const_iterator(o, a), FS::const_iterator(o, b)); }
W void vw_pluseq_fs(FS* s, const FS_B* o) { *s += *o; }
W void vw_pluseq_cstr(FS* s, const char* str) { *s += str; }
W void vw_pluseq_ch(FS* s, char ch) { *s += ch; }
// ---- compare family
W int vw_compare_fs(const FS* s, const FS_B* o) { return s->compare(*o); }
W int vw_compare_cstr(const FS* s, const char* str) { return s->compare(str); }
W int vw_compare_pc_fs(const FS* s, size_t p, size_t c, const FS_B* o) { return s->compare(p, c, *o); }
W int vw_compare_pc_cstr(const FS* s, size_t p, size_t c, const char* str) { return s->compare(p, c, str); }
W int vw_compare_pc_fs_pc(const FS* s, size_t p, size_t c, const FS_B* o, size_t p2, size_t c2) { return s->compare(p, c, *o, p2, c2); }
W int vw_compare_pc_cstr_c(const FS* s, size_t p, size_t c, const char* str, size_t c2) { return s->compare(p, c, str, c2); }
W int vw_eq(const FS* a, const FS* b) { return *a == *b; }
W int vw_ne(const FS* a, const FS* b) { return *a != *b; }
W int vw_eq_b(const FS* a, const FS_B* b) { return *a == *b; }
W int vw_ne_b(const FS* a, const FS_B* b) { return *a != *b; }
W int vw_starts_fs(const FS* s, const FS_B* o) { return s->starts_with(*o); }
W int vw_starts_cstr(const FS* s, const char* str) { return s->starts_with(str); }
W int vw_starts_ch(const FS* s, char ch) { return s->starts_with(ch); }
W int vw_ends_fs(const FS* s, const FS_B* o) { return s->ends_with(*o); }
W int vw_ends_cstr(const FS* s, const char* str) { return s->ends_with(str); }
W int vw_ends_ch(const FS* s, char ch) { return s->ends_with(ch); }
W int vw_contains_fs(const FS* s, const FS_B* o) { return s->contains(*o); }
W int vw_contains_cstr(const FS* s, const char* str) { return s->contains(str); }
W int vw_contains_ch(const FS* s, char ch) { return s->contains(ch); }
// ---- replace
W void vw_replace_fs(FS* s, size_t p, size_t c, const FS_B* o) { s->replace(p, c, *o); }
W void vw_replace_fs_sub(FS* s, size_t p, size_t c, const FS_B* o, size_t p2, size_t c2) { s->replace(p, c, *o, p2, c2); }
W void vw_replace_cstr(FS* s, size_t p, size_t c, const char* str) { s->replace(p, c, str); }
W void vw_replace_cstr_cnt(FS* s, size_t p, size_t c, const char* str, size_t c2) { s->replace(p, c, str, c2); }
W void vw_replace_it_it(FS* s, size_t a, size_t b, FS* o, size_t a2, size_t b2) { s->replace(FS::const_iterator(s, a), FS::const_iterator(s, b), FS::iterator(o, a2), FS::iterator(o, b2)); }
W void vw_replace_it_str_cnt(FS* s, size_t a, size_t b, const char* str, size_t c2) { s->replace(FS::const_iterator(s, a), FS::const_iterator(s, b), str, c2); }
W void vw_replace_it_cstr(FS* s, size_t a, size_t b, const char* str) { s->replace(FS::const_iterator(s, a), FS::const_iterator(s, b), str); }
W void vw_replace_cnt_ch(FS* s, size_t p, size_t c, size_t c2, char ch) { s->replace(p, c, c2, ch); }
W void vw_replace_it_cnt_ch(FS* s, size_t a, size_t b, size_t c2, char ch) { s->replace(FS::const_iterator(s, a), FS::const_iterator(s, b), c2, ch); }
W void vw_replace_it_il(FS* s, size_t a, size_t b, char x, char y) { s->replace(FS::const_iterator(s, a), FS::const_iterator(s, b), { x, y }); }
// ---- copy / swap
W size_t vw_copy(FS* s, char* dest, size_t cnt, size_t pos) { return s->copy(dest, cnt, pos); }
W void vw_swap(FS* a, FS* b) { a->swap(*b); }
// ---- find family
W size_t vw_find_fs(const FS* s, const FS* o, size_t pos) { return s->find(*o, pos); }
W size_t vw_find_str_cnt(const FS* s, const char* str, size_t pos, size_t cnt) { return s->find(str, pos, cnt); }
W size_t vw_find_cstr(const FS* s, const char* str, size_t pos) { return s->find(str, pos); }
W size_t vw_find_ch(const FS* s, char ch, size_t pos) { return s->find(ch, pos); }
W size_t vw_rfind_fs(const FS* s, const FS* o, size_t pos) { return s->rfind(*o, pos); }
W size_t vw_rfind_str_cnt(const FS* s, const char* str, size_t pos, size_t cnt) { return s->rfind(str, pos, cnt); }
W size_t vw_rfind_cstr(const FS* s, const char* str, size_t pos) { return s->rfind(str, pos); }
W size_t vw_rfind_ch(const FS* s, char ch, size_t pos) { return s->rfind(ch, pos); }
#define FINDFAM(nm) \
W size_t vw_##nm##_fs(const FS* s, const FS* o, size_t pos) { return s->nm(*o, pos); } \
W size_t vw_##nm##_str_cnt(const FS* s, const char* str, size_t pos, size_t cnt) { return s->nm(str, pos, cnt); } \
W size_t vw_##nm##_cstr(const FS* s, const char* str, size_t pos) { return s->nm(str, pos); } \
W size_t vw_##nm##_ch(const FS* s, char ch, size_t pos) { return s->nm(ch, pos); }
FINDFAM(find_first_of)
FINDFAM(find_first_not_of)
FINDFAM(find_last_of)
FINDFAM(find_last_not_of)
// ---- iteration: walk with the real iterators, report visited characters
// forward: returns number of steps, chars in out[] (capacity n)
W size_t vw_iter_fwd(FS* s, unsigned char* out, size_t n) {
   size_t k = 0;
   for (auto it = s->begin(); it != s->end() && k < n; ++it) out[k++] = (unsigned char) *it;
   return k;
}
W size_t vw_iter_cfwd(const FS* s, unsigned char* out, size_t n) {
   size_t k = 0;
   for (auto it = s->cbegin(); it != s->cend() && k < n; it++) out[k++] = (unsigned char) *it;
   return k;
}
W size_t vw_iter_rev(FS* s, unsigned char* out, size_t n) {
   size_t k = 0;
   for (auto it = s->rbegin(); it != s->rend() && k < n; ++it) out[k++] = (unsigned char) *it;
   return k;
}
W size_t vw_iter_crev(const FS* s, unsigned char* out, size_t n) {
   size_t k = 0;
   for (auto it = s->crbegin(); it != s->crend() && k < n; it++) out[k++] = (unsigned char) *it;
   return k;
}
// iterator arithmetic: begin() += a, -= b, then index (or -1 for end); diff end()-begin()
W size_t vw_iter_arith(FS* s, size_t a, size_t b) { auto it = s->begin(); it += a; it -= b; return itpos(s, it); }
W size_t vw_iter_dist(FS* s) { return s->end() - s->begin(); }
W int vw_iter_index(FS* s, size_t a, size_t i) { FS::iterator it(s, a); return it == s->end() ? -1 : (unsigned char) it[i]; }
