#!/usr/bin/env python3-vt
"""C17: TextBlock - E2 (irsym + z3)."""
import sys, os
sys.path.insert(0, os.path.join(os.path.dirname(os.path.abspath(__file__)), '..', '..', 'engine'))
from e2 import *
HERE = os.path.dirname(os.path.abspath(__file__))


def main(tier, only=None):
    shapes = []
    lens = [1, 2, 3, 4, 5] if tier == 'quick' else [1, 2, 3, 4, 5, 6]
    # incl. indentations that are as wide as / wider than the line: every word then stands alone on its line, fully indented
    cfgs = [(0, 3, 1), (1, 4, 1), (2, 5, 0), (0, 8, 1), (3, 3, 1), (4, 3, 0)] if tier == 'quick' else [(0, 3, 1), (0, 3, 0), (1, 4, 1), (2, 5, 0), (2, 5, 1), (0, 8, 1), (1, 8, 0), (3, 6, 1), (3, 3, 1), (3, 3, 0), (4, 3, 0), (5, 2, 1)]
    for n in lens:
        for (ind, w, first) in cfgs:
            if tier == 'quick' and (n == 5 and (ind, w, first) not in ((1, 4, 1), (0, 3, 1)) or n >= 4 and ind >= w):
                continue
            shapes.append(('hx_textblock', [n, ind, w, first], 'len%d/indent%d/width%d/first%d' % (n, ind, w, first)))
    for nw in ((3, 4, 5) if tier == 'quick' else (3, 4, 5, 6)):
        for dash in (0, 1):
            for nnpos in ((0, 2) if tier == 'quick' else (0, 1, 2, 3)):
                for (ind, w) in ((0, 7), (2, 9), (1, 6), (2, 4), (4, 4)) if tier == 'quick' else ((0, 7), (2, 9), (1, 6), (4, 12), (0, 5), (2, 4), (0, 2), (3, 5), (4, 4), (6, 3)):
                    if nw == 5 and tier == 'quick' and (ind, w) != (2, 9):
                        continue
                    if tier == 'quick' and (ind, w) in ((2, 4), (4, 4)) and nw != 3:        # words wider than the line followed by more words
                        continue
                    shapes.append(('hx_textblock_words', [nw, dash | (nnpos << 1), ind, w], 'words%d/dash%d/nn%d/indent%d/width%d' % (nw, dash, nnpos, ind, w)))
    if only:
        shapes = [s for s in shapes if re.search(only, s[2])]
    u = E2Unit('text_C17', os.path.join(HERE, 'w_text.cpp'), lib_srcs=['src/library/format/text_block.cpp'], shapes=shapes, timeout=900 if tier == 'quick' else 3000,
               max_paths=2000000, conc_cap=300,
               bounds=dict(text='every text of the given length over the alphabet {a, b, n, -, space, newline} (symbolic); structured texts: optional list dash, 3-6 words of symbolic length 1..3, optional nn token', indent='0..6, also >= width', width='3..8 (2..12 for the structured texts, incl. widths smaller than a word)', first_line='both modes'))
    rule = 'one obligation = (text length, indent, width, first-line mode); all texts of that length are explored path-wise, z3 decides every branch and assertion'
    assumptions = ['IR of text_block.cpp, celma::common::Tokenizer and the boost tokenizer header code', 'ostream sink model (irsym_cxx): operator<< / endl append bytes, honour width/fill',
                   'texts longer than the bound, tabs and other characters are outside the claim']

    def classify(v):
        return v['msg'] if v['kind'] == 'assert' else v['kind'] + ': ' + re.sub(r'0x[0-9a-f]+', 'ADDR', re.sub(r'\d+', 'N', v['msg']))[:110]

    def keyfn(u_, r, v, cls):
        return 'C17:%s' % cls
    return run_e2('C17', tier, [u], rule, assumptions, classify=classify, keyfn=keyfn)


if __name__ == '__main__':
    import argparse
    ap = argparse.ArgumentParser(); ap.add_argument('--tier', default=os.environ.get('VERIF_TIER', 'quick')); ap.add_argument('--only')
    a = ap.parse_args()
    if getattr(a, 'only', None) or getattr(a, 'caps', None):
        os.environ['VERIF_PARTIAL'] = '1'
    sys.exit(guarded_main(lambda: main(a.tier, a.only)))
