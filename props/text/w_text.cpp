// E2 harness for C17: TextBlock::format on a symbolic text.
#include "vs.h"
#include "celma/format/text_block.hpp"
#include <sstream>
#include <string>
#include <vector>
using celma::format::TextBlock;
namespace {
std::vector<std::string> words_of(const std::string& s, bool drop_nn) {
   std::vector<std::string> out; std::string cur;
   for (char c : s) {
      if (c == ' ' || c == '\n') { if (!cur.empty() && !(drop_nn && cur == "nn")) out.push_back(cur); cur.clear(); }
      else cur += c;
   }
   if (!cur.empty() && !(drop_nn && cur == "nn")) out.push_back(cur);
   return out;
}
}
// len bytes over the alphabet {a, b, n, -, ' ', '\n'}; indent, width, first-line mode concrete
HX void hx_textblock(uint64_t len, uint64_t indent, uint64_t width, uint64_t first) {
   char b[12]; vs_sym(b, len, "val");
   std::string text;
   for (uint64_t i = 0; i < len; ++i) {
      char c = b[i];
      vs_assume(c == 'a' || c == 'b' || c == 'n' || c == '-' || c == ' ' || c == '\n');
      text += c;
   }
   std::ostringstream oss;
   TextBlock tb((int) indent, (int) width, first != 0);
   tb.format(oss, text);
   const std::string out = oss.str();
   // 1. words preserved (the forced-break token "nn" is consumed)
   auto win = words_of(text, true), wout = words_of(out, false);
   vs_assert(win.size() == wout.size(), "no word lost or duplicated");
   if (win.size() == wout.size())
      for (size_t i = 0; i < win.size(); ++i) vs_assert(win[i] == wout[i], "words keep their order and are not split");
   // 2. lines: indentation, width
   size_t start = 0; size_t lineno = 0;
   size_t in_newline_groups = 0;    // number of non-empty input lines
   { std::string cur; for (char c : text) { if (c == '\n') { if (!words_of(cur, true).empty()) ++in_newline_groups; cur.clear(); } else cur += c; } if (!words_of(cur, true).empty()) ++in_newline_groups; }
   size_t out_lines = 0;
   while (!out.empty() && start <= out.size()) {
      size_t end = out.find('\n', start); if (end == std::string::npos) end = out.size();
      std::string line = out.substr(start, end - start);
      bool has_indent = !(lineno == 0 && !first);
      if (has_indent) {
         vs_assert(line.size() >= indent, "every line starts with the indentation");
         for (size_t i = 0; i < indent && i < line.size(); ++i) vs_assert(line[i] == ' ', "every line starts with the indentation");
      }
      size_t nwords = words_of(line, false).size();
      size_t shown = line.size() + ((lineno == 0 && !first) ? indent : 0);     // the caller has already written `indent` columns
      vs_assert(shown <= width || nwords <= 1, "no line longer than the width unless it holds a single word");
      if (nwords) ++out_lines;
      ++lineno; start = end + 1;
      if (end == out.size()) break;
   }
   vs_assert(out_lines >= in_newline_groups, "every input line starts a new output line");
   vs_note("outlen", out.size());
}

// structured texts: an optional leading "- " (list line), nw words of symbolic length 1..3, single spaces,
// an optional forced-break token "nn" after word `nnpos` (0 = none); checks as above.
HX void hx_textblock_words(uint64_t nw, uint64_t dash_nn, uint64_t indent, uint64_t width) {
   bool dash = dash_nn & 1; unsigned nnpos = (unsigned) (dash_nn >> 1);
   std::string text = dash ? "-" : "";
   for (uint64_t i = 0; i < nw; ++i) {
      unsigned len = vs_u8("len"); vs_assume(len >= 1 && len <= 3);
      if (!text.empty()) text += ' ';
      text += std::string(len, (char) ('a' + i));
      if (nnpos == i + 1) text += " nn";
   }
   std::ostringstream oss;
   TextBlock tb((int) indent, (int) width, true);
   tb.format(oss, text);
   const std::string out = oss.str();
   auto win = words_of(text, true), wout = words_of(out, false);
   vs_assert(win.size() == wout.size(), "no word lost or duplicated");
   if (win.size() == wout.size())
      for (size_t i = 0; i < win.size(); ++i) vs_assert(win[i] == wout[i], "words keep their order and are not split");
   size_t start = 0;
   while (!out.empty() && start <= out.size()) {
      size_t end = out.find('\n', start); if (end == std::string::npos) end = out.size();
      std::string line = out.substr(start, end - start);
      vs_assert(line.size() >= indent, "every line starts with the indentation");
      for (size_t i = 0; i < indent && i < line.size(); ++i) vs_assert(line[i] == ' ', "every line starts with the indentation");
      vs_assert(line.size() <= width || words_of(line, false).size() <= 1, "no line longer than the width unless it holds a single word");
      start = end + 1;
      if (end == out.size()) break;
   }
   vs_note("outlen", out.size());
}
