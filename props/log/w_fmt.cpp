// E2 harnesses for C16: format definition builder, rendering dispatch, attribute precedence.
#include "vs.h"
#include "celma/log/formatting/creator.hpp"
#include "celma/log/formatting/definition.hpp"
#include "celma/log/formatting/format.hpp"
#include "celma/log/logging.hpp"
#include "celma/log/log_attributes.hpp"
#include "celma/log/detail/log_msg.hpp"
#include "celma/log/detail/log_scoped_attribute.hpp"
#include <sstream>
#include <string>
#include <vector>
using namespace celma::log;
namespace fmt = celma::log::formatting;
namespace {
struct Probe : fmt::Definition {
   explicit Probe(const fmt::Definition& d) : fmt::Definition(d) {}
   size_t n() const { return mFields.size(); }
   int type(size_t i) const { return (int) mFields[i].mType; }
   const std::string& constant(size_t i) const { return mFields[i].mConstant; }
   int width(size_t i) const { return mFields[i].mFixedWidth; }
   bool left(size_t i) const { return mFields[i].mAlignLeft; }
};
struct RefField { int type; std::string constant; int width; bool left; };
using FT = fmt::Definition::FieldTypes;
// step kinds of the builder sequences
enum Step { S_NONE, S_CONST, S_LEVEL, S_CLASS, S_LINE, S_TEXT, S_ERRNBR, S_FUNC, S_FILE, S_ATTR, S_PID, S_DATEFMT, S_TIME_MS, S_EMPTY /* constant text of length 0 */ };
int step_type(int s) {
   switch (s) { case S_EMPTY: return (int) FT::constant; case S_CONST: return (int) FT::constant; case S_LEVEL: return (int) FT::msgLevel; case S_CLASS: return (int) FT::msgClass; case S_LINE: return (int) FT::lineNbr; case S_TEXT: return (int) FT::text;
                case S_ERRNBR: return (int) FT::errorNbr; case S_FUNC: return (int) FT::functionName; case S_FILE: return (int) FT::fileName; case S_ATTR: return (int) FT::attribute; case S_PID: return (int) FT::pid;
                case S_DATEFMT: return (int) FT::date; default: return (int) FT::time_ms; }
}
// runs the builder sequence on the real Creator and on the reference list
void build(fmt::Definition& def, std::vector<RefField>& ref, uint64_t seq, bool autosep) {
   fmt::Creator c(def, autosep ? " | " : nullptr);
   for (; seq & 15; seq >>= 4) {
      int s = (int) (seq & 15);
      int w = vs_u8("width"); vs_assume(w <= 6);
      bool left = vs_u8("left") & 1;
      if (w > 0) c << w;
      if (left) c << fmt::left;
      std::string constant;
      if (s == S_DATEFMT) { c << fmt::formatString("%H"); constant = "%H"; }
      switch (s) {
      case S_CONST: c << std::string("abc"); constant = "abc"; break;
      case S_EMPTY: c << std::string(""); constant = ""; break;
      case S_LEVEL: c << fmt::level; break;
      case S_CLASS: c << fmt::log_class; break;
      case S_LINE: c << fmt::line_nbr; break;
      case S_TEXT: c << fmt::text; break;
      case S_ERRNBR: c << fmt::error_nbr; break;
      case S_FUNC: c << fmt::func_name; break;
      case S_FILE: c << fmt::filename; break;
      case S_ATTR: c << fmt::attribute("k"); constant = "k"; break;
      case S_PID: c << fmt::pid; break;
      case S_DATEFMT: c << fmt::date; break;
      default: c << fmt::time_ms; break;
      }
      if (autosep && !ref.empty()) ref.push_back(RefField{(int) FT::constant, " | ", 0, false});
      ref.push_back(RefField{step_type(s), constant, w, left});      // width / alignment / format string apply to this field only
   }
}
std::string pad(const std::string& s, int w, bool left) {
   if ((int) s.size() >= w) return s;
   return left ? s + std::string(w - s.size(), ' ') : std::string(w - s.size(), ' ') + s;
}
std::string dec(unsigned v) { std::string r; do { r.insert(r.begin(), (char) ('0' + v % 10)); v /= 10; } while (v); return r; }
} // namespace

// (a) builder -> definition
HX void hx_creator(uint64_t seq, uint64_t autosep) {
   fmt::Definition def; std::vector<RefField> ref;
   build(def, ref, seq, autosep != 0);
   Probe p(def);
   vs_assert(p.n() == ref.size(), "definition holds the fields in definition order, with the automatic separator between fields");
   if (p.n() != ref.size()) return;
   for (size_t i = 0; i < ref.size(); ++i) {
      vs_assert(p.type(i) == ref[i].type, "field kind");
      vs_assert(p.constant(i) == ref[i].constant, "constant text / format string / attribute name of the field");
      vs_assert(p.width(i) == ref[i].width, "fixed width applies to the next field only");
      vs_assert(p.left(i) == ref[i].left, "left alignment applies to the next field only");
   }
   vs_note("fields", p.n());
}
// (b) rendering of every field kind except date/time (strftime/localtime are libc): text, width, alignment
HX void hx_format(uint64_t seq, uint64_t autosep) {
   fmt::Definition def; std::vector<RefField> ref;
   build(def, ref, seq, autosep != 0);
   detail::LogMsg msg("file.cpp", "int ns::Klass::method(int)", 0);
   // message data is symbolic exactly where the definition shows it
   auto has = [&](FT t) { for (auto& r : ref) if (r.type == (int) t) return true; return false; };
   unsigned level = has(FT::msgLevel) ? vs_u8("level") : 3, klass = has(FT::msgClass) ? vs_u8("class") : 2;
   unsigned line = has(FT::lineNbr) ? vs_u8("line") : 7, err = (has(FT::errorNbr) && !has(FT::lineNbr)) ? vs_u8("err") : 5;
   vs_assume(level <= 6 && klass <= 6 && line <= 12 && err <= 12);
   unsigned char tb[2] = {'h', 'i'};
   if (has(FT::text)) { vs_sym(tb, 2, "text"); vs_assume(tb[0] >= ' ' && tb[0] < 127 && tb[1] >= ' ' && tb[1] < 127); }
   std::string text((const char*) tb, 2);
   detail::LogMsg m2("file.cpp", "int ns::Klass::method(int)", (int) line);
   m2.setLevel((LogLevel) level); m2.setClass((LogClass) klass); m2.setErrorNumber((int) err); m2.setText(text);
   LogAttributes attrs("k", "mine"); m2.setAttributes(attrs);
   std::ostringstream oss;
   fmt::Format f(def);
   f.format(oss, m2);
   std::string want;
   for (auto& r : ref) {
      std::string t;
      switch ((FT) r.type) {
      case FT::constant: t = r.constant; break;
      case FT::msgLevel: t = detail::logLevel2text((LogLevel) level); break;
      case FT::msgClass: t = detail::logClass2text((LogClass) klass); break;
      case FT::lineNbr: t = dec(line); break;
      case FT::text: t = text; break;
      case FT::errorNbr: t = dec(err); break;
      case FT::functionName: t = m2.getFunctionName(); break;
      case FT::fileName: t = "file.cpp"; break;
      case FT::attribute: t = "mine"; break;
      case FT::pid: t = dec((unsigned) m2.getProcessId()); break;
      default: return;      // date / time kinds: not rendered here
      }
      want += pad(t, r.width, r.left);
   }
   vs_assert(oss.str() == want, "rendered text = fields in definition order, each padded to its width and aligned as requested");
   vs_note("len", has(FT::pid) ? 0 : oss.str().size());
}
// (c) attributes: most recent definition wins, message attributes before global ones, scopes remove exactly their attribute
// history: 3 bits per operation: 1 add global k=g1, 2 add global k=g2, 3 remove global k, 4 open scope k=s, 5 close the innermost open scope, 6 message attribute k=m, 7 add global j=x
HX void hx_attributes(uint64_t hist, uint64_t) {
   auto& lg = Logging::instance();
   std::vector<std::pair<std::string, std::string>> ref; std::string msg_attr;
   std::vector<detail::ScopedAttribute*> scopes; LogAttributes mine;
   for (; hist & 7; hist >>= 3) {
      switch (hist & 7) {
      case 1: lg.addAttribute("k", "g1"); ref.push_back({"k", "g1"}); break;
      case 2: lg.addAttribute("k", "g2"); ref.push_back({"k", "g2"}); break;
      case 3: lg.removeAttribute("k"); for (size_t i = ref.size(); i-- > 0;) if (ref[i].first == "k") { ref.erase(ref.begin() + i); break; } break;
      case 4: scopes.push_back(new detail::ScopedAttribute("k", "s")); ref.push_back({"k", "s"}); break;
      case 5: if (!scopes.empty()) { delete scopes.back(); scopes.pop_back(); for (size_t i = ref.size(); i-- > 0;) if (ref[i].first == "k") { ref.erase(ref.begin() + i); break; } } break;
      case 6: mine.addAttribute("k", "m"); msg_attr = "m"; break;
      case 7: lg.addAttribute("j", "x"); ref.push_back({"j", "x"}); break;
      }
   }
   std::string want = msg_attr;
   if (want.empty()) for (size_t i = ref.size(); i-- > 0;) if (ref[i].first == "k") { want = ref[i].second; break; }
   fmt::Definition def; { fmt::Creator c(def); c << std::string("[") << fmt::attribute("k") << std::string("]"); }
   detail::LogMsg m("file.cpp", "f", 1); m.setAttributes(mine);
   std::ostringstream oss; fmt::Format f(def); f.format(oss, m);
   vs_assert(oss.str() == "[" + want + "]", "attribute field shows the most recent value: message attributes first, then global ones, ended scopes removed");
   vs_assert(lg.getAttribute("j") == (std::string) ([&] { for (size_t i = ref.size(); i-- > 0;) if (ref[i].first == "j") return ref[i].second; return std::string(); })(), "other attributes are untouched");
}

// (d) date / time / date-time fields: rendered with the custom format string if one was given, else as calendar date
// (yyyy-mm-dd), time (hh:mm:ss) or both; the oracle is strftime() itself (libc contract, TZ=UTC), the time stamp is a
// concrete value chosen by the driver, width and alignment are symbolic
HX void hx_dates(uint64_t kind, uint64_t custom, uint64_t ts) {
   static const char* const CUSTOM[] = {nullptr, "%H", "%d.%m.%Y", "%Y week %V", "%j", "%y%m%d-%H%M%S", "%c", "%A, %d %B %Y", "%x %X|%c|%c", "%D%T%F"};
   static const char* const DEFAULT[] = {"%Y-%m-%d", "%H:%M:%S", "%Y-%m-%d %H:%M:%S"};
   ::setenv("TZ", "UTC0", 1); ::tzset();
   fmt::Definition def;
   int w = vs_u8("width"); vs_assume(w <= 24);
   bool left = vs_u8("left") & 1;
   {
      fmt::Creator c(def);
      c << std::string("<");
      if (w > 0) c << w;
      if (left) c << fmt::left;
      if (CUSTOM[custom]) c << fmt::formatString(CUSTOM[custom]);
      if (kind == 0) c << fmt::date; else if (kind == 1) c << fmt::time; else c << fmt::date_time;
      c << std::string(">") << fmt::date;          // the format string applies to one field only
   }
   detail::LogMsg m("file.cpp", "f", 1);
   m.setTimestamp((time_t) ts);
   std::ostringstream oss; fmt::Format f(def); f.format(oss, m);
   time_t t = (time_t) ts; char buf[128];
   ::strftime(buf, sizeof(buf), CUSTOM[custom] ? CUSTOM[custom] : DEFAULT[kind], ::localtime(&t));
   std::string want = "<" + pad(buf, w, left) + ">";
   ::strftime(buf, sizeof(buf), DEFAULT[0], ::localtime(&t));
   want += buf;
   vs_assert(oss.str() == want, "date/time field = time stamp of the message rendered with the field's format string (default: calendar date / time), padded and aligned");
}

// (d2) the process id shown is the id of the process that created the message - also when the process id changes between two
// messages (the logging process forked: modelled by vs_setpid, which getpid() follows)
HX void hx_pid(uint64_t, uint64_t) {
   fmt::Definition def; { fmt::Creator c(def); c << fmt::pid << std::string("|") << fmt::text; }
   fmt::Format f(def);
   unsigned p1 = 1234, p2 = 56789;
   vs_setpid((int) p1);
   detail::LogMsg m1("file.cpp", "f", 1); m1.setText("one");
   std::ostringstream o1; f.format(o1, m1);
   vs_setpid((int) p2);
   detail::LogMsg m2("file.cpp", "f", 2); m2.setText("two");
   std::ostringstream o2; f.format(o2, m2);
   std::ostringstream o3; f.format(o3, m1);
   vs_assert(o1.str() == dec(p1) + "|one" && o3.str() == o1.str(), "the process id field shows the id of the process that created the message");
   vs_assert(o2.str() == dec(p2) + "|two", "a message created after the process id changed (fork) shows the new process id");
}

// (d3) a message keeps the second of its creation time: created 0..999 ms into a second (driver: 0, 250, 499, 500, 750, 999), the
// date/time fields show that second, not the next one (also just before midnight / the end of a year)
extern "C" void vs_setclock(uint64_t nanoseconds_since_epoch);
HX void hx_clock(uint64_t base_seconds, uint64_t ms) {
   ::setenv("TZ", "UTC0", 1); ::tzset();
   vs_setclock(base_seconds * 1000000000ull + ms * 1000000ull);
   detail::LogMsg m("file.cpp", "f", 1);
   fmt::Definition def; { fmt::Creator c(def); c << fmt::date_time; }
   std::ostringstream oss; fmt::Format f(def); f.format(oss, m);
   time_t t = (time_t) base_seconds; char buf[64];
   ::strftime(buf, sizeof(buf), "%Y-%m-%d %H:%M:%S", ::localtime(&t));
   vs_assert(oss.str() == buf, "date/time fields show the second in which the message was created (no rounding up)");
}

// (e) hierarchies of message attribute objects: the innermost object that defines the attribute wins, outer objects are
// searched level by level, global attributes only when no level defines it.  `levels` objects, the subset of levels that
// define "k" (twice at a level: the newer value wins) and the presence of a global "k" are symbolic.
HX void hx_attr_hier(uint64_t levels, uint64_t) {
   auto& lg = Logging::instance();
   unsigned defs = vs_u8("defs"), twice = vs_u8("twice"), glob = vs_u8("global") & 1;
   vs_assume(defs < (1u << levels) && twice < (1u << levels));
   static const char* const VAL[] = {"v0", "v1", "v2", "v3", "v4"};
   static const char* const VAL2[] = {"w0", "w1", "w2", "w3", "w4"};
   if (glob) lg.addAttribute("k", "global");
   std::vector<LogAttributes*> objs; std::string want;
   for (unsigned i = 0; i < levels; ++i) {          // level 0 is the outermost
      LogAttributes* a = i == 0 ? new LogAttributes : new LogAttributes(objs.back());
      if ((defs >> i) & 1) {
         a->addAttribute("k", VAL[i]); want = VAL[i];
         if ((twice >> i) & 1) { a->addAttribute("k", VAL2[i]); want = VAL2[i]; }
      }
      a->addAttribute("other", "o");
      objs.push_back(a);
   }
   if (want.empty() && glob) want = "global";
   fmt::Definition def; { fmt::Creator c(def); c << std::string("[") << fmt::attribute("k") << std::string("]"); }
   detail::LogMsg m("file.cpp", "f", 1); m.setAttributes(*objs.back());
   std::ostringstream oss; fmt::Format f(def); f.format(oss, m);
   vs_assert(oss.str() == "[" + want + "]", "attribute field shows the value of the innermost attribute object that defines it, global value only if none does");
}
