// E2 harnesses for C14: filters, logs, destinations.
#include "vs.h"
#include "celma/log/logging.hpp"
#include "celma/log/detail/log.hpp"
#include "celma/log/detail/log_msg.hpp"
#include "celma/log/detail/i_log_dest.hpp"
#include "celma/log/filter/filters.hpp"
#include "celma/log/filter/detail/duplicate_policy.hpp"
#include "celma/log/log_macros.hpp"
#include "celma/log/detail/helper_function.hpp"
#include <stdexcept>
using namespace celma::log;
using celma::log::filter::Filters;
using DP = celma::log::filter::detail::DuplicatePolicy;

namespace {
const char* const CLASS_LISTS[] = {"SysCall", "Data", "Communication", "Application", "Accounting", "Operator Action",
                                   "Data,Accounting", "syscall,operator action", "Communication,Application,Data"};
const unsigned CLASS_MASKS[] = {1u << 1, 1u << 2, 1u << 3, 1u << 4, 1u << 5, 1u << 6, (1u << 2) | (1u << 5), (1u << 1) | (1u << 6), (1u << 3) | (1u << 4) | (1u << 2)};
// reference model of one Filters object
struct Ref {
   int max = -1, min = -1, lvl = -1; int cls = -1; int last_level_kind = 0;   // 1 max 2 min 3 level
   bool throws = false;
   void set(int kind, int param, int policy) {
      int* slot = kind == 1 ? &max : kind == 2 ? &min : kind == 3 ? &lvl : &cls;
      if (*slot >= 0) {
         if (policy == (int) DP::exception) { throws = true; return; }
         if (policy == (int) DP::replace) *slot = param;
      } else *slot = param;
      if (kind <= 3) last_level_kind = kind;
   }
   bool pass(int level, int klass) const {
      if (max >= 0 && !(level <= max)) return false;
      if (min >= 0 && !(level >= min)) return false;
      if (lvl >= 0 && !(level == lvl)) return false;
      if (cls >= 0 && !((CLASS_MASKS[cls] >> klass) & 1)) return false;
      return true;
   }
};
struct RecDest : detail::ILogDest { int count = 0; void message(const detail::LogMsg&) override { ++count; } };
int sym_level(const char* n) { unsigned char v = vs_u8(n); vs_assume(v <= 6); return v; }
// apply filter setting number k (kind 1..4) to f; returns false if it threw
bool apply(Filters& f, Ref& r, int kind, int policy, int cls_idx, const char* pname) {
   int param = kind == 4 ? cls_idx : sym_level(pname);
   Ref before = r;
   r.set(kind, param, policy);
   try {
      if (kind == 1) f.maxLevel((LogLevel) param);
      else if (kind == 2) f.minLevel((LogLevel) param);
      else if (kind == 3) f.level((LogLevel) param);
      else f.classes(CLASS_LISTS[cls_idx]);
   } catch (const std::exception&) {
      vs_assert(r.throws, "setting a filter throws only under the 'exception' duplicate policy for a duplicate type");
      r = before; r.throws = false;
      return false;
   }
   vs_assert(!r.throws, "duplicate filter type under the 'exception' policy is refused");
   r.throws = false;
   return true;
}
} // namespace

// one Filters object, up to three settings (kinds k1,k2,k3 in 0..4, 0 = none), duplicate policy, class-list index
HX void hx_filters(uint64_t policy, uint64_t kinds, uint64_t cls_idx) {
   Filters::setDuplicatePolicy((DP) policy);
   Filters f; Ref r;
   for (int i = 0; i < 3; ++i) { int k = (kinds >> (4 * i)) & 15; if (k) apply(f, r, k, (int) policy, (int) cls_idx, "level"); }
   detail::LogMsg msg("file.cpp", "func", 42);
   int level = sym_level("msglevel"), klass = sym_level("msgclass");
   msg.setLevel((LogLevel) level); msg.setClass((LogClass) klass);
   bool p = f.pass(msg);
   vs_assert(p == r.pass(level, klass), "pass() accepts precisely the levels and classes named by the filters");
   bool pl = f.processLevel((LogLevel) level);
   vs_assert(pl || !p, "the level pre-check never discards a message that the filters let through");
   vs_note("pass", p);
}
// every single class name (any letter case) selects exactly that class
HX void hx_class_names(uint64_t cls_idx, uint64_t) {
   Filters::setDuplicatePolicy(DP::ignore);
   Filters f; int rc = 0;
   try { f.classes(CLASS_LISTS[cls_idx]); } catch (const std::exception&) { rc = 1; } catch (...) { rc = 2; }
   vs_assert(rc == 0, "every documented log class can be named in a class filter");
   if (rc) return;
   detail::LogMsg msg("file.cpp", "func", 42);
   int klass = sym_level("msgclass"); msg.setClass((LogClass) klass); msg.setLevel(LogLevel::info);
   vs_assert(f.pass(msg) == (bool) ((CLASS_MASKS[cls_idx] >> klass) & 1), "class filter accepts exactly the listed classes");
}
// two logs with two destinations each; filters on logs and destinations; message sent to a symbolic set of log ids
HX void hx_logging(uint64_t kinds /* 4 bits per filter site: log1, log2, d11, d12, d21, d22 */, uint64_t policy, uint64_t cls_idx) {
   Filters::setDuplicatePolicy((DP) policy);
   auto& lg = Logging::instance();
   id_t id1 = lg.findCreateLog("one"), id2 = lg.findCreateLog("two");
   vs_assert(id1 != id2 && lg.findCreateLog("one") == id1, "log ids are stable and distinct");
   RecDest* d[2][2]; Ref rl[2], rd[2][2];
   detail::Log* logs[2] = {lg.getLog(id1), lg.getLog(id2)};
   for (int l = 0; l < 2; ++l) {
      int k = (kinds >> (4 * l)) & 15; if (k) apply(*logs[l], rl[l], k, (int) policy, (int) cls_idx, "level");
      for (int j = 0; j < 2; ++j) {
         d[l][j] = new RecDest;
         logs[l]->addDestination(j ? "b" : "a", d[l][j]);
         int kd = (kinds >> (8 + 8 * l + 4 * j)) & 15; if (kd) apply(*d[l][j], rd[l][j], kd, (int) policy, (int) cls_idx, "level");
      }
   }
   detail::LogMsg msg("file.cpp", "func", 42);
   int level = sym_level("msglevel"), klass = sym_level("msgclass");
   msg.setLevel((LogLevel) level); msg.setClass((LogClass) klass);
   unsigned sel = vs_u8("logs"); vs_assume(sel <= 3);
   id_t mask = ((sel & 1) ? id1 : 0) | ((sel & 2) ? id2 : 0);
   lg.log(mask, msg);
   for (int l = 0; l < 2; ++l)
      for (int j = 0; j < 2; ++j) {
         int want = (((sel >> l) & 1) && rl[l].pass(level, klass) && rd[l][j].pass(level, klass)) ? 1 : 0;
         vs_assert(d[l][j]->count == want, "destination receives the message exactly once iff its log is selected and log and destination filters pass");
      }
}

// routing by id mask: n logs with one counting destination each, an arbitrary subset of the ids selected
// (also non-contiguous subsets, bits of logs that do not exist are ignored); a max-level filter on one log
HX void hx_routing(uint64_t nlogs, uint64_t filtered) {
   static const char* const NAMES[] = {"l0", "l1", "l2", "l3", "l4", "l5"};
   auto& lg = Logging::instance();
   id_t ids[6]; RecDest* d[6];
   for (unsigned i = 0; i < nlogs; ++i) {
      ids[i] = lg.findCreateLog(NAMES[i]);
      for (unsigned j = 0; j < i; ++j) vs_assert((ids[i] & ids[j]) == 0, "log ids are distinct bits");
      d[i] = new RecDest; lg.getLog(ids[i])->addDestination("d", d[i]);
   }
   int maxlevel = sym_level("level");
   if (filtered < nlogs) lg.getLog(ids[filtered])->maxLevel((LogLevel) maxlevel);
   detail::LogMsg msg("file.cpp", "func", 42);
   int level = sym_level("msglevel"); msg.setLevel((LogLevel) level); msg.setClass(LogClass::data);
   unsigned sel = vs_u8("logs"); vs_assume(sel < (2u << nlogs));          // one bit more than there are logs
   id_t mask = 0;
   for (unsigned i = 0; i <= nlogs; ++i) if ((sel >> i) & 1) mask |= (i < nlogs) ? ids[i] : (ids[nlogs - 1] << 1);
   lg.log(mask, msg);
   for (unsigned i = 0; i < nlogs; ++i) {
      int want = ((sel >> i) & 1) && !(i == filtered && level > maxlevel);
      vs_assert(d[i]->count == want, "every selected log hands the message to its destination exactly once, no other log does");
   }
}

// the logging macros with the cheap level pre-check (LOG_LEVEL -> detail::discard_by_level): for every filter setting of the log
// (kinds as in hx_filters), every duplicate policy and every message level, the macro delivers exactly what LOG() without the
// pre-check delivers; a log id / name that does not exist delivers nothing and does not fail.  how: 0 by id, 1 by name
#define SEND_LEVEL(spec, L) case (int) LogLevel::L: LOG_LEVEL(spec, L) << LogClass::data << "text"; break
HX void hx_macros(uint64_t policy, uint64_t kinds, uint64_t how) {
   Filters::setDuplicatePolicy((DP) policy);
   auto& lg = Logging::instance();
   id_t id = lg.findCreateLog("app"); id_t other = lg.findCreateLog("other");
   detail::Log* log = lg.getLog(id); Ref r;
   for (int i = 0; i < 2; ++i) { int k = (kinds >> (4 * i)) & 15; if (k) apply(*log, r, k, (int) policy, 2, "level"); }
   RecDest* d = new RecDest; log->addDestination("d", d);
   RecDest* e = new RecDest; log->addDestination("e", e);
   Ref rd, re;          // filters of the two destinations (kinds in bits 8-11 / 12-15)
   { int k = (kinds >> 8) & 15; if (k) apply(*d, rd, k, (int) policy, 2, "level"); k = (kinds >> 12) & 15; if (k) apply(*e, re, k, (int) policy, 2, "level"); }
   RecDest* d2 = new RecDest; lg.getLog(other)->addDestination("d", d2);
   int level = sym_level("msglevel"); vs_assume(level >= 1);        // level 0 is 'undefined'
   // (1) without the pre-check
   LOG(id) << (LogLevel) level << LogClass::data << "text";
   const int plain_d = d->count, plain_e = e->count;
   vs_assert(plain_d == ((r.pass(level, (int) LogClass::data) && rd.pass(level, (int) LogClass::data)) ? 1 : 0) && plain_e == ((r.pass(level, (int) LogClass::data) && re.pass(level, (int) LogClass::data)) ? 1 : 0),
             "LOG() delivers exactly the messages that pass the filters of the log and of the destination");
   // (2) with the pre-check
   int rc = 0;
   try {
      if (how == 0) switch (level) { SEND_LEVEL(id, fatal); SEND_LEVEL(id, error); SEND_LEVEL(id, warning); SEND_LEVEL(id, info); SEND_LEVEL(id, debug); SEND_LEVEL(id, fullDebug); }
      else switch (level) { SEND_LEVEL("app", fatal); SEND_LEVEL("app", error); SEND_LEVEL("app", warning); SEND_LEVEL("app", info); SEND_LEVEL("app", debug); SEND_LEVEL("app", fullDebug); }
   } catch (...) { rc = 1; }
   vs_assert(rc == 0, "logging through the macros does not fail");
   vs_assert(d->count - plain_d == plain_d && e->count - plain_e == plain_e, "the level pre-check of the logging macros neither discards a message that the filters let through nor lets another one through (for every destination)");
   vs_assert(d2->count == 0, "no other log receives the message");
   // (3) a log that does not exist
   const int before = d->count;
   try { LOG_LEVEL("no-such-log", error) << "text"; LOG_LEVEL((id_t) (other << 1), error) << "text"; } catch (...) { rc = 1; }
   vs_assert(rc == 0 && d->count == before && d2->count == 0, "a log that does not exist receives nothing, logging to it does not fail");
   // (4) the log is created after it was looked up in vain: from then on it receives its messages
   id_t late = lg.findCreateLog("no-such-log"); RecDest* dl = new RecDest; lg.getLog(late)->addDestination("d", dl);
   try { LOG_LEVEL("no-such-log", error) << LogClass::data << "text"; LOG_LEVEL(late, warning) << LogClass::data << "text"; } catch (...) { rc = 1; }
   vs_assert(rc == 0 && dl->count == 2, "a log created after an unsuccessful lookup of its name receives the messages logged to it afterwards");
}
