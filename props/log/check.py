#!/usr/bin/env python3-vt
"""C14: log filters / delivery - E2 (irsym + z3)."""
import sys, os, glob, itertools
sys.path.insert(0, os.path.join(os.path.dirname(os.path.abspath(__file__)), '..', '..', 'engine'))
from e2 import *
HERE = os.path.dirname(os.path.abspath(__file__))


def lib_srcs():
    out = []
    for p in ['src/library/log/*.cpp', 'src/library/log/detail/*.cpp', 'src/library/log/filter/*.cpp', 'src/library/log/filter/detail/*.cpp', 'src/library/log/formatting/*.cpp',
              'src/library/log/filename/*.cpp', 'src/library/log/files/*.cpp', 'src/library/common/*.cpp', 'src/library/common/detail/*.cpp', 'src/library/format/*.cpp', 'src/library/format/detail/*.cpp']:
        out += sorted(glob.glob(os.path.join(REPO, p)))
    return [os.path.relpath(f, REPO) for f in out if not f.endswith('print_version_info.cpp') and not f.endswith('add_log_standard_args.cpp')]


KN = {0: '-', 1: 'max', 2: 'min', 3: 'level', 4: 'classes'}


def main(tier, only=None):
    shapes = []
    seqs = [s for n in (1, 2, 3) for s in itertools.product((1, 2, 3, 4), repeat=n)]
    if tier == 'quick':
        seqs = [s for s in seqs if len(s) <= 2] + [(1, 2, 1), (3, 3, 3), (4, 1, 4), (2, 4, 2), (1, 2, 3), (4, 4, 1)]
    for policy in (0, 1, 2):
        for s in seqs:
            kinds = sum(k << (4 * i) for i, k in enumerate(s))
            for ci in ((0, 6) if 4 in s else (0,)):
                shapes.append(('hx_filters', [policy, kinds, ci], 'filters/p%d/%s/c%d' % (policy, '-'.join(KN[k] for k in s), ci)))
    for ci in range(9):
        shapes.append(('hx_class_names', [ci, 0], 'class_names/%d' % ci))
    sites = [(1, 0, 0, 0, 0, 0), (0, 0, 2, 0, 0, 0), (3, 0, 0, 4, 0, 0), (1, 2, 2, 1, 3, 4), (4, 4, 1, 0, 0, 2), (0, 0, 0, 0, 0, 0), (2, 1, 4, 3, 1, 2)]
    if tier != 'quick':
        sites += [tuple((a + i) % 5 for i in range(6)) for a in range(5)] + [(3, 3, 3, 3, 3, 3), (4, 4, 4, 4, 4, 4)]
    for st in sites:
        kinds = sum(k << (4 * i) for i, k in enumerate(st))
        for policy in ((2,) if tier == 'quick' else (0, 2)):
            shapes.append(('hx_logging', [kinds, policy, 6], 'logging/p%d/%s' % (policy, '.'.join(KN[k] for k in st))))
    if only:
        shapes = [s for s in shapes if re.search(only, s[2])]
    u = E2Unit('log_C14', os.path.join(HERE, 'w_log.cpp'), lib_srcs=lib_srcs(), shapes=shapes, timeout=300 if tier == 'quick' else 1200, conc_cap=300,
               bounds=dict(filter_settings='sequences of <= 3 settings (type enumerated, level parameters symbolic over the whole enum)', message='level and class symbolic over the whole enums',
                           duplicate_policy='ignore / exception / replace', logging='2 logs x 2 destinations, 6 filter sites, log-id mask symbolic'))
    rule = ('one obligation = (duplicate policy, sequence of filter types[, filter sites]); inside, every filter level, the message level/class and the log selection are symbolic; '
            'z3 decides agreement with the truth-table reference on every path')
    assumptions = ['IR of the unmodified log library sources + libstdc++ headers', 'clock / pid / thread id: fixed environment values', 'allocation never fails',
                   'irsym executor (validated per run against the native build)']

    def classify(v):
        return v['msg'] if v['kind'] == 'assert' else v['kind'] + ': ' + re.sub(r'0x[0-9a-f]+', 'ADDR', re.sub(r'\d+', 'N', v['msg']))[:110]

    def keyfn(u_, r, v, cls):
        return 'C14:%s|%s' % (r['label'].split('/')[0], cls)
    return run_e2('C14', tier, [u], rule, assumptions, classify=classify, keyfn=keyfn)


if __name__ == '__main__':
    import argparse
    ap = argparse.ArgumentParser(); ap.add_argument('--tier', default=os.environ.get('VERIF_TIER', 'quick')); ap.add_argument('--only')
    a = ap.parse_args(); sys.exit(main(a.tier, a.only))
