#!/usr/bin/env python3-vt
"""C14: log filters / delivery - E2 (irsym + z3)."""
import sys, os, glob, itertools
sys.path.insert(0, os.path.join(os.path.dirname(os.path.abspath(__file__)), '..', '..', 'engine'))
from e2 import *
HERE = os.path.dirname(os.path.abspath(__file__))


def lib_srcs():
    out = []
    for p in ['src/library/log/*.cpp', 'src/library/log/detail/*.cpp', 'src/library/log/filter/*.cpp', 'src/library/log/filter/detail/*.cpp', 'src/library/log/formatting/*.cpp',
              'src/library/log/filename/*.cpp', 'src/library/log/files/*.cpp', 'src/library/common/*.cpp', 'src/library/common/detail/*.cpp', 'src/library/format/*.cpp', 'src/library/format/detail/*.cpp']:
        out += sorted(glob.glob(os.path.join(REPO, p)))
    return [os.path.relpath(f, REPO) for f in out if not f.endswith('print_version_info.cpp') and not f.endswith('add_log_standard_args.cpp')]


KN = {0: '-', 1: 'max', 2: 'min', 3: 'level', 4: 'classes'}


def c16_main(tier, only=None):
    shapes = []
    kinds = list(range(1, 13))
    seqs = [(k,) for k in kinds] + [(a, b) for a in (1, 2, 4, 5, 9, 11) for b in (1, 3, 5, 6, 12)] + [(1, 2, 3), (5, 9, 4), (11, 1, 7), (2, 2, 2), (8, 10, 6)]
    if tier != 'quick':
        seqs += [(a, b) for a in kinds for b in kinds] + [(1, 2, 3, 4), (5, 6, 7, 8), (9, 10, 11, 12), (4, 4, 1, 1)]
    for sq in sorted(set(seqs)):
        code = sum(k << (4 * i) for i, k in enumerate(sq))
        for sep in (0, 1):
            shapes.append(('hx_creator', [code, sep], 'creator/%s/sep%d' % ('-'.join(map(str, sq)), sep)))
            if not any(k in (11, 12) for k in sq):
                if tier == 'quick' and (len(sq) > 2 or (len(sq) == 2 and sq not in ((1, 5), (2, 3), (4, 6), (9, 1), (5, 3), (2, 1)))):
                    continue
                if len(sq) > 3:          # rendering of four symbolic fields forks beyond the time budget: the builder part is checked for them, the rendering for <= 3 fields
                    continue
                shapes.append(('hx_format', [code, sep], 'format/%s/sep%d' % ('-'.join(map(str, sq)), sep)))
    ops = (1, 2, 3, 4, 5, 6, 7)
    hists = [h for n in (1, 2, 3) for h in itertools.product(ops, repeat=n)]
    if tier == 'quick':
        rng = random.Random(SEED); hists = [h for h in hists if len(h) <= 2] + rng.sample([h for h in hists if len(h) == 3], 60)
    else:
        rng = random.Random(SEED); hists += rng.sample(list(itertools.product(ops, repeat=4)), 300)
    # same-name nesting with another attribute added while the inner scope is open (scope end must remove exactly its own entry)
    for h in itertools.product(ops, repeat=4):
        if 4 in h and 5 in h and h.index(4) < len(h) - 1 - h[::-1].index(5) and any(x in (7, 1, 2) for x in h[h.index(4) + 1:len(h) - 1 - h[::-1].index(5)]) and any(x in (1, 2, 4) for x in h[:h.index(4)] + h[h.index(4) + 1:]):
            if h not in hists:
                hists.append(h)
    for h in hists:
        if h.count(5) > h.count(4):
            continue
        shapes.append(('hx_attributes', [sum(k << (3 * i) for i, k in enumerate(h)), 0], 'attributes/' + ''.join(map(str, h))))
    for lv in ((1, 3, 4) if tier == 'quick' else (1, 2, 3, 4, 5)):
        shapes.append(('hx_attr_hier', [lv, 0], 'attr_hier/%d' % lv))
    # time stamps (UTC): epoch, last/first second of a day, 2017-09-27 17:17:28 (in-tree test), new-year days where ISO week year != calendar year,
    # leap day, end of a leap year, 2038 boundary
    stamps = [0, 86399, 86400, 1506532648, 1546214400, 1546300799, 1546300800, 1609459200, 1582934400, 1609459199, 2147483647, 2147483648]
    if tier == 'quick':
        stamps = [86399, 86400, 1506532648, 1546214400, 1609459200, 1582934400]
    for kind in range(3):
        for custom in range(10):
            for ts in stamps:
                if tier == 'quick' and custom > 0 and ts not in (86399, 1546214400):
                    continue
                shapes.append(('hx_dates', [kind, custom, ts], 'dates/k%d/f%d/t%d' % (kind, custom, ts)))
    shapes.append(('hx_pid', [0, 0], 'pid/changes between messages'))
    # messages created at an instant with a fraction of a second (the clock is the harness' own): the second is not rounded up
    for base in (1506532648, 86399, 1609459199):
        for ms in (0, 250, 499, 500, 750, 999):
            if tier == 'quick' and base != 86399 and ms not in (500, 999):
                continue
            shapes.append(('hx_clock', [base, ms], 'clock/t%d/ms%d' % (base, ms)))
    # constant fields with empty text keep their place (and their automatic separator)
    for sq in ((13,), (1, 13, 4), (4, 13), (13, 13, 5), (2, 13, 1)):
        code = sum(k << (4 * i) for i, k in enumerate(sq))
        for sep in (0, 1):
            shapes.append(('hx_creator', [code, sep], 'creator/%s/sep%d' % ('-'.join(map(str, sq)), sep)))
            if len(sq) <= 2:
                shapes.append(('hx_format', [code, sep], 'format/%s/sep%d' % ('-'.join(map(str, sq)), sep)))
    if only:
        shapes = [s for s in shapes if re.search(only, s[2])]
    u = E2Unit('log_C16', os.path.join(HERE, 'w_fmt.cpp'), lib_srcs=lib_srcs(), shapes=shapes, timeout=600 if tier == 'quick' else 1800, conc_cap=300,
               bounds=dict(definition='builder sequences of 1-3 (4 thorough) fields over 12 field kinds, width 0..6 and alignment symbolic, automatic separator on/off',
                           message='level/class symbolic over the enums, line and error number 0..20 symbolic, text 2 symbolic printable bytes (each symbolic where the definition shows it)', attributes='histories of <= 3 (4 thorough) add/remove/scope/message operations', attribute_hierarchy='chains of 1, 3, 4 (thorough 1..5) message attribute objects, defining subset symbolic', dates='3 date/time kinds x default + 9 custom format strings (incl. dense ones: %c, %A %B, several %c) x 6 (thorough 12) time stamps incl. day/year/ISO-week-year boundaries, width 0..24 and alignment symbolic'))
    rule = ('one obligation = (builder sequence or attribute history); widths, alignment flags and message data symbolic; z3 decides equality with the reference definition / reference rendering on every path')
    assumptions = ['IR of creator.cpp, format.cpp, log_msg.cpp, log_attributes*.cpp, logging.cpp + libstdc++ headers', 'ostream padding (setw/left/fill) is produced by the sink model of irsym_cxx following [ostream.formatted]: the real padding code is in libstdc++.so',
                   'date/time fields: localtime()/strftime() are modelled by their libc contract for concrete time stamps (listed set, TZ=UTC); arbitrary time stamps and the calendar arithmetic of libc are outside the technique', 'clock fixed; getpid() returns what the harness set with vs_setpid (process id change = fork model)']

    def classify(v):
        return v['msg'] if v['kind'] == 'assert' else v['kind'] + ': ' + re.sub(r'0x[0-9a-f]+', 'ADDR', re.sub(r'\d+', 'N', v['msg']))[:110]

    def keyfn(u_, r, v, cls):
        return 'C16:%s|%s' % (r['label'].split('/')[0], cls)
    return run_e2('C16', tier, [u], rule, assumptions, classify=classify, keyfn=keyfn)


def main(tier, only=None):
    shapes = []
    seqs = [s for n in (1, 2, 3) for s in itertools.product((1, 2, 3, 4), repeat=n)]
    if tier == 'quick':
        seqs = [s for s in seqs if len(s) <= 2] + [(1, 2, 1), (3, 3, 3), (4, 1, 4), (2, 4, 2), (1, 2, 3), (4, 4, 1)]
    for policy in (0, 1, 2):
        for s in seqs:
            kinds = sum(k << (4 * i) for i, k in enumerate(s))
            for ci in ((0, 6) if 4 in s else (0,)):
                shapes.append(('hx_filters', [policy, kinds, ci], 'filters/p%d/%s/c%d' % (policy, '-'.join(KN[k] for k in s), ci)))
    for ci in range(9):
        shapes.append(('hx_class_names', [ci, 0], 'class_names/%d' % ci))
    # the logging macros with the level pre-check (LOG_LEVEL / detail::discard_by_level), log given by id and by name
    for policy in (0, 1, 2):
        # (log filter kinds..., then destination kinds in positions 2 and 3)
        for sq in [(0,), (1,), (2,), (3,), (4,), (1, 2), (2, 1), (3, 1), (1, 1), (2, 3), (4, 2), (0, 0, 1, 0), (0, 0, 1, 2), (1, 0, 2, 1), (0, 0, 3, 1), (2, 0, 0, 3), (0, 0, 1, 1)]:
            kinds = sum(k << (4 * i) for i, k in enumerate(sq))
            for how in ((0, 1) if policy == 2 or tier != 'quick' else (0,)):
                shapes.append(('hx_macros', [policy, kinds, how], 'macros/p%d/%s/%s' % (policy, '-'.join(KN[k] if k else 'none' for k in sq), 'id' if how == 0 else 'name')))
    sites = [(1, 0, 0, 0, 0, 0), (0, 0, 2, 0, 0, 0), (3, 0, 0, 4, 0, 0), (1, 2, 2, 1, 3, 4), (4, 4, 1, 0, 0, 2), (0, 0, 0, 0, 0, 0), (2, 1, 4, 3, 1, 2)]
    if tier != 'quick':
        sites += [tuple((a + i) % 5 for i in range(6)) for a in range(5)] + [(3, 3, 3, 3, 3, 3), (4, 4, 4, 4, 4, 4)]
    for st in sites:
        kinds = sum(k << (4 * i) for i, k in enumerate(st))
        for policy in ((2,) if tier == 'quick' else (0, 2)):
            shapes.append(('hx_logging', [kinds, policy, 6], 'logging/p%d/%s' % (policy, '.'.join(KN[k] for k in st))))
    for n in ((3, 4) if tier == 'quick' else (1, 2, 3, 4, 5)):
        for flt in sorted(set((0, n - 1, n))):
            shapes.append(('hx_routing', [n, flt], 'routing/n%d/f%d' % (n, flt)))
    if only:
        shapes = [s for s in shapes if re.search(only, s[2])]
    u = E2Unit('log_C14', os.path.join(HERE, 'w_log.cpp'), lib_srcs=lib_srcs(), shapes=shapes, timeout=900 if tier == 'quick' else 3600, conc_cap=300,
               bounds=dict(filter_settings='sequences of <= 3 settings (type enumerated, level parameters symbolic over the whole enum)', message='level and class symbolic over the whole enums',
                           duplicate_policy='ignore / exception / replace', logging='2 logs x 2 destinations, 6 filter sites, log-id mask symbolic', routing='3 and 4 logs (thorough 1..5), every id subset incl. non-contiguous ones and one undefined bit'))
    rule = ('one obligation = (duplicate policy, sequence of filter types[, filter sites]); inside, every filter level, the message level/class and the log selection are symbolic; '
            'z3 decides agreement with the truth-table reference on every path')
    assumptions = ['IR of the unmodified log library sources + libstdc++ headers', 'clock / pid / thread id: fixed environment values', 'allocation never fails',
                   'irsym executor (validated per run against the native build)']

    def classify(v):
        return v['msg'] if v['kind'] == 'assert' else v['kind'] + ': ' + re.sub(r'0x[0-9a-f]+', 'ADDR', re.sub(r'\d+', 'N', v['msg']))[:110]

    def keyfn(u_, r, v, cls):
        return 'C14:%s|%s' % (r['label'].split('/')[0], cls)
    return run_e2('C14', tier, [u], rule, assumptions, classify=classify, keyfn=keyfn)


if __name__ == '__main__':
    import argparse
    ap = argparse.ArgumentParser(); ap.add_argument('prop', nargs='?', default='C14'); ap.add_argument('--tier', default=os.environ.get('VERIF_TIER', 'quick')); ap.add_argument('--only')
    a = ap.parse_args()
    if getattr(a, 'only', None) or getattr(a, 'caps', None):
        os.environ['VERIF_PARTIAL'] = '1'
    sys.exit(guarded_main(lambda: (c16_main if a.prop == 'C16' else main)(a.tier, a.only)))
