/* C19 harnesses.  BN = buffer size, K = number of calls in the fresh-buffer sequences. */
#ifndef BN
#define BN 4
#endif
#ifndef K
#define K 3
#endif
#define NIN 96
#include "harness.h"
#if defined(VH_NO_GEN)
#elif defined(__CPROVER__) || defined(VH_GENERATED)
#define ext_vh_read vh_read_impl
#define ext_vh_write vh_write_impl
uint64_t vh_read_impl(uint8_t* dst, uint64_t maxlen);
uint32_t vh_write_impl(uint8_t* src, uint64_t len);
#include "w_buf_gen.c"
#else
#include "w_buf_gen_protos.h"
#define vh_read_impl vh_read
#define vh_write_impl vh_write
#endif
static int vh_k;
static uint64_t nx(void) { return IN(vh_k++); }
#define BEGIN() do { vh_k = 0; spos = 0; wpos = 0; nreads = 0; nwrites = 0; fail_at = -1; } while (0)
#define SMAX (K * (BN + 1) + 2 * BN + 4)
static uint8_t stream[SMAX]; static uint64_t spos;   /* source: arbitrary byte stream, read position */
static uint8_t sunk[SMAX]; static uint64_t wpos;      /* sink: record of everything written */
static int nreads;
static int nwrites, fail_at;                         /* the sink refuses its fail_at-th write (documented: writeData() throws) */
static uint64_t chunk[SMAX];                         /* chunk sizes the source delivers (symbolic) */
/* environment source: contract = returns 1..maxlen bytes */
uint64_t vh_read_impl(uint8_t* dst, uint64_t maxlen)
{
  CHECK(maxlen >= 1, "C19 source asked for at least one byte");
  uint64_t n = chunk[nreads < SMAX ? nreads : SMAX - 1]; nreads++;
  ASSUME(n >= 1 && n <= maxlen && spos + n <= SMAX);
  for (uint64_t i = 0; i < SMAX; i++) if (i < n) dst[i] = stream[spos + i];
  spos += n; return n;
}
uint32_t vh_write_impl(uint8_t* src, uint64_t len)
{
  if (nwrites++ == fail_at) return 1;
  ASSUME(wpos + len <= SMAX);
  for (uint64_t i = 0; i < SMAX; i++) if (i < len) sunk[wpos + i] = src[i];
  wpos += len; return 0;
}
static void mk_stream(void)
{
  uint64_t w = 0;
  for (int i = 0; i < SMAX; i++) { if (i % 8 == 0) w = nx(); stream[i] = (uint8_t)(w >> (8 * (i % 8))); }
  for (int i = 0; i < SMAX; i++) chunk[i] = 0;
  for (int i = 0; i < K * (BN + 1) + 2; i++) chunk[i] = nx();
}

/* (i) K gets of arbitrary length 0..BN+1 from a fresh buffer, arbitrary source chunking */
HARNESS(h_rb_seq) { BEGIN(); mk_stream();
  uint64_t lens[K]; uint64_t tot = 0; int first_big = -1;
  for (int i = 0; i < K; i++) { lens[i] = nx(); ASSUME(lens[i] <= BN + 1); if (lens[i] > BN && first_big < 0) first_big = i; if (first_big < 0) tot += lens[i]; }
  uint8_t* out = vh_alloc(K * (BN + 1));
  int done = 0; int rc = vw_rb_seq(out, lens, K, &done); OUT(rc); OUT(done);
  if (first_big < 0) { CHECK(rc == 0 && done == K, "C19 in-range requests are served"); }
  else { CHECK(rc == 1 && done == first_big, "C19 request larger than the buffer is refused with std::runtime_error"); }
  for (uint64_t i = 0; i < K * (BN + 1); i++) if (i < tot) { CHECK(out[i] == stream[i], "C19 bytes returned are the bytes of the source, in order"); OUT(out[i]); }
  CHECK(spos >= tot, "C19 no byte invented");
  WITNESS_END(); }

/* (ii) inductive step: arbitrary valid window, one get() */
HARNESS(h_rb_step) { BEGIN(); mk_stream();
  uint64_t start = nx(), end = nx(), len = nx();
  ASSUME(start <= end && end <= BN); ASSUME(len <= BN + 1);
  uint64_t avail = end - start;
  uint8_t* content = vh_alloc(BN);
  { uint64_t w = nx(); for (int i = 0; i < BN; i++) content[i] = (uint8_t)(w >> (8 * (i % 8))); }
  /* abstraction relation: the window holds the next 'avail' undelivered bytes of the stream */
  for (uint64_t i = 0; i < BN; i++) if (i < avail) content[start + i] = stream[i];
  spos = avail;
  uint8_t* out = vh_alloc(len);
  uint64_t s2 = start, e2 = end;
  int rc = vw_rb_step(content, &s2, &e2, out, len); OUT(rc); OUT(s2); OUT(e2);
  if (len > BN) { CHECK(rc == 1, "C19 request larger than the buffer is refused"); CHECK(s2 == start && e2 == end && spos == avail, "C19 refused request leaves the buffer untouched"); }
  else {
    CHECK(rc == 0, "C19 in-range request is served");
    CHECK(s2 <= e2 && e2 <= BN, "C19 window invariant start <= end <= N");
    for (uint64_t i = 0; i < BN; i++) if (i < len) { CHECK(out[i] == stream[i], "C19 bytes returned are the next bytes of the stream"); OUT(out[i]); }
    CHECK(spos == len + (e2 - s2), "C19 buffered amount accounts for every byte read from the source");
    for (uint64_t i = 0; i < BN; i++) if (i < e2 - s2) CHECK(content[s2 + i] == stream[len + i], "C19 window again holds the next undelivered bytes");
    if (len <= avail) CHECK(nreads == 0, "C19 no source access when the buffer already holds the data");
  }
  WITNESS_END(); }

/* (i) K appends of arbitrary length 0..BN+1 to a fresh buffer, optional final flush */
HARNESS(h_wb_seq) { BEGIN();
  uint64_t lens[K]; uint64_t tot = 0;
  for (int i = 0; i < K; i++) { lens[i] = nx(); ASSUME(lens[i] <= BN + 1); tot += lens[i]; }
  uint8_t* in = vh_alloc(tot);
  { uint64_t w = 0; for (uint64_t i = 0; i < K * (BN + 1); i++) { if (i % 8 == 0) w = nx(); if (i < tot) in[i] = (uint8_t)(w >> (8 * (i % 8))); } }
  int fl = (int)(nx() & 1); uint64_t buffered = 0;
  int rc = vw_wb_seq(in, lens, K, fl, &buffered); OUT(rc); OUT(buffered); OUT(wpos);
  CHECK(rc == 0, "C19 appends succeed");
  CHECK(wpos + buffered == tot, "C19 every appended byte is either in the sink or still buffered");
  CHECK(buffered <= BN, "C19 buffered() <= N");
  if (fl) CHECK(buffered == 0 && wpos == tot, "C19 after flush() everything reached the sink");
  for (uint64_t i = 0; i < K * (BN + 1); i++) if (i < wpos) CHECK(sunk[i] == in[i], "C19 sink receives the appended bytes once and in order");
  WITNESS_END(); }

/* (ii) inductive step: arbitrary valid state, one append() or flush() */
HARNESS(h_wb_step) { BEGIN();
  uint64_t pos = nx(), len = nx(); int op = (int)(nx() & 1);
  ASSUME(pos <= BN); ASSUME(len <= BN + 2);
  uint8_t* content = vh_alloc(BN);
  uint8_t pend[BN + 1];
  { uint64_t w = nx(); for (int i = 0; i < BN; i++) { content[i] = (uint8_t)(w >> (8 * (i % 8))); pend[i] = content[i]; } }
  uint8_t* data = vh_alloc(len);
  { uint64_t w = nx(); for (uint64_t i = 0; i < BN + 2; i++) if (i < len) data[i] = (uint8_t)(w >> (8 * (i % 8))); }
  uint64_t p2 = pos;
  { uint64_t fa = nx(); ASSUME(fa <= 2); fail_at = (int) fa - 1; }       /* -1: the sink works, 0 / 1: it refuses its first / second write */
  int rc = vw_wb_step(content, &p2, op, data, len); OUT(rc); OUT(p2); OUT(wpos);
  if (fail_at >= 0 && nwrites > fail_at) {
    /* a write was refused: the call fails, and no byte that was buffered before is lost or duplicated - a repeated flush() delivers it */
    CHECK(rc == 1, "C19 a refused write makes append()/flush() fail with the exception of the sink");
    CHECK(p2 <= BN && wpos + p2 == pos, "C19 after a refused write every buffered byte is still either buffered or in the sink, once");
    for (uint64_t i = 0; i < BN; i++) if (i < pos) { uint8_t got = i < wpos ? sunk[i] : content[i - wpos]; CHECK(got == pend[i], "C19 byte order preserved after a refused write"); }
    WITNESS_END();
    return;
  }
  CHECK(rc == 0, "C19 append/flush succeed (and buffered() reports the write position)");
  CHECK(p2 <= BN, "C19 write position <= N");
  uint64_t total = pos + (op == 0 ? len : 0);
  CHECK(wpos + p2 == total, "C19 pending + new bytes = sink + buffered");
  /* order: sink followed by the buffer content equals pending followed by data */
  for (uint64_t i = 0; i < 2 * BN + 2; i++) if (i < total) {
    uint8_t want = i < pos ? pend[i] : data[i - pos];
    uint8_t got = i < wpos ? sunk[i] : content[i - wpos];
    CHECK(got == want, "C19 byte order preserved across buffer and sink");
  }
  if (op == 1) CHECK(p2 == 0, "C19 flush() empties the buffer");
  if (op == 0 && len >= BN) CHECK(p2 == 0 && wpos == total, "C19 oversized append is passed through after flushing what was buffered");
  if (op == 0 && len < BN && len <= BN - pos) CHECK(wpos == 0, "C19 data that fits is buffered, not written");
  WITNESS_END(); }

HARNESS(h_null) { BEGIN(); int a = vw_null(0), b = vw_null(1); OUT(a); OUT(b);
  CHECK(a == 1 && b == 1, "C19 NULL data pointer is refused with std::runtime_error"); ASSUME(nx() != 12345); WITNESS_END(); }

#if defined(__CPROVER__)
void ext___cxa_pure_virtual(void) { __CPROVER_assert(0, "pure virtual call"); __CPROVER_assume(0); }
void ext___assert_fail(uint8_t* a, uint8_t* f, uint32_t l, uint8_t* fn) { __CPROVER_assert(0, "assert() failed"); __CPROVER_assume(0); }
#elif defined(VH_GENERATED)
void ext___cxa_pure_virtual(void) { abort(); }
void ext___assert_fail(uint8_t* a, uint8_t* f, uint32_t l, uint8_t* fn) { abort(); }
#endif
