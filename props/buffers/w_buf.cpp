// Wrapper TU for C19: ReadBuffer<BN,P> / WriteBuffer<BN,P> with environment source/sink.
#include "celma/common/read_buffer.hpp"
#include "celma/common/write_buffer.hpp"
#ifndef BN
#define BN 4
#endif
#ifdef COUNTING
using RP = celma::common::ReadCountPolicy; using WP = celma::common::WriteCountPolicy;
#else
using RP = celma::common::EmptyReadPolicy; using WP = celma::common::EmptyWritePolicy;
#endif
extern "C" unsigned long vh_read(unsigned char* dst, unsigned long maxlen);   // harness: environment source
extern "C" int vh_write(const unsigned char* src, unsigned long len);          // harness: environment sink; != 0: the sink cannot write (nothing was written)
struct RB : celma::common::ReadBuffer<BN, RP> { size_t readData(unsigned char* d, size_t l) override { return vh_read(d, l); } };
struct WB : celma::common::WriteBuffer<BN, WP> { void writeData(const unsigned char* const d, size_t l) const override { if (vh_write(d, l) != 0) throw std::runtime_error("sink cannot write"); } };
namespace {
// layout twins (Itanium ABI: vptr, non-polymorphic base P, then the members)
#ifdef COUNTING
struct RawRB { void* vptr; size_t pol[4]; unsigned char* buf; size_t start; size_t end; };
struct RawWB { void* vptr; size_t pol[4]; unsigned char* buf; size_t pos; };
#else
struct RawRB { void* vptr; unsigned char* buf; size_t start; size_t end; };
struct RawWB { void* vptr; unsigned char* buf; size_t pos; };
#endif
static_assert(sizeof(RawRB) == sizeof(RB), "layout"); static_assert(sizeof(RawWB) == sizeof(WB), "layout");
}
#define W extern "C" __attribute__((noinline))
// k gets from a fresh buffer. returns 0 ok, 1 std::runtime_error, 2 other std::exception, 3 anything else; *done = completed gets
W int vw_rb_seq(unsigned char* out, const unsigned long* lens, int k, int* done) {
   *done = 0;
   try { RB rb; unsigned long o = 0; for (int i = 0; i < k; ++i) { rb.get(out + o, lens[i]); o += lens[i]; ++*done; } return 0; }
   catch (const std::runtime_error&) { return 1; } catch (const std::exception&) { return 2; } catch (...) { return 3; }
}
// one get() from an arbitrary window state
W int vw_rb_step(const unsigned char* content, unsigned long* start, unsigned long* end, unsigned char* out, unsigned long len) {
   RB rb; auto* r = reinterpret_cast<RawRB*>(&rb);
   for (unsigned long i = 0; i < BN; ++i) r->buf[i] = content[i];
   r->start = *start; r->end = *end;
   int rc = 0;
   try { rb.get(out, len); } catch (const std::runtime_error&) { rc = 1; } catch (const std::exception&) { rc = 2; } catch (...) { rc = 3; }
   *start = r->start; *end = r->end;
   for (unsigned long i = 0; i < BN; ++i) const_cast<unsigned char*>(content)[i] = r->buf[i];
   return rc;
}
W int vw_wb_seq(const unsigned char* in, const unsigned long* lens, int k, int do_flush, unsigned long* buffered) {
   try { WB wb; unsigned long o = 0; for (int i = 0; i < k; ++i) { wb.append(in + o, lens[i]); o += lens[i]; } if (do_flush) wb.flush(); *buffered = wb.buffered(); return 0; }
   catch (const std::runtime_error&) { return 1; } catch (const std::exception&) { return 2; } catch (...) { return 3; }
}
// one append() (op 0) or flush() (op 1) from an arbitrary state
W int vw_wb_step(unsigned char* content, unsigned long* pos, int op, const unsigned char* data, unsigned long len) {
   WB wb; auto* r = reinterpret_cast<RawWB*>(&wb);
   for (unsigned long i = 0; i < BN; ++i) r->buf[i] = content[i];
   r->pos = *pos;
   int rc = 0;
   try { if (op == 0) wb.append(data, len); else wb.flush(); } catch (const std::runtime_error&) { rc = 1; } catch (const std::exception&) { rc = 2; } catch (...) { rc = 3; }
   if (wb.buffered() != r->pos) rc = 4;
   *pos = r->pos;
   for (unsigned long i = 0; i < BN; ++i) content[i] = r->buf[i];
   return rc;
}
W int vw_null(int which) {
   try { if (which == 0) { RB rb; rb.get((unsigned char*) nullptr, 1); } else { WB wb; wb.append((const unsigned char*) nullptr, 1); } return 0; }
   catch (const std::runtime_error&) { return 1; } catch (const std::exception&) { return 2; } catch (...) { return 3; }
}
