#!/usr/bin/env python3
"""C19: ReadBuffer / WriteBuffer - E1 (ll2c + CBMC)."""
import sys, os
sys.path.insert(0, os.path.join(os.path.dirname(os.path.abspath(__file__)), '..', '..', 'engine'))
from e1 import *
HERE = os.path.dirname(os.path.abspath(__file__))


def main(tier, only=None):
    cfgs = [(1, 3, 0), (2, 2, 0), (3, 2, 1), (4, 2, 0)] if tier == 'quick' else [(1, 4, 1), (2, 3, 0), (3, 3, 1), (4, 3, 0), (4, 2, 1), (8, 2, 0)]
    units = []
    for (n, k, counting) in cfgs:
        defs = ['BN=%d' % n, 'K=%d' % k] + (['COUNTING'] if counting else [])
        units.append(Unit('buffers', 'N%d_K%d_%s' % (n, k, 'count' if counting else 'empty'), os.path.join(HERE, 'w_buf.cpp'), os.path.join(HERE, 'h_buf.c'),
                          defines=defs, gen='w_buf_gen', unwind=k * (n + 1) + 2 * n + 8, only=only, vec_small=n + 3,
                          timeout=900 if tier == 'quick' else 3600,
                          bounds=dict(buffer_size=n, calls_in_sequence=k, request_len='0..N+1 (seq) / 0..N+2 (append step)', policy='counting' if counting else 'empty',
                                      source_chunking='arbitrary 1..maxlen per call', inductive_step='arbitrary valid window/write position')))
    rule = ('one obligation = (harness, buffer size N, K, policy): CBMC decides stream fidelity/bounds for every request-size pattern, every source chunking and '
            '(step harnesses) every valid pre-state; non-trivial = decided with reachable witness')
    assumptions = ['source contract: readData returns 1..len bytes (a source returning 0 would loop: outside the claim)', 'allocation never fails',
                   'IR from clang++-14 -O1 -DNDEBUG of the unmodified headers; private state set through a layout twin (static_assert on sizeof)',
                   'buffer sizes outside the listed ones are not claimed; the inductive step harnesses cover histories of any length for the listed sizes']
    return run_units('C19', tier, units, rule, assumptions)


if __name__ == '__main__':
    import argparse
    ap = argparse.ArgumentParser(); ap.add_argument('--tier', default=os.environ.get('VERIF_TIER', 'quick')); ap.add_argument('--only')
    a = ap.parse_args()
    if getattr(a, 'only', None) or getattr(a, 'caps', None):
        os.environ['VERIF_PARTIAL'] = '1'
    sys.exit(guarded_main(lambda: main(a.tier, a.only)))
