#!/usr/bin/env python3-vt
"""C20 (Singleton, ManagedThread) and C09 (independent handlers): E2-mt - every schedule as an SMT query."""
import sys, os, glob, time, json
sys.path.insert(0, os.path.join(os.path.dirname(os.path.abspath(__file__)), '..', '..', 'engine'))
from common import *
import irsym, irsym_cxx, irsym_mt
HERE = os.path.dirname(os.path.abspath(__file__))
PA_LIBS = ['src/library/prog_args/*.cpp', 'src/library/prog_args/detail/*.cpp', 'src/library/common/*.cpp', 'src/library/common/detail/*.cpp', 'src/library/format/*.cpp',
           'src/library/format/detail/*.cpp', 'src/library/appl/*.cpp']


def build(name):
    d = workdir('e2mt', name)
    for stale in ('native_tsan', 'native_tsan.built'):          # the native build is redone from the current tree whenever it is needed
        if os.path.exists(os.path.join(d, stale)):
            os.remove(os.path.join(d, stale))
    srcs = [os.path.join(HERE, 'w_mt.cpp'), os.path.join(ENGINE, 'rt_support.cpp')]
    for p in PA_LIBS:
        srcs += [f for f in sorted(glob.glob(os.path.join(REPO, p))) if 'print_version' not in f]
    lls = pmap(lambda ks: compile_ir(ks[1], os.path.join(d, 'm%d.ll' % ks[0]), ['-I' + ENGINE]), list(enumerate(srcs)))
    link_ir(lls, os.path.join(d, 'linked.ll'))
    return irsym.IRModule(open(os.path.join(d, 'linked.ll')).read()), d, srcs


def native_tsan(d, srcs, entry, args, runs=40):
    """native confirmation: ThreadSanitizer build of the same program, run repeatedly (a schedule cannot be forced natively)"""
    exe = os.path.join(d, 'native_tsan')
    if not os.path.exists(exe + '.built'):
        objs = pmap(lambda ks: must(run(GXX_NATIVE + ['-fsanitize=thread', '-I' + ENGINE, '-c', ks[1], '-o', os.path.join(d, 'n%d.o' % ks[0])], timeout=900), 'g++') and os.path.join(d, 'n%d.o' % ks[0]),
                    list(enumerate([s for s in srcs if not s.endswith('rt_support.cpp')] + [os.path.join(ENGINE, 'vs_native.cpp'), os.path.join(HERE, 'mt_native.cpp')])))
        must(run(['g++', '-rdynamic', '-fsanitize=thread'] + objs + ['-o', exe, '-ldl', '-lpthread'], timeout=600), 'link tsan')
        open(exe + '.built', 'w').write('1')
    race = fail = 0; sample = ''
    for _ in range(runs):
        r = run([exe, entry] + [str(a) for a in args], stdin='', timeout=60, env=dict(os.environ, TSAN_OPTIONS='halt_on_error=0:report_signal_unsafe=0'))
        if 'ThreadSanitizer: data race' in r['err']:
            race += 1; sample = sample or r['err'][:1500]
        if 'FAIL ' in r['out']:
            fail += 1
    return dict(runs=runs, runs_with_race_report=race, runs_with_failed_assertion=fail, sample=sample)


def candidates(irm, entry, whiches):
    """sequential run of each thread body: writable static storage written outside static initialisation"""
    writable = set(n for n, g in irm.m.globals.items() if n in irm.gobj and not g['const'] and not g['ext'] and not g.get('tls') and not n.startswith('llvm.'))
    found = {}

    class Trace:
        shared = []

        def on_read(self, eng, st, o, off, n, order):
            return None

        def on_write(self, eng, st, o, off, cells, order):
            w = eng.where(st)
            if o.kind == 'global' and o.name in writable and '__cxx_global_var_init' not in w and '_GLOBAL__sub_I' not in w and not o.name.startswith('_ZGV'):
                found.setdefault(o.name, w[:160])
            return False

        def on_assert(self, eng, st, c, msg):
            pass

        def rmw_failed(self, eng, st):
            pass

        def __getattr__(self, name):          # lock / thread events etc. are of no interest in the sequential run
            return lambda *a, **k: None
    for w in whiches:
        eng = irsym.Engine(irm, timeout=300); eng.mt = Trace()
        eng.explore(entry, lambda e, s: [w])
    return found


RULE = ('one obligation = one multi-threaded program; every thread is executed symbolically into events, and for every combination of thread paths z3 decides over all schedules '
        '(integer event clocks: program order, lock exclusion, start/join, reads-from) whether an assertion can fail and whether two conflicting accesses are unordered by happens-before')


def main(prop, tier):
    try:
        return main_(prop, tier)
    except irsym.EngineError as e:
        # e.g. an unmodelled external function met in the sequential pre-run: no verdict, never a crash of the check
        rep = Report(prop, tier); rep.inconc(prop + '/sequential pre-run', 'engine: %s' % e)
        return rep.finish(RULE)


def main_(prop, tier):
    rep = Report(prop, tier)
    irm, d, srcs = build(prop)
    replay_dir = os.path.join(os.environ.get('VERIF_REPLAY_DIR') or os.path.join(VERIF, 'replay'), prop)
    os.makedirs(replay_dir, exist_ok=True)
    if prop == 'C20':
        # every writable static written by an access (mpObject and whatever else the template uses) is shared state
        named = [g for g in irm.gobj if 'Singleton' in g and 'mpObject' in g and '_GLOBAL__N_13Obj' in g and not g.startswith('_ZGV')]
        scand = candidates(irm, 'hx_singleton_seq', [0])
        sshared = sorted(set(named) | set(k for k in scand if not k.startswith('_ZN12_GLOBAL__N_1') and k in irm.gobj))
        rep.extra['static_state_written_by_a_singleton_access'] = demangle(sshared)
        runs = [('singleton/2 threads', 'hx_singleton', [2], sshared, False),
                ('singleton/3 threads', 'hx_singleton', [3], sshared, False),
                ('managed_thread/worker+observer', 'hx_managed', [0], [], False),
                ('singleton/reset by another thread', 'hx_singleton_reset', [0], sshared, False),
                ('managed_thread/destroyed at once', 'hx_managed_destroy', [0], [], False)]
        if tier == 'quick':
            runs = [runs[0]] + runs[2:]
    else:
        cand = candidates(irm, 'hx_use_handler', [0, 1])
        cand = {k: v for k, v in cand.items() if 'GLOBAL__N_1' not in k}       # the harness' own result slots
        rep.extra['static_state_written_by_a_handler_evaluation'] = demangle(sorted(cand))
        runs = [('handlers/races', 'hx_handlers', [0], sorted(cand), True), ('handlers/results', 'hx_handlers', [0], sorted(cand), False)]
    for (label, entry, args, shared, races_only) in runs:
        t0 = time.time()
        if label == 'handlers/results' and rep.violations:
            # the race query already found unordered conflicting accesses to library state: with a data race the results are
            # undefined anyway, and symbolic values read from the raced location only multiply the thread paths
            rep.extra['handlers/results'] = 'skipped: data race(s) reported by handlers/races'
            continue
        # every obligation starts from a pristine module: nothing an earlier exploration left in the initial state can leak into it
        irm = irsym.IRModule(open(os.path.join(d, 'linked.ll')).read())
        mt = irsym_mt.MT(irm, shared_globals=shared, timeout=600 if tier == 'quick' else 3000, max_steps=3000000, races_only=races_only)
        mt.init_state = irm.base_state
        ob = dict(hid='%s/%s' % (prop, label), engine='E2-mt irsym + z3 schedule encoding', bounds=dict(threads=label, shared=demangle(shared), memory_model='sequential consistency for values, C++11 happens-before for races'))
        try:
            mt.run(entry, args)
            ob['status'] = 'fails' if mt.violations else 'holds'
        except irsym.EngineError as e:
            ob['status'] = 'inconclusive'; rep.inconc(ob['hid'], 'engine: %s' % e)
        ob.update(wall=round(time.time() - t0, 2), paths=mt.stats.get('thread_paths'), queries=mt.stats.get('queries'), solver_s=mt.stats.get('solver_s'),
                  combinations=mt.stats.get('combinations'), events_max=mt.stats.get('events_max'))
        rep.obligations.append(ob)
        if ob['status'] == 'holds' and mt.stats.get('combinations', 0) == 0:
            ob['status'] = 'inconclusive'; rep.inconc(ob['hid'], 'vacuous: no combination of thread paths was schedulable')
        nat = None
        for k, v in enumerate(mt.violations):
            if nat is None:
                nat = native_tsan(d, srcs, entry, args)
            rfile = os.path.join(replay_dir, re.sub(r'[^A-Za-z0-9_.-]', '_', ob['hid']) + '.%d.json' % k)
            json.dump(dict(property=prop, entry=entry, args=args, violation=v, native_tsan=nat), open(rfile, 'w'), indent=1, default=str)
            what = re.sub(r'0x[0-9a-f]+', 'ADDR', v['msg'])
            what = re.sub(r'thread \d', 'thread N', what)
            key = '%s:%s|%s' % (prop, label.split('/')[0], v['kind'] + ': ' + demangle_text(what)[:160])
            rep.violation(key, '%s: %s (schedule in the replay file; native ThreadSanitizer runs: %d/%d with a race report, %d with a failed assertion)' %
                          (label, demangle_text(what)[:200], nat['runs_with_race_report'], nat['runs'], nat['runs_with_failed_assertion']), rfile)
    rep.samples = [dict(obligation=o['hid'], verdict=o['status'], thread_paths=o.get('paths'), schedule_queries=o.get('queries')) for o in rep.obligations]
    rule = ('one obligation = one multi-threaded program; every thread is executed symbolically into events, and for every combination of thread paths z3 decides over all schedules '
            '(integer event clocks: program order, lock exclusion, start/join, reads-from) whether an assertion can fail and whether two conflicting accesses are unordered by happens-before')
    rep.assumptions = ['2-3 threads as started by the harness; more threads are outside the claim', 'sequential consistency for the value semantics; weak hardware memory models outside the claim',
                       'std::thread / std::mutex / pthread primitives are modelled as events (start, join, lock, unlock)', 'allocation never fails']
    return rep.finish(rule)


def demangle_text(t):
    names = re.findall(r'_Z\w+', t)
    for n, dn in zip(names, demangle(names)):
        t = t.replace(n, dn)
    return t


if __name__ == '__main__':
    import argparse
    ap = argparse.ArgumentParser(); ap.add_argument('prop'); ap.add_argument('--tier', default=os.environ.get('VERIF_TIER', 'quick'))
    a = ap.parse_args()
    if getattr(a, 'only', None) or getattr(a, 'caps', None):
        os.environ['VERIF_PARTIAL'] = '1'
    sys.exit(guarded_main(lambda: main(a.prop, a.tier)))
