// native counterpart of the E2-mt intrinsic: declaring a region shared has no effect in a real run
extern "C" void vs_mt_shared(void*, unsigned long) {}
