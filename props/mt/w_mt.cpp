// E2-mt harnesses for C20 (Singleton, ManagedThread) and C09 (independent handlers): ordinary multi-threaded
// C++ programs; the engine explores every schedule of their shared accesses.
#include "vs.h"
#include "celma/common/singleton.hpp"
#include "celma/common/managed_thread.hpp"
#include <atomic>
#include <new>
#include <thread>
extern "C" void vs_mt_shared(void* p, unsigned long n);
using celma::common::ManagedThread;

namespace {
int ctor_count;
struct Obj : public celma::common::Singleton<Obj> {
   friend class celma::common::Singleton<Obj>;
   int value;
protected:
   Obj() : value(42) { ++ctor_count; }
};
Obj* got[3]; int seen[3];
std::atomic<int> started, finished;
alignas(ManagedThread) unsigned char mt_storage[sizeof(ManagedThread)];
}
// address of the (private) static members, for the shared declaration
extern "C" void* vw_singleton_ptr_storage();

// n threads race for the first access
HX void hx_singleton(uint64_t nthreads) {
   vs_mt_shared(&ctor_count, sizeof ctor_count); vs_mt_shared(got, sizeof got); vs_mt_shared(seen, sizeof seen);
   // every thread looks at what the constructor wrote (ctor_count) right after it got the object: a reference handed out
   // before the constructor has finished shows up as a data race on / a wrong value of ctor_count
   std::thread t1([] { got[0] = &Obj::instance(); seen[0] = ctor_count; });
   std::thread t2([] { got[1] = &Obj::instance(); seen[1] = ctor_count; });
   if (nthreads > 2) { std::thread t3([] { got[2] = &Obj::instance(); seen[2] = ctor_count; }); t3.join(); vs_assert(seen[2] == 1, "a thread that obtained the singleton sees it completely constructed"); }
   t1.join(); t2.join();
   vs_assert(seen[0] == 1 && seen[1] == 1, "a thread that obtained the singleton sees it completely constructed");
   vs_assert(ctor_count == 1, "singleton object is constructed exactly once");
   vs_assert(got[0] != nullptr && got[0] == got[1], "all threads get the same singleton object");
}
// reset(): afterwards every thread - also one that used the singleton before - gets the same, new object
HX void hx_singleton_reset(uint64_t) {
   vs_mt_shared(&ctor_count, sizeof ctor_count); vs_mt_shared(got, sizeof got);
   got[0] = &Obj::instance();                                    // this thread has used the singleton
   std::thread t1([] { Obj::reset(); got[1] = &Obj::instance(); });    // another thread resets it and uses it again
   t1.join();
   got[2] = &Obj::instance();
   vs_assert(ctor_count == 2, "after reset() the next access constructs a new object, exactly once");
   vs_assert(got[1] != nullptr && got[2] == got[1], "after reset() all threads get the same, new singleton object");
}
// sequential first and second access (candidate detection for shared static state of the singleton template)
HX void hx_singleton_seq(uint64_t) { got[0] = &Obj::instance(); got[1] = &Obj::instance(); }
// managed thread: worker runs the user function, an observer thread started after the constructor returned samples it
HX void hx_managed(uint64_t) {
   vs_mt_shared(&started, sizeof started); vs_mt_shared(&finished, sizeof finished); vs_mt_shared(mt_storage, sizeof mt_storage);
   ManagedThread* mt = new (mt_storage) ManagedThread([] { started.store(1, std::memory_order_release); finished.store(1, std::memory_order_release); });
   std::thread obs([mt] {
      int s = started.load(std::memory_order_acquire);
      bool a = mt->isActive();
      int f = finished.load(std::memory_order_acquire);
      vs_assert(!(s == 1 && f == 0) || a, "isActive() is true while the thread function has been observed started and not finished");
   });
   obs.join();
   mt->join();
   vs_assert(!mt->isActive(), "isActive() is false after the function returned and the thread was joined");
}

// a managed thread that is destroyed right after its construction: the destructor joins (documented), i.e. the thread function
// has run to completion and nothing of the object is touched afterwards
HX void hx_managed_destroy(uint64_t) {
   vs_mt_shared(&started, sizeof started); vs_mt_shared(&finished, sizeof finished); vs_mt_shared(mt_storage, sizeof mt_storage);
   ManagedThread* mt = new (mt_storage) ManagedThread([] { started.store(1, std::memory_order_release); finished.store(1, std::memory_order_release); });
   mt->~ManagedThread();
   vs_assert(finished.load(std::memory_order_acquire) == 1, "the destructor of a managed thread waits until the thread function has returned");
   *reinterpret_cast<volatile unsigned char*>(mt_storage) = 0xAA;               // the storage (the byte of the activity flag) is re-used
}

// ---- C09: two independent handlers used concurrently (different list separators, constraints, checks)
#include "celma/prog_args.hpp"
#include <vector>
#include <string>
namespace {
int res_rc[2]; int res_sum[2]; int res_n[2];
void use_handler(int which) {
   using namespace celma::prog_args;
   int rc = 0; std::vector<int> v; int n = 0; bool f = false;
   try {
      Handler ah(Handler::hfReadProgArg);
      ah.addArgument("v,values", DEST_VAR(v), "values")->setListSep(which ? ';' : ',');
      ah.addArgument("n,number", DEST_VAR(n), "number")->addCheck(range(1, 100));
      ah.addArgument("f,flag", DEST_VAR(f), "flag")->addConstraint(requiresArg("n"));
      // handler-level constraints over different argument lists in the two threads
      if (which) ah.addConstraint(all_of("n;v")); else ah.addConstraint(all_of("f;n"));
      // "-f" comes from the program-argument file $HOME/.progargs/prog.pa (written before the threads start, read by both)
      char a0[] = "prog", a2[] = "-n", a3[] = "42", a4[] = "-v"; char a5a[] = "1,2,3", a5b[] = "1;2;3";
      char* argv[] = {a0, a2, a3, a4, which ? a5b : a5a, nullptr};
      ah.evalArguments(5, argv);
   } catch (...) { rc = 1; }
   int sum = 0; for (int x : v) sum += x;
   res_rc[which] = rc; res_sum[which] = sum * 100 + (int) v.size(); res_n[which] = n;
}
}
static void write_arg_files() { vs_setenv("HOME", "/tmp/vs_home"); static const char c[] = "# arguments of the program\n-f\n"; vs_file("/tmp/vs_home/.progargs/prog.pa", c, sizeof c - 1); }
HX void hx_handlers(uint64_t) {
   write_arg_files();
   vs_mt_shared(res_rc, sizeof res_rc); vs_mt_shared(res_sum, sizeof res_sum); vs_mt_shared(res_n, sizeof res_n);
   std::thread t1([] { use_handler(0); });
   std::thread t2([] { use_handler(1); });
   t1.join(); t2.join();
   vs_assert(res_rc[0] == 0 && res_rc[1] == 0, "both evaluations succeed as they do when running alone");
   vs_assert(res_sum[0] == 603 && res_sum[1] == 603 && res_n[0] == 42 && res_n[1] == 42, "each thread observes exactly the results it observes running alone");
}
// sequential run of one thread body (candidate detection for shared static state)
HX void hx_use_handler(uint64_t which) { write_arg_files(); use_handler((int) which); }
