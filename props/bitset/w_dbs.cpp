// E2 harnesses for C12: DynamicBitset vs a reference bit vector (size, 128-bit word).
// One harness call = one operation from an arbitrary pre-state of concrete size n (symbolic bits),
// followed by all observers.  Shapes (n, m, op) are enumerated by the driver.
#include "vs.h"
#include "celma/container/dynamic_bitset.hpp"
#include <stdexcept>
using celma::container::DynamicBitset;
typedef unsigned __int128 u128;
struct Ref { u128 w; size_t n; };
static inline u128 mask(size_t n) { return n >= 128 ? ~(u128) 0 : (((u128) 1 << n) - 1); }
static inline bool rbit(const Ref& r, size_t i) { return i < 128 && ((r.w >> i) & 1); }
static inline void rset(Ref& r, size_t i, bool v) { if (v) r.w |= (u128) 1 << i; else r.w &= ~((u128) 1 << i); }
static inline void rresize(Ref& r, size_t n, bool v) { if (n > r.n && v) r.w |= mask(n) & ~mask(r.n); r.n = n; r.w &= mask(n); }
static inline size_t grow(size_t pos) { return (size_t) ((pos + 1) * 1.5); }

// arbitrary bitset of size n: the storage words are written directly (all bits symbolic, also
// the unused bits of the last word - reachable e.g. after shrinking)
static void mk(DynamicBitset& b, Ref& r, size_t n, const char* name) {
   r.n = n; r.w = 0;
   if (n == 0) return;
   unsigned long* words = *reinterpret_cast<unsigned long**>(&b);
   for (size_t k = 0; k * 64 < n; ++k) {
      unsigned long w = vs_u64(name);
      words[k] = w;
      r.w |= (u128) w << (64 * k);
   }
   r.w &= mask(n);
}
static void observe(const DynamicBitset& b, const Ref& r) {
   vs_assert(b.size() == r.n, "size() equals reference");
   if (b.size() != r.n) return;
   if (r.n > 16) {
      // big sizes (word boundaries 63/64/65): per-bit agreement only; the aggregate observers fork per bit
      for (size_t i = 0; i < r.n; ++i) vs_assert(b.test(i) == rbit(r, i), "test(i) equals reference");
      return;
   }
   size_t cnt = 0;
   for (size_t i = 0; i < r.n; ++i) { bool t = b.test(i); vs_assert(t == rbit(r, i), "test(i) equals reference"); cnt += rbit(r, i); }
   vs_assert(b.count() == cnt, "count() equals reference");
   vs_assert(b.any() == (r.w != 0), "any() equals reference");
   vs_assert(b.none() == (r.w == 0), "none() equals reference");
   vs_assert(b.all() == (r.w == mask(r.n)), "all() equals reference");
}
static void observe_text(const DynamicBitset& b, const Ref& r) {
   std::string s = b.to_string();
   vs_assert(s.size() == r.n, "to_string() length equals size");
   for (size_t i = 0; i < r.n && i < s.size(); ++i) vs_assert(s[r.n - 1 - i] == (rbit(r, i) ? '1' : '0'), "to_string() shows bit i at position size-1-i");
   int thrown = 0; unsigned long v = 0;
   try { v = b.to_ulong(); } catch (const std::overflow_error&) { thrown = 1; } catch (...) { thrown = 2; }
   bool fits = (r.w >> 64) == 0;
   vs_assert(thrown == (fits ? 0 : 1), "to_ulong() throws std::overflow_error exactly when a bit >= 64 is set");
   if (fits && !thrown) vs_assert(v == (unsigned long) r.w, "to_ulong() equals reference value");
}
static void iterate(DynamicBitset& b, const Ref& r) {
   // forward: exactly the set positions, ascending; none for empty / all-zero
   int thrown = 0; size_t expect = 0; size_t visited = 0;
   try {
      for (auto it = b.begin(); it != b.end(); ++it) {
         while (expect < r.n && !rbit(r, expect)) ++expect;
         vs_assert(expect < r.n && *it == expect, "forward iteration visits the set positions in ascending order");
         ++expect; ++visited;
         if (visited > r.n) break;
      }
   } catch (const std::exception&) { thrown = 1; } catch (...) { thrown = 2; }
   vs_assert(thrown == 0, "forward iteration does not throw");
   if (!thrown) { while (expect < r.n && !rbit(r, expect)) ++expect; vs_assert(expect >= r.n, "forward iteration visits every set position"); }
   thrown = 0; visited = 0; size_t down = r.n;
   try {
      for (auto it = b.rbegin(); it != b.rend(); ++it) {
         while (down > 0 && !rbit(r, down - 1)) --down;
         vs_assert(down > 0 && *it == down - 1, "reverse iteration visits the set positions in descending order");
         if (down > 0) --down;
         ++visited;
         if (visited > r.n) break;
      }
   } catch (const std::exception&) { thrown = 1; } catch (...) { thrown = 2; }
   vs_assert(thrown == 0, "reverse iteration does not throw");
   if (!thrown) { while (down > 0 && !rbit(r, down - 1)) --down; vs_assert(down == 0, "reverse iteration visits every set position"); }
   const DynamicBitset& cb = b;
   thrown = 0; size_t n1 = 0, n2 = 0;
   try { for (auto it = cb.cbegin(); it != cb.cend() && n1 <= r.n; it++) ++n1; for (auto it = cb.crbegin(); it != cb.crend() && n2 <= r.n; it++) ++n2; }
   catch (...) { thrown = 1; }
   size_t cnt = 0; for (size_t i = 0; i < r.n; ++i) cnt += rbit(r, i);
   vs_assert(thrown == 0 && n1 == cnt && n2 == cnt, "const iteration visits count() positions in both directions");
   // post-increment: the returned iterator is the old position ( *it++ ), forward and reverse, const and non-const
   thrown = 0; expect = 0; visited = 0;
   try {
      for (auto it = b.begin(); it != b.end() && visited <= r.n; ++visited) {
         while (expect < r.n && !rbit(r, expect)) ++expect;
         size_t got = *it++;
         vs_assert(expect < r.n && got == expect, "post-increment returns the position the iterator stood at (forward)");
         ++expect;
      }
      while (expect < r.n && !rbit(r, expect)) ++expect;
      vs_assert(expect >= r.n, "forward iteration with post-increment visits every set position");
      down = r.n; visited = 0;
      for (auto it = cb.crbegin(); it != cb.crend() && visited <= r.n; ++visited) {
         while (down > 0 && !rbit(r, down - 1)) --down;
         size_t got = *it++;
         vs_assert(down > 0 && got == down - 1, "post-increment returns the position the iterator stood at (reverse)");
         if (down > 0) --down;
      }
      while (down > 0 && !rbit(r, down - 1)) --down;
      vs_assert(down == 0, "reverse iteration with post-increment visits every set position");
   } catch (...) { thrown = 1; }
   vs_assert(thrown == 0, "iteration with post-increment does not throw");
}
static size_t sym_pos(size_t n) {
   // position / distance: 0..n+2, or SIZE_MAX-ish values
   size_t p = vs_u64("pos");
   vs_assume(p <= n + 2);
   return p;
}
enum Op { TEST, SET, RESET, FLIP, INDEX_C, INDEX, SET_ALL, RESET_ALL, FLIP_ALL, RESIZE, AND, OR, XOR, SHL, SHR, NOT, EQ, ITER, TEXT, CTOR, N_OPS };

HX void hx_dbs(uint64_t n, uint64_t m, uint64_t op) {
   DynamicBitset b(n); Ref r; mk(b, r, n, "bits");
   switch (op) {
   case TEST: {
      size_t p = vs_u64("pos"); int thrown = 0; bool v = false;
      try { v = b.test(p); } catch (const std::out_of_range&) { thrown = 1; } catch (...) { thrown = 2; }
      vs_assert(thrown == (p < n ? 0 : 1), "test(pos) throws std::out_of_range exactly for pos >= size");
      if (p < n && !thrown) vs_assert(v == rbit(r, p), "test(pos) equals reference");
      break; }
   case SET: {
      size_t p = sym_pos(n); bool v = vs_u8("val") & 1;
      b.set(p, v);
      if (p >= r.n) rresize(r, grow(p), false);
      rset(r, p, v);
      break; }
   case RESET: {
      size_t p = sym_pos(n);
      b.reset(p);
      if (p >= r.n) rresize(r, grow(p), false);
      rset(r, p, false);
      break; }
   case FLIP: {
      size_t p = sym_pos(n);
      b.flip(p);
      if (p >= r.n) rresize(r, grow(p), false);
      rset(r, p, !rbit(r, p));
      break; }
   case INDEX_C: {
      size_t p = sym_pos(n); const DynamicBitset& cb = b; int thrown = 0; bool v = false;
      try { v = cb[p]; } catch (const std::out_of_range&) { thrown = 1; } catch (...) { thrown = 2; }
      vs_assert(thrown == (p < n ? 0 : 1), "const operator[] throws std::out_of_range exactly for pos >= size");
      if (p < n && !thrown) vs_assert(v == rbit(r, p), "const operator[] equals reference");
      break; }
   case INDEX: {
      size_t p = sym_pos(n); bool v = vs_u8("val") & 1;
      bool old = b[p];
      vs_assert(old == (p < n ? rbit(r, p) : false), "operator[] reads the reference bit (false for a new position)");
      b[p] = v;
      if (p >= r.n) rresize(r, grow(p), false);
      rset(r, p, v);
      break; }
   case SET_ALL: b.set(); r.w = mask(r.n); break;
   case RESET_ALL: b.reset(); r.w = 0; break;
   case FLIP_ALL: b.flip(); r.w = ~r.w & mask(r.n); break;
   case RESIZE: {
      size_t c = sym_pos(n); bool v = vs_u8("val") & 1;
      b.resize(c, v); rresize(r, c, v);
      break; }
   case AND: case OR: case XOR: {
      DynamicBitset o(m); Ref q; mk(o, q, m, "bits2");
      DynamicBitset bin = op == AND ? (b & o) : op == OR ? (b | o) : (b ^ o);
      if (op == AND) { b &= o; r.w &= q.w; }
      else if (op == OR) { b |= o; r.w |= q.w; if (q.n > r.n) r.n = q.n; }
      else { b ^= o; r.w ^= q.w; if (q.n > r.n) r.n = q.n; }
      vs_assert(bin.size() == b.size() && bin == b, "compound assignment equals the binary operator");
      observe(bin, r);
      break; }
   case SHL: {
      size_t p = sym_pos(n);
      DynamicBitset bin = b << p;
      b <<= p;
      if (p != 0 && r.n != 0) { r.w <<= p; r.n += p; r.w &= mask(r.n); }
      vs_assert(bin.size() == b.size() && bin == b, "<<= equals <<");
      observe(bin, r);
      break; }
   case SHR: {
      size_t p = sym_pos(n);
      DynamicBitset bin = b >> p;
      b >>= p;
      r.w = p >= 128 ? 0 : (r.w >> p);
      vs_assert(bin.size() == b.size() && bin == b, ">>= equals >>");
      observe(bin, r);
      break; }
   case NOT: {
      DynamicBitset inv = ~b; Ref q = r; q.w = ~q.w & mask(q.n);
      observe(inv, q);
      break; }
   case EQ: {
      DynamicBitset o(n); Ref q; mk(o, q, n, "bits2");
      vs_assert((b == o) == (r.w == q.w), "operator== between equal sizes equals reference");
      break; }
   case ITER: iterate(b, r); break;
   case TEXT: observe_text(b, r); break;
   case CTOR: {
      DynamicBitset c(b); observe(c, r);
      DynamicBitset d(0); d = b; observe(d, r);
      break; }
   }
   observe(b, r);
   vs_note("size", b.size());
}
// positions far beyond the size (SIZE_MAX): must throw or grow, never touch foreign memory
HX void hx_dbs_far(uint64_t n, uint64_t op) {
   DynamicBitset b(n); Ref r; mk(b, r, n, "bits");
   size_t p = ~(size_t) 0 - vs_u8("d") % 2;
   try {
      if (op == 0) (void) b.test(p);
      else if (op == 1) { const DynamicBitset& cb = b; (void) cb[p]; }
      else if (op == 2) { DynamicBitset s = b >> p; observe(s, Ref{0, r.n}); b >>= p; r.w = 0; }
      // the growing operations: a position that no bitset can hold must end in an exception, not in an access outside the storage
      else if (op == 3) { b.set(p); vs_assert(false, "set() at a position that cannot be held throws"); }
      else if (op == 4) { b.reset(p); vs_assert(false, "reset() at a position that cannot be held throws"); }
      else if (op == 5) { b.flip(p); vs_assert(false, "flip() at a position that cannot be held throws"); }
      else if (op == 6) { b[p] = true; vs_assert(false, "operator[] at a position that cannot be held throws"); }
   } catch (const std::out_of_range&) { vs_assert(op < 2, "only element access may throw out_of_range"); }
   catch (const std::length_error&) { vs_assert(op >= 3, "only the growing operations may throw length_error"); }
   observe(b, r);
}
// text/number conversion around the 64-bit boundary: sparse states (one bit at an arbitrary position,
// optionally bit 0 / all of the low word), so that the per-bit loops of to_string()/to_ulong() do not fork 2^n ways
HX void hx_dbs_text_big(uint64_t n, uint64_t mode) {
   DynamicBitset b(n); Ref r; r.n = n; r.w = 0;
   size_t p = vs_u64("pos"); vs_assume(p < n);
   b.set(p); rset(r, p, true);
   if (mode == 1) { if (vs_u8("low") & 1) { b.set(0); rset(r, 0, true); } }
   else if (mode == 2) { for (size_t i = 0; i < n && i < 64; ++i) { b.set(i); rset(r, i, true); } }
   observe_text(b, r);
}
// two-operation histories from the same arbitrary pre-state (driver enumerates op pairs)
HX void hx_dbs2(uint64_t n, uint64_t op1, uint64_t op2) {
   DynamicBitset b(n); Ref r; mk(b, r, n, "bits");
   for (int k = 0; k < 2; ++k) {
      uint64_t op = k ? op2 : op1;
      size_t p = vs_u64("pos"); vs_assume(p <= r.n + 1 && p < 24);
      switch (op) {
      case 0: b.set(p, true); if (p >= r.n) rresize(r, grow(p), false); rset(r, p, true); break;
      case 1: vs_assume(p < r.n); b.reset(p); rset(r, p, false); break;
      case 2: vs_assume(p < r.n); b.flip(p); rset(r, p, !rbit(r, p)); break;
      case 3: b.resize(p, true); rresize(r, p, true); break;
      case 4: b <<= p; if (p != 0 && r.n != 0) { r.w <<= p; r.n += p; r.w &= mask(r.n); } break;
      case 5: vs_assume(p <= r.n); b >>= p; r.w >>= p; break;
      case 6: b.flip(); r.w = ~r.w & mask(r.n); break;
      case 7: b.set(); r.w = mask(r.n); break;
      }
   }
   observe(b, r);
}
