#!/usr/bin/env python3-vt
"""C12: DynamicBitset vs reference bit vector - E2 (irsym + z3)."""
import sys, os
sys.path.insert(0, os.path.join(os.path.dirname(os.path.abspath(__file__)), '..', '..', 'engine'))
from e2 import *
HERE = os.path.dirname(os.path.abspath(__file__))
OPS = ['TEST', 'SET', 'RESET', 'FLIP', 'INDEX_C', 'INDEX', 'SET_ALL', 'RESET_ALL', 'FLIP_ALL', 'RESIZE', 'AND', 'OR', 'XOR', 'SHL', 'SHR', 'NOT', 'EQ', 'ITER', 'TEXT', 'CTOR']


def main(tier, only=None):
    sizes = [0, 1, 2, 3, 5, 64] if tier == 'quick' else [0, 1, 2, 3, 4, 5, 6, 7, 8, 9, 63, 64, 65]
    BIG_OPS = ('TEST', 'SET', 'RESET', 'FLIP', 'INDEX_C', 'INDEX', 'RESIZE')
    HEAVY = ('AND', 'OR', 'XOR', 'SHL', 'SHR', 'ITER', 'TEXT', 'EQ')
    shapes = []
    for n in sizes:
        for k, op in enumerate(OPS):
            if n > 16 and op not in BIG_OPS:
                continue
            if op in HEAVY and n > (5 if tier == 'quick' else 7):
                continue
            if op in ('AND', 'OR', 'XOR'):
                for m in sorted(set([0, 1, n, n + 1, max(n - 1, 0)])):
                    shapes.append(('hx_dbs', [n, m, k], 'n%d/%s/m%d' % (n, op, m)))
            else:
                shapes.append(('hx_dbs', [n, 0, k], 'n%d/%s' % (n, op)))
        for op in range(6):        # (non-const operator[] is noexcept and grows: an impossible position ends in std::terminate by design)
            if n <= 16:
                shapes.append(('hx_dbs_far', [n, op], 'n%d/far%d' % (n, op)))
    for n in ([64, 65] if tier == 'quick' else [63, 64, 65, 70, 128]):
        for mode in range(3):
            shapes.append(('hx_dbs_text_big', [n, mode], 'n%d/TEXT/sparse%d' % (n, mode)))
    for n in ([2, 3] if tier == 'quick' else [1, 2, 3, 4]):
        for a in range(8):
            for b in range(8):
                if tier == 'quick' and (a + b) % 3:
                    continue
                shapes.append(('hx_dbs2', [n, a, b], 'n%d/hist%d-%d' % (n, a, b)))
    if only:
        shapes = [s for s in shapes if re.search(only, s[2])]
    u = E2Unit('bitset', os.path.join(HERE, 'w_dbs.cpp'), lib_srcs=['src/library/container/dynamic_bitset.cpp'], shapes=shapes,
               timeout=900 if tier == 'quick' else 7200, conc_cap=200,
               bounds=dict(size='concrete n (all bit patterns symbolic, incl. unused storage bits)', position='0..n+2 symbolic; SIZE_MAX, SIZE_MAX-1 in far shapes',
                           second_operand='sizes 0,1,n-1,n,n+1', histories='2-operation histories over 8 mutators', text_big='to_string/to_ulong at sizes 64,65 (thorough 63..128) on sparse states: one bit at every position, optionally bit 0 or the whole low word'))
    rule = ('one obligation = (pre-state size n, operation[, operand size]): every path of the real code explored, z3 decides every branch, every memory access and '
            'every assertion against the reference bit vector for all bit patterns and positions; non-trivial = at least one path reaches the end of the harness')
    assumptions = ['IR of dynamic_bitset.cpp and libstdc++ vector<bool> header code (clang++-14 -O1 -D_GLIBCXX_ASSERTIONS)', 'allocation never fails',
                   'irsym executor (validated per run against the native build on concrete vectors)', 'sizes other than the listed ones are not claimed']

    def classify(v):
        return v['msg'] if v['kind'] == 'assert' else v['kind'] + ': ' + re.sub(r'0x[0-9a-f]+', 'ADDR', re.sub(r'\d+', 'N', v['msg']))[:100]

    def keyfn(u, r, v, cls):
        op = r['label'].split('/')[1] if '/' in r['label'] else r['label']
        op = re.sub(r'\d+-\d+$', '', op)
        return 'C12:%s|%s' % (op, cls)
    return run_e2('C12', tier, [u], rule, assumptions, classify=classify, keyfn=keyfn)


if __name__ == '__main__':
    import argparse
    ap = argparse.ArgumentParser(); ap.add_argument('--tier', default=os.environ.get('VERIF_TIER', 'quick')); ap.add_argument('--only')
    a = ap.parse_args()
    if getattr(a, 'only', None) or getattr(a, 'caps', None):
        os.environ['VERIF_PARTIAL'] = '1'
    sys.exit(guarded_main(lambda: main(a.tier, a.only)))
