// Wrapper TU for C13: buffer variants of int2string / grouped_int2string for all 8 integral types.
#include "celma/format/int2string.hpp"
#include "celma/format/grouped_int2string.hpp"
#include <cstdint>
#define W extern "C" __attribute__((noinline))
#define BOTH(nm, T) \
  W int vw_##nm(char* buf, T v) { return celma::format::int2string(buf, v); } \
  W int vw_g##nm(char* buf, T v, char gc) { return celma::format::grouped_int2string(buf, v, gc); }
BOTH(u8, uint8_t) BOTH(i8, int8_t) BOTH(u16, uint16_t) BOTH(i16, int16_t)
BOTH(u32, uint32_t) BOTH(i32, int32_t) BOTH(u64, uint64_t) BOTH(i64, int64_t)
// std::string-returning variants: length and bytes copied out (used by E2 and by the native differential run)
#define STRV(nm, T) \
  W int vw_s_##nm(char* out, T v) { std::string s = celma::format::int2string(v); for (size_t i = 0; i < s.size(); ++i) out[i] = s[i]; out[s.size()] = 0; return (int) s.size(); } \
  W int vw_s_g##nm(char* out, T v, char gc) { std::string s = celma::format::grouped_int2string(v, gc); for (size_t i = 0; i < s.size(); ++i) out[i] = s[i]; out[s.size()] = 0; return (int) s.size(); }
STRV(u8, uint8_t) STRV(i8, int8_t) STRV(u16, uint16_t) STRV(i16, int16_t)
STRV(u32, uint32_t) STRV(i32, int32_t) STRV(u64, uint64_t) STRV(i64, int64_t)
