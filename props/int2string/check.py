#!/usr/bin/env python3
"""C13 (E1 part): int2string for 8/16/32-bit types - ll2c + CBMC, one query per decade."""
import sys, os
sys.path.insert(0, os.path.join(os.path.dirname(os.path.abspath(__file__)), '..', '..', 'engine'))
from e1 import *
HERE = os.path.dirname(os.path.abspath(__file__))
LIB = ['src/library/format/detail/%sint%d_to_string.cpp' % (g, w) for g in ('', 'grouped_') for w in (8, 16, 32, 64)]


def e1_units(tier, only=None):
    # 32-bit decades above 5 digits need kissat and minutes: thorough tier only
    if only is None:
        only = r'h_g?[ui](8|16)_|h_g?[ui]32_[dpn][1-5]$' if tier == 'quick' else r'h_g?[ui](8|16|32)_'
    per = {}
    u = Unit('int2string', 'e1', os.path.join(HERE, 'w_i2s.cpp'), os.path.join(HERE, 'h_i2s.c'), lib_srcs=LIB, gen='w_i2s_gen',
             unwind=44, only=only, timeout=600 if tier == 'quick' else 3000, vec_small=1 << 20, sweep=[None, 'kissat'] if tier != 'quick' else None,
             roots_rx=r'vw_g?[ui]\d+', nvec=3000,
             bounds=dict(value='every value of the decade (all decades of the type together = all values)', group_char='any byte'))
    return [u]


if __name__ == '__main__':
    import argparse
    ap = argparse.ArgumentParser(); ap.add_argument('--tier', default=os.environ.get('VERIF_TIER', 'quick')); ap.add_argument('--only')
    a = ap.parse_args()
    rule = 'one obligation = (type, sign, digit count, plain/grouped): CBMC decides exact text/length/footprint/round-trip for every value of the decade and every group character'
    sys.exit(run_units('C13', a.tier, e1_units(a.tier, a.only), rule, ['E1 covers 8/16/32-bit types; 64-bit and std::string variants: E2']))
