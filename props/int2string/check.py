#!/usr/bin/env python3-vt
"""C13 (E1 part): int2string for 8/16/32-bit types - ll2c + CBMC, one query per decade."""
import sys, os
sys.path.insert(0, os.path.join(os.path.dirname(os.path.abspath(__file__)), '..', '..', 'engine'))
from e1 import *
HERE = os.path.dirname(os.path.abspath(__file__))
LIB = ['src/library/format/detail/%sint%d_to_string.cpp' % (g, w) for g in ('', 'grouped_') for w in (8, 16, 32, 64)]


def e1_units(tier, only=None):
    # 32-bit decades above 5 digits need kissat and minutes: thorough tier only
    if only is None:
        only = r'h_g?[ui](8|16)_|h_g?[ui]32_[dpn][1-5]$' if tier == 'quick' else r'h_g?[ui](8|16|32)_'
    per = {}
    u = Unit('int2string', 'e1', os.path.join(HERE, 'w_i2s.cpp'), os.path.join(HERE, 'h_i2s.c'), lib_srcs=LIB, gen='w_i2s_gen',
             unwind=44, only=only, timeout=600 if tier == 'quick' else 3000, vec_small=1 << 20, sweep=[None, 'kissat'] if tier != 'quick' else None,
             roots_rx=r'vw_g?[ui]\d+', nvec=3000,
             bounds=dict(value='every value of the decade (all decades of the type together = all values)', group_char='any byte'))
    return [u]


def e2_units(tier, only=None):
    from e2 import E2Unit
    shapes = []
    variants = (0, 1, 2, 3)
    for kind, nm, maxd in ((0, 'u64', 20), (1, 'i64+', 19), (2, 'i64-', 19)):
        for d in range(1, maxd + 1):
            for v in variants:
                if tier == 'quick' and v >= 2 and d not in (1, 4, 10, 13, 19, 20):
                    continue
                shapes.append(('hx_i2s64', [d, kind, v], '%s/d%d/%s' % (nm, d, ('buffer', 'grouped-buffer', 'string', 'grouped-string')[v])))
    # round trip through the library's own stringTo< T>() (strtol/strtoul modelled per the C standard), every type, every decade
    for t, (nm, maxd, sg) in enumerate((('u8', 3, 0), ('i8', 3, 1), ('u16', 5, 0), ('i16', 5, 1), ('u32', 10, 0), ('i32', 10, 1), ('u64', 20, 0), ('i64', 19, 1))):
        for d in range(1, maxd + 1):
            for neg in ((0, 1) if sg else (0,)):
                shapes.append(('hx_i2s_back', [t, d, neg], '%s%s/d%d/back' % (nm, '-' if neg else '', d)))
    if only:
        shapes = [s for s in shapes if re.search(only, s[2])]
    u_int = E2Unit('int2string_e2int', os.path.join(HERE, 'w_i2s_e2.cpp'), lib_srcs=LIB, shapes=shapes, timeout=300, validate_vectors=0, int_mode=True,
                   bounds=dict(value='every 64-bit value of the decade', group_char='any byte', encoding='bit-vector terms decided over the integers with explicit wrap-around (E2-int)'))
    # the same harness decided by bit-blasting on the short decades: cross-check of the integer encoding
    bv = [s for s in shapes if re.search(r'/d[1-4]/(buffer|grouped-buffer)$', s[2])]
    u_bv = E2Unit('int2string_e2bv', os.path.join(HERE, 'w_i2s_e2.cpp'), lib_srcs=LIB, shapes=[(a, b, 'bv:' + c) for (a, b, c) in bv], timeout=300, validate_vectors=6,
                  bounds=dict(value='every 64-bit value of the decade (decades of <= 4 digits)', encoding='bit-vector (cross-check of E2-int)'))
    return [u_int, u_bv]


if __name__ == '__main__':
    import argparse
    from e2 import run_e2
    ap = argparse.ArgumentParser(); ap.add_argument('--tier', default=os.environ.get('VERIF_TIER', 'quick')); ap.add_argument('--only')
    a = ap.parse_args()
    if getattr(a, 'only', None) or getattr(a, 'caps', None):
        os.environ['VERIF_PARTIAL'] = '1'
    def run_all():
        rule = ('one obligation = (type, sign, digit count, variant): the solver decides exact text/length/footprint/round-trip for every value of the decade and every group character '
                '(E1: CBMC on 8/16/32-bit types; E2-int: irsym with the bit-vector queries decided over the integers for the 64-bit types and the std::string variants)')
        rep = Report('C13', a.tier)
        run_units('C13', a.tier, e1_units(a.tier, a.only), rule, ['E1 covers the buffer variants of the 8/16/32-bit types'], rep=rep, finish=False)
        run_e2('C13', a.tier, e2_units(a.tier, a.only), rule, ['E2-int: wrap-around semantics of every bit-vector operation are kept by explicit mod 2^k; cross-checked against bit-blasting on the short decades',
                                                                'std::string variants of the 8/16/32-bit types are covered only through the shared convert() kernels'], rep=rep, finish=False,
               classify=lambda v: v['msg'] if v['kind'] == 'assert' else v['kind'] + ': ' + re.sub(r'\d+', 'N', v['msg'])[:100])
        return rep.finish(rule)
    sys.exit(guarded_main(run_all))
