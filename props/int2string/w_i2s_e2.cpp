// E2 harness for C13: 64-bit types (and std::string-returning variants of all widths), one decade per call.
#include "vs.h"
#include "celma/format/int2string.hpp"
#include "celma/format/grouped_int2string.hpp"
#include <cstdint>
#include <string>
#include "celma/format/string_to.hpp"
static const uint64_t P10[21] = {1ull,10ull,100ull,1000ull,10000ull,100000ull,1000000ull,10000000ull,100000000ull,1000000000ull,10000000000ull,
  100000000000ull,1000000000000ull,10000000000000ull,100000000000000ull,1000000000000000ull,10000000000000000ull,100000000000000000ull,
  1000000000000000000ull,10000000000000000000ull, 0};
static void check_text(const unsigned char* t0, int n, uint64_t mag, int dig, int neg, int grouped, unsigned char gc) {
   int explen = dig + (neg ? 1 : 0) + (grouped ? (dig - 1) / 3 : 0);
   vs_assert(n == explen, "returned length = sign + digits + separators");
   if (n != explen) return;
   const unsigned char* t = t0;
   if (neg) { vs_assert(t[0] == '-', "negative value starts with '-'"); t++; }
   int tl = explen - (neg ? 1 : 0);
   uint64_t back = 0;
   for (int i = 0; i < tl; i++) {
      int from_right = tl - 1 - i;
      if (grouped && from_right % 4 == 3) vs_assert(t[i] == gc, "group character between every three digits from the right");
      else { vs_assert(t[i] >= '0' && t[i] <= '9', "decimal digit"); back = back * 10 + (uint64_t) (t[i] - '0'); }
   }
   vs_assert(dig == 1 || t[0] != '0', "no leading zero");
   vs_assert(back == mag, "text converts back to the value");
}
// kind: 0 u64, 1 i64 (non-negative), 2 i64 negative; variant: 0 buffer, 1 grouped buffer, 2 std::string, 3 grouped std::string
HX void hx_i2s64(uint64_t dig, uint64_t kind, uint64_t variant) {
   uint64_t raw = vs_u64("v"); unsigned char gc = vs_u8("gc");
   uint64_t mag = kind == 2 ? (uint64_t) 0 - raw : raw;
   if (kind == 1) vs_assume((int64_t) raw >= 0);
   if (kind == 2) vs_assume((int64_t) raw < 0);
   if (dig == 1) vs_assume(mag < 10); else vs_assume(mag >= P10[dig - 1]);
   if (dig < 20) vs_assume(mag < P10[dig]);
   unsigned char buf[40]; for (int i = 0; i < 40; i++) buf[i] = 0xAA;
   int n; int grouped = variant & 1;
   if (variant < 2) {
      if (kind == 0) n = grouped ? celma::format::grouped_int2string((char*) buf + 1, (uint64_t) raw, (char) gc) : celma::format::int2string((char*) buf + 1, (uint64_t) raw);
      else n = grouped ? celma::format::grouped_int2string((char*) buf + 1, (int64_t) raw, (char) gc) : celma::format::int2string((char*) buf + 1, (int64_t) raw);
      vs_assert(buf[0] == 0xAA, "nothing written before the buffer");
      vs_assert(n >= 0 && n < 38 && buf[1 + n] == 0, "NUL terminator directly behind the text");
      for (int i = n + 2; i < 40; i++) vs_assert(buf[i] == 0xAA, "nothing written behind the NUL");
      check_text(buf + 1, n, mag, (int) dig, kind == 2, grouped, gc);
   } else {
      std::string s;
      if (kind == 0) s = grouped ? celma::format::grouped_int2string((uint64_t) raw, (char) gc) : celma::format::int2string((uint64_t) raw);
      else s = grouped ? celma::format::grouped_int2string((int64_t) raw, (char) gc) : celma::format::int2string((int64_t) raw);
      check_text((const unsigned char*) s.data(), (int) s.size(), mag, (int) dig, kind == 2, grouped, gc);
   }
   vs_note("dig", dig);
}

// "converting the text back yields the original value": int2string() -> stringTo< T>() for every type; the value is symbolic
// within the type and the decade given by the driver (dig digits; neg: negative values)
template <typename T> static void back(uint64_t dig, uint64_t neg) {
   uint64_t raw = vs_u64("v");
   // the value as a 64-bit pattern: [0, 2^bits) for unsigned types, [0, 2^(bits-1)) or [2^64 - 2^(bits-1), 2^64) for signed ones
   const unsigned bits = 8 * sizeof(T);
   if (!std::is_signed<T>::value) { if (bits < 64) vs_assume(raw < ((uint64_t) 1 << bits)); }
   else if (!neg) vs_assume(raw < ((uint64_t) 1 << (bits - 1)));
   else vs_assume(raw >= (uint64_t) 0 - ((uint64_t) 1 << (bits - 1)));
   T value = (T) raw;
   uint64_t mag = (std::is_signed<T>::value && value < 0) ? (uint64_t) 0 - (uint64_t) (int64_t) value : (uint64_t) value;
   if (dig == 1) vs_assume(mag < 10); else vs_assume(mag >= P10[dig - 1]);
   if (dig < 20) vs_assume(mag < P10[dig]);
   std::string s = celma::format::int2string(value);
   int rc = 0; T got = 0;
   try { got = celma::format::stringTo<T>(s); } catch (...) { rc = 1; }
   vs_assert(rc == 0, "converting the text back does not fail");
   if (rc == 0) vs_assert(got == value, "converting the text back yields the original value");
   vs_note("dig", dig);
}
HX void hx_i2s_back(uint64_t type, uint64_t dig, uint64_t neg) {
   switch (type) {
   case 0: back<uint8_t>(dig, neg); break;   case 1: back<int8_t>(dig, neg); break;
   case 2: back<uint16_t>(dig, neg); break;  case 3: back<int16_t>(dig, neg); break;
   case 4: back<uint32_t>(dig, neg); break;  case 5: back<int32_t>(dig, neg); break;
   case 6: back<uint64_t>(dig, neg); break;  default: back<int64_t>(dig, neg); break;
   }
}
