/* C13 harnesses (E1): one harness per (type, sign, digit count, grouped?).  The value ranges over the
 * whole decade, so the harnesses of one type together cover every value of the type. */
#define NIN 8
#include "harness.h"
#if defined(VH_NO_GEN)
#elif defined(__CPROVER__) || defined(VH_GENERATED)
#include "w_i2s_gen.c"
#else
#include "w_i2s_gen_protos.h"
#endif
static const uint64_t P10[21] = {1ull,10ull,100ull,1000ull,10000ull,100000ull,1000000ull,10000000ull,100000000ull,1000000000ull,10000000000ull,
  100000000000ull,1000000000000ull,10000000000000ull,100000000000000ull,1000000000000000ull,10000000000000000ull,100000000000000000ull,
  1000000000000000000ull,10000000000000000000ull, 0};
#define BUFSZ 40
/* checks the text produced for magnitude 'mag' (dig decimal digits), sign 'neg', group char gc (grouped != 0) */
static void check_text(const uint8_t* buf, int n, uint64_t mag, int dig, int neg, int grouped, uint8_t gc)
{
  int explen = dig + (neg ? 1 : 0) + (grouped ? (dig - 1) / 3 : 0);
  CHECK(n == explen, "C13 returned length = sign + digits + separators");
  CHECK(buf[0] == 0xAA, "C13 nothing written before the buffer");
  if (n != explen) return;
  CHECK(buf[1 + explen] == 0, "C13 NUL terminator directly behind the text");
  for (int i = explen + 2; i < BUFSZ; i++) CHECK(buf[i] == 0xAA, "C13 nothing written behind the NUL");
  const uint8_t* t = buf + 1;
  if (neg) { CHECK(t[0] == '-', "C13 negative value starts with '-'"); t++; }
  int tl = explen - (neg ? 1 : 0);
  uint64_t back = 0;
  for (int i = 0; i < tl; i++) {
    int from_right = tl - 1 - i;
    if (grouped && from_right % 4 == 3) { CHECK(t[i] == gc, "C13 group character between every three digits from the right"); }
    else { CHECK(t[i] >= '0' && t[i] <= '9', "C13 decimal digit"); back = back * 10 + (uint64_t)(t[i] - '0'); }
    OUT(t[i]);
  }
  CHECK(dig == 1 || t[0] != '0', "C13 no leading zero");
  CHECK(back == mag, "C13 text converts back to the value");
}
#define RANGE(mag, dig) ASSUME((dig) == 1 ? (mag) < 10 : (mag) >= P10[(dig) - 1]); if ((dig) < 20) ASSUME((mag) < P10[dig])
#define H_UNS(nm, T, dig) \
HARNESS(h_##nm##_d##dig) { uint8_t buf[BUFSZ]; for (int i = 0; i < BUFSZ; i++) buf[i] = 0xAA; \
  T v = (T)IN(0); uint64_t mag = (uint64_t)v; RANGE(mag, dig); \
  int n = vw_##nm(buf + 1, v); OUT(n); check_text(buf, n, mag, dig, 0, 0, 0); WITNESS_END(); } \
HARNESS(h_g##nm##_d##dig) { uint8_t buf[BUFSZ]; for (int i = 0; i < BUFSZ; i++) buf[i] = 0xAA; \
  T v = (T)IN(0); uint8_t gc = (uint8_t)IN(1); uint64_t mag = (uint64_t)v; RANGE(mag, dig); \
  int n = vw_g##nm(buf + 1, v, gc); OUT(n); check_text(buf, n, mag, dig, 0, 1, gc); WITNESS_END(); }
#define H_SGN(nm, T, UT, dig) \
HARNESS(h_##nm##_p##dig) { uint8_t buf[BUFSZ]; for (int i = 0; i < BUFSZ; i++) buf[i] = 0xAA; \
  T v = (T)IN(0); ASSUME(v >= 0); uint64_t mag = (uint64_t)v; RANGE(mag, dig); \
  int n = vw_##nm(buf + 1, v); OUT(n); check_text(buf, n, mag, dig, 0, 0, 0); WITNESS_END(); } \
HARNESS(h_##nm##_n##dig) { uint8_t buf[BUFSZ]; for (int i = 0; i < BUFSZ; i++) buf[i] = 0xAA; \
  T v = (T)IN(0); ASSUME(v < 0); uint64_t mag = (uint64_t)(UT)(0 - (UT)v); RANGE(mag, dig); \
  int n = vw_##nm(buf + 1, v); OUT(n); check_text(buf, n, mag, dig, 1, 0, 0); WITNESS_END(); } \
HARNESS(h_g##nm##_p##dig) { uint8_t buf[BUFSZ]; for (int i = 0; i < BUFSZ; i++) buf[i] = 0xAA; \
  T v = (T)IN(0); uint8_t gc = (uint8_t)IN(1); ASSUME(v >= 0); uint64_t mag = (uint64_t)v; RANGE(mag, dig); \
  int n = vw_g##nm(buf + 1, v, gc); OUT(n); check_text(buf, n, mag, dig, 0, 1, gc); WITNESS_END(); } \
HARNESS(h_g##nm##_n##dig) { uint8_t buf[BUFSZ]; for (int i = 0; i < BUFSZ; i++) buf[i] = 0xAA; \
  T v = (T)IN(0); uint8_t gc = (uint8_t)IN(1); ASSUME(v < 0); uint64_t mag = (uint64_t)(UT)(0 - (UT)v); RANGE(mag, dig); \
  int n = vw_g##nm(buf + 1, v, gc); OUT(n); check_text(buf, n, mag, dig, 1, 1, gc); WITNESS_END(); }
H_UNS(u8, uint8_t, 1) H_UNS(u8, uint8_t, 2) H_UNS(u8, uint8_t, 3)
H_SGN(i8, int8_t, uint8_t, 1) H_SGN(i8, int8_t, uint8_t, 2) H_SGN(i8, int8_t, uint8_t, 3)
H_UNS(u16, uint16_t, 1) H_UNS(u16, uint16_t, 2) H_UNS(u16, uint16_t, 3) H_UNS(u16, uint16_t, 4) H_UNS(u16, uint16_t, 5)
H_SGN(i16, int16_t, uint16_t, 1) H_SGN(i16, int16_t, uint16_t, 2) H_SGN(i16, int16_t, uint16_t, 3) H_SGN(i16, int16_t, uint16_t, 4) H_SGN(i16, int16_t, uint16_t, 5)
H_UNS(u32, uint32_t, 1) H_UNS(u32, uint32_t, 2) H_UNS(u32, uint32_t, 3) H_UNS(u32, uint32_t, 4) H_UNS(u32, uint32_t, 5)
H_UNS(u32, uint32_t, 6) H_UNS(u32, uint32_t, 7) H_UNS(u32, uint32_t, 8) H_UNS(u32, uint32_t, 9) H_UNS(u32, uint32_t, 10)
H_SGN(i32, int32_t, uint32_t, 1) H_SGN(i32, int32_t, uint32_t, 2) H_SGN(i32, int32_t, uint32_t, 3) H_SGN(i32, int32_t, uint32_t, 4) H_SGN(i32, int32_t, uint32_t, 5)
H_SGN(i32, int32_t, uint32_t, 6) H_SGN(i32, int32_t, uint32_t, 7) H_SGN(i32, int32_t, uint32_t, 8) H_SGN(i32, int32_t, uint32_t, 9) H_SGN(i32, int32_t, uint32_t, 10)
