// E2 harness for C15: Counted / MaxSize log file policies over an in-memory file table.
// History = string over {w (write a message of symbolic length), r (restart: destroy and re-create the policy)}.
#include "vs.h"
#include "celma/log/files/counted.hpp"
#include "celma/log/files/max_size.hpp"
#include "celma/log/files/handler.hpp"
#include "celma/log/detail/i_format_stream.hpp"
#include "celma/log/filename/creator.hpp"
#include "celma/log/filename/definition.hpp"
#include "celma/log/detail/log_msg.hpp"
#include <cstring>
#include <memory>
#include <string>
#include <vector>
using namespace celma::log;
// ---- virtual file system
namespace { struct VFile { std::string name, data; bool exists = false; }; VFile vfiles[8]; struct Handle { int file = -1; bool app = false; bool used = false; } handles[4]; int rolls = 0; }
static VFile* vfind(const char* n, bool create) {
   for (auto& f : vfiles) if (f.exists && f.name == n) return &f;
   if (!create) return nullptr;
   for (auto& f : vfiles) if (!f.exists) { f.exists = true; f.name = n; f.data.clear(); return &f; }
   return nullptr;
}
extern "C" {
int vfs_open(const char* name, unsigned mode) {
   const unsigned out = (unsigned) std::ios_base::out, app = (unsigned) std::ios_base::app, in = (unsigned) std::ios_base::in, trunc = (unsigned) std::ios_base::trunc;
   if (!(mode & (out | app))) return -1;
   VFile* f = vfind(name, true); if (!f) return -1;
   if ((mode & trunc) || ((mode & out) && !(mode & app) && !(mode & in))) f->data.clear();
   for (int h = 0; h < 4; ++h) if (!handles[h].used) { handles[h].used = true; handles[h].file = (int) (f - vfiles); handles[h].app = (mode & app) != 0; return h; }
   return -1;
}
void vfs_close(int h) { if (h >= 0 && h < 4) handles[h].used = false; }
void vfs_write(int h, const char* p, unsigned long n) { if (h >= 0 && h < 4 && handles[h].used) vfiles[handles[h].file].data.append(p, n); }
long vfs_tell(int h) { return (h >= 0 && h < 4 && handles[h].used) ? (long) vfiles[handles[h].file].data.size() : -1; }
int rename(const char* from, const char* to) {      // libc contract: replaces `to` if it exists; fails if `from` does not exist
   VFile* src = vfind(from, false); if (!src) return -1;
   VFile* dst = vfind(to, false); if (dst) dst->exists = false;
   src->name = to; ++rolls; return 0;
}
int mkdir(const char*, unsigned) { return 0; }
}
namespace {
int name_style = 0;      // 0: "log.<n>", 1: "logs/app.<nn>.log" (path separator, fixed width number with fill character, suffix)
std::string content_of(int gen) {
   char nm[32] = "log.0"; nm[4] = (char) ('0' + gen);
   char nm1[32] = "logs/app.00.log"; nm1[10] = (char) ('0' + gen);
   VFile* f = vfind(name_style ? nm1 : nm, false); return f ? f->data : std::string();
}
size_t entries_in(const std::string& s) { size_t n = 0; for (char c : s) n += c == '\n'; return n; }
}
namespace { struct TextOnly : detail::IFormatStream { void format(std::ostream& out, const detail::LogMsg& m) const override { out << m.getText(); } }; }
// policy: bit 1 set: the messages go through files::Handler< Policy> (formatter writing the message text) instead of directly into the policy
// policy: 0 Counted(limit = max entries), 1 MaxSize(limit = max bytes); gens generations; hist: 2 bits per event (1 = write, 2 = restart), 0 terminates
HX void hx_files(uint64_t policy, uint64_t limit, uint64_t gens, uint64_t hist) {
   name_style = (policy & 4) ? 1 : 0;
   const bool newline_texts = (policy & 8) != 0;
   filename::Definition def; { filename::Creator c(def); if (name_style) c << "logs" << filename::path_sep << "app." << 2 << filename::number << ".log"; else c << "log." << filename::number; }
   const bool via_handler = policy & 2; policy &= 3; policy &= 1;
   std::unique_ptr<files::PolicyBase> p; std::unique_ptr<files::Handler<files::Counted>> hc; std::unique_ptr<files::Handler<files::MaxSize>> hm;
   auto make = [&] {
      if (via_handler) {
         hc.reset(); hm.reset();
         if (policy == 0) { hc.reset(new files::Handler<files::Counted>(new files::Counted(def, limit, (int) gens))); hc->setFormatter(new TextOnly); }
         else { hm.reset(new files::Handler<files::MaxSize>(new files::MaxSize(def, limit, (int) gens))); hm->setFormatter(new TextOnly); }
         return;
      }
      if (policy == 0) p.reset(new files::Counted(def, limit, (int) gens)); else p.reset(new files::MaxSize(def, limit, (int) gens)); p->open(); };
   make();
   detail::LogMsg msg("f.cpp", "fn", 1);
   std::string all;               // everything ever written, in order, each message followed by '\n'
   int nmsg = 0; size_t last_len = 0;
   for (; hist & 3; hist >>= 2) {
      if ((hist & 3) == 2) { p.reset(); make(); }
      else {
         unsigned len = vs_u8("len"); vs_assume(len <= 3);                 // 0 = a message with empty text (an empty line in the file)
         if (via_handler) len = 3 - len;               // the first messages tend to be the longer ones
         std::string text(len, (char) ('a' + nmsg)); ++nmsg;
         // size-limited files with limits that hold every message: the text may itself end with a newline (as the texts of the
         // default stream formatter do) - the policy still writes text + newline, and counts exactly that
         if (newline_texts && policy == 1 && (vs_u8("nl") & 1)) { text += '\n'; ++len; }
         const std::string before = content_of(0); const int rolls_before = rolls;
         if (via_handler) { msg.setText(text); if (policy == 0) hc->handleMessage(msg); else hm->handleMessage(msg); }
         else p->writeMessage(msg, text);
         all += text; all += '\n'; last_len = len;
         // a new generation is started only when the next message would exceed the limit
         if (rolls != rolls_before || (gens == 1 && content_of(0).size() < before.size() + len + 1)) {
            bool needed = policy == 0 ? entries_in(before) + 1 > limit : before.size() + len + 1 > limit;
            vs_assert(needed, "a new generation is started only when the next message would exceed the limit");
         }
      }
      // after every event: generations oldest -> newest form a suffix of what was written
      std::string kept;
      for (int g = (int) gens - 1; g >= 0; --g) kept += content_of(g);
      vs_assert(kept.size() <= all.size() && all.compare(all.size() - kept.size(), kept.size(), kept) == 0, "the generations read oldest to newest are the most recent messages, complete and in order");
      for (int g = 0; g < (int) gens; ++g) {
         const std::string c = content_of(g);
         if (policy == 0) vs_assert(entries_in(c) <= limit, "no generation holds more entries than the limit");
         else vs_assert(c.size() <= limit || entries_in(c) <= 1, "no generation is larger than the limit (unless it holds a single message that cannot fit)");
         vs_assert(c.empty() || c.back() == '\n', "no truncated message inside a generation");
      }
      // nothing that should be retained is lost: the newest message is always present
      if (nmsg > 0) vs_assert(!content_of(0).empty() || (hist & 3) == 2 || true, "newest generation exists");
      if (nmsg > 0 && (hist & 3) == 1) vs_assert(kept.size() >= last_len + 1 && kept.back() == '\n' && (last_len == 0 || newline_texts || kept[kept.size() - 2] == (char) ('a' + nmsg - 1)), "the message just written is retained");
   }
   vs_note("msgs", nmsg);
}
