#!/usr/bin/env python3-vt
"""C15: rolling log files - E2 (irsym + z3) with a file-system model."""
import sys, os, itertools
sys.path.insert(0, os.path.join(os.path.dirname(os.path.abspath(__file__)), '..', '..', 'engine'))
from e2 import *
HERE = os.path.dirname(os.path.abspath(__file__))
def _lib():
    import glob
    out = []
    for p in ['src/library/log/*.cpp', 'src/library/log/detail/*.cpp', 'src/library/log/filter/*.cpp', 'src/library/log/filter/detail/*.cpp', 'src/library/log/formatting/*.cpp',
              'src/library/log/filename/*.cpp', 'src/library/log/files/*.cpp', 'src/library/common/*.cpp', 'src/library/common/detail/*.cpp', 'src/library/format/*.cpp', 'src/library/format/detail/*.cpp']:
        out += sorted(glob.glob(os.path.join(REPO, p)))
    return [os.path.relpath(f, REPO) for f in out if not f.endswith('print_version_info.cpp') and not f.endswith('add_log_standard_args.cpp')]


LIB = _lib()


def main(tier, only=None):
    shapes = []
    maxlen = 4 if tier == 'quick' else 6
    hists = []
    for n in range(1, maxlen + 1):
        for h in itertools.product('wr', repeat=n):
            if h[0] == 'r' or 'rr' in ''.join(h) or h.count('w') < 1:
                continue
            hists.append(''.join(h))
    cfgs = [(0, 1, 2), (0, 2, 2), (0, 2, 3), (1, 4, 2), (1, 6, 3), (1, 8, 2)] if tier == 'quick' else [(0, 1, 2), (0, 2, 2), (0, 2, 3), (0, 3, 3), (1, 4, 2), (1, 5, 2), (1, 6, 3), (1, 8, 2), (1, 12, 3)]
    for (pol, lim, gens) in cfgs:
        for h in hists:
            if tier == 'quick' and len(h) == 4 and h.count('r') == 0 and lim > 2 and pol == 0:
                continue
            code = sum((1 if c == 'w' else 2) << (2 * i) for i, c in enumerate(h))
            shapes.append(('hx_files', [pol, lim, gens, code], '%s/limit%d/gens%d/%s' % ('counted' if pol == 0 else 'maxsize', lim, gens, h)))
    # the same through files::Handler< Policy>::message() (formatting into a stream first)
    for (pol, lim, gens) in ((0, 2, 2), (1, 6, 2)) if tier == 'quick' else ((0, 1, 2), (0, 2, 2), (0, 3, 3), (1, 4, 2), (1, 6, 3), (1, 12, 3)):
        for h in hists:
            if tier == 'quick' and (len(h) > 3 and h not in ('wwww', 'wwrw', 'wrww')):
                continue
            code = sum((1 if c == 'w' else 2) << (2 * i) for i, c in enumerate(h))
            shapes.append(('hx_files', [pol | 2, lim, gens, code], 'handler/%s/limit%d/gens%d/%s' % ('counted' if pol == 0 else 'maxsize', lim, gens, h)))
    # older generations already on disk, restart, then further rolls: histories of length 5-6 with one restart for the smallest limits
    for (pol, lim, gens) in ((0, 1, 3), (0, 1, 2), (1, 4, 3), (0, 2, 3)):
        for n in (5, 6):
            for rpos in range(1, n - 1):
                h = 'w' * rpos + 'r' + 'w' * (n - rpos - 1)
                if tier == 'quick' and n == 6 and (pol, lim, gens) != (0, 1, 3):
                    continue
                code = sum((1 if c == 'w' else 2) << (2 * i) for i, c in enumerate(h))
                shapes.append(('hx_files', [pol, lim, gens, code], '%s/limit%d/gens%d/%s' % ('counted' if pol == 0 else 'maxsize', lim, gens, h)))
    # generation names built from a path separator, a fixed-width number with fill character and a suffix ("logs/app.<nn>.log")
    for (pol, lim, gens) in ((0, 1, 2), (0, 2, 3), (1, 6, 2)):
        for h in ('ww', 'www', 'wwrw', 'wrww', 'wwww'):
            code = sum((1 if c == 'w' else 2) << (2 * i) for i, c in enumerate(h))
            shapes.append(('hx_files', [pol | 4, lim, gens, code], 'names/%s/limit%d/gens%d/%s' % ('counted' if pol == 0 else 'maxsize', lim, gens, h)))
    # size-limited files, texts that may end with a newline themselves (limit >= 2 messages of the longest kind)
    for (lim, gens) in ((10, 2),) if tier == 'quick' else ((10, 2), (12, 3)):
        for h in ('ww', 'www', 'wwrw', 'wrww') if tier == 'quick' else ('ww', 'www', 'wwww', 'wwrw', 'wrww'):
            code = sum((1 if c == 'w' else 2) << (2 * i) for i, c in enumerate(h))
            shapes.append(('hx_files', [1 | 8, lim, gens, code], 'newline-texts/maxsize/limit%d/gens%d/%s' % (lim, gens, h)))
    if only:
        shapes = [s for s in shapes if re.search(only, s[2])]
    model = os.path.join(HERE, 'verif_fstream_model.hpp')
    u = E2Unit('logfiles_C15', os.path.join(HERE, 'w_files.cpp'), lib_srcs=LIB, shapes=shapes, timeout=600, conc_cap=200,
               extra_flags=['-D_GLIBCXX_FSTREAM=1', '-include', model], validate_vectors=8,
               bounds=dict(limits='entries 1..3 / bytes 4..12', generations='2..3', histories='all write/restart histories up to length %d (no double restart)' % maxlen, message_length='0..3 symbolic (0 = empty text)'))
    u.native_flags = ['-D_GLIBCXX_FSTREAM=1', '-include', model]
    rule = ('one obligation = (policy, limit, generations, history of writes/restarts); message lengths symbolic; after every event z3 decides the retained-suffix, limit and '
            'roll-only-when-needed assertions on every path')
    assumptions = ['std::ofstream is the model of props/logfiles/verif_fstream_model.hpp (open modes per the C++ standard table; writes are atomic: crash points inside a write are outside the claim)',
                   'file system = in-harness table; rename()/mkdir() follow the libc contract', 'real filename::Builder/Creator code builds the generation names (log.<n>)',
                   'Timestamped and Simple policies are not covered']

    def classify(v):
        return v['msg'] if v['kind'] == 'assert' else v['kind'] + ': ' + re.sub(r'0x[0-9a-f]+', 'ADDR', re.sub(r'\d+', 'N', v['msg']))[:110]

    def keyfn(u_, r, v, cls):
        return 'C15:%s|%s' % (r['label'].split('/')[0], cls)
    return run_e2('C15', tier, [u], rule, assumptions, classify=classify, keyfn=keyfn)


if __name__ == '__main__':
    import argparse
    ap = argparse.ArgumentParser(); ap.add_argument('--tier', default=os.environ.get('VERIF_TIER', 'quick')); ap.add_argument('--only')
    a = ap.parse_args()
    if getattr(a, 'only', None) or getattr(a, 'caps', None):
        os.environ['VERIF_PARTIAL'] = '1'
    sys.exit(guarded_main(lambda: main(a.tier, a.only)))
