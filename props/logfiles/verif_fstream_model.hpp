// Model of std::ofstream for the log-file policies (C15).  std::basic_ofstream's members live in
// libstdc++.so and a real file system is not part of the IR, so the policies are compiled against
// this explicit specialisation (injected with -D_GLIBCXX_FSTREAM=1 -include ...), which maps the
// file operations onto an in-harness table of files (vfs_*).  Open-mode semantics follow
// [filebuf.members] table: out without app/in truncates ("w"), app appends ("a"), ate seeks to the end.
#pragma once
#include <ios>
#include <string>
#include <ostream>
extern "C" {
int vfs_open(const char* name, unsigned mode);          // -1 on failure
void vfs_close(int h);
void vfs_write(int h, const char* p, unsigned long n);
long vfs_tell(int h);
}
namespace std {
template<> class basic_ofstream<char, char_traits<char>> {
public:
   basic_ofstream() = default;
   void open(const std::string& n, ios_base::openmode m) { mH = vfs_open(n.c_str(), (unsigned) m); }
   void open(const char* n, ios_base::openmode m) { mH = vfs_open(n, (unsigned) m); }
   bool is_open() const { return mH >= 0; }
   bool operator!() const { return mH < 0; }
   explicit operator bool() const { return mH >= 0; }
   void close() { if (mH >= 0) vfs_close(mH); mH = -1; }
   long tellp() { return vfs_tell(mH); }
   basic_ofstream& operator<<(const std::string& s) { vfs_write(mH, s.data(), s.size()); return *this; }
   basic_ofstream& operator<<(const char* s) { vfs_write(mH, s, __builtin_strlen(s)); return *this; }
   basic_ofstream& operator<<(std::ostream& (*)(std::ostream&)) { vfs_write(mH, "\n", 1); return *this; }   // std::endl
   basic_ofstream& operator<<(char c) { vfs_write(mH, &c, 1); return *this; }
   basic_ofstream& put(char c) { vfs_write(mH, &c, 1); return *this; }
   basic_ofstream& write(const char* p, std::streamsize n) { if (n > 0) vfs_write(mH, p, (unsigned long) n); return *this; }
   basic_ofstream& flush() { return *this; }                 // the model has no buffer: every write is in the file at once
   bool good() const { return mH >= 0; }
   bool fail() const { return mH < 0; }
private:
   int mH = -1;
};
}
